#!/usr/bin/env python3
"""
cli_src_compare.py -- run the GENERATED argument handling (kmodel op `cli_parse_src`: CliSrc.try_main, translated from main.rs by
rs2lean_cli.py) and the hand-written model (op `cli_parse`: Cli.parseArgv) on the same argument vectors and compare the requests.

  vectors: every vector of length <= 2 (after the program name) over a vocabulary of command words, aliases, options in all
  spellings (`-t x`, `--to x`, `--to=x`, `-to`, `-t=x`), values, `--`, `-`, the empty string; plus random longer ones (seeded).
  usage  : cli_src_compare.py [--kmodel PATH] [--random N] [--seed S]
  exit   : 0 = all equal, 1 = a difference (printed)
"""
import sys, os, subprocess, random, itertools

VOCAB = ['enc', 'encrypt', 'dec', 'decrypt', 'key', 'pass', 'password', 'gen', 'generate', 'change-pass', 'extract-pub',
         '-t', '--to', '--to=x', '-to', '-t=x', '-f', '--from', '--from=y', '-o', '--output', '--output=o', '-k', '--keyring=k',
         '--env-pass', '-env-pass', '--env-pass=1', '-h', '--help', '-v', '--version', '--', '-', '', 'x', 'file', '-x', '--bogus', 'é']
LONG_VOCAB = VOCAB + ['-t', 'alice', '-f', 'bob', '-o', 'out', '-k', 'ring', 'in.txt', '--to', '--from', '=', '-t=', '--to=', 'a=b', '-e', '--env']


def hexarg(a):
    return a.encode('utf-8').hex()


def encode(argv):
    return ','.join(hexarg(a) for a in argv) if argv else '-'


def main():
    here = os.path.dirname(os.path.abspath(__file__))
    kmodel = os.path.join(here, '..', 'lean', '.lake', 'build', 'bin', 'kmodel')
    nrand, seed = 400, 20260930
    args = sys.argv[1:]
    while args:
        a = args.pop(0)
        if a == '--kmodel': kmodel = args.pop(0)
        elif a == '--random': nrand = int(args.pop(0))
        elif a == '--seed': seed = int(args.pop(0))
        else:
            print(__doc__); return 2
    vectors = [[], ['kestrel']]
    for n in (1, 2):
        for combo in itertools.product(VOCAB, repeat=n):
            vectors.append(['kestrel'] + list(combo))
    rnd = random.Random(seed)

    def opt(short, long, val):
        forms = []
        if short: forms += [[f'-{short}', val], [f'-{short}={val}']]
        forms += [[f'--{long}', val], [f'--{long}={val}'], [f'-{long}', val], [f'-{long}={val}']]
        return rnd.choice(forms)

    def wellformed():
        cmd = rnd.choice(['enc', 'encrypt', 'dec', 'decrypt', 'key gen', 'key generate', 'key change-pass', 'key extract-pub',
                          'pass enc', 'password encrypt', 'pass dec', 'password decrypt'])
        v, parts = ['kestrel'] + cmd.split(), []
        vals = ['alice', 'bob', 'o.bin', 'ring', '-', '', 'a=b', '-x', 'é', 'in', '--to']
        if cmd in ('enc', 'encrypt', 'dec', 'decrypt'):
            if rnd.random() < 0.9: parts.append(opt('t', 'to', rnd.choice(vals)))
            if cmd.startswith('enc') and rnd.random() < 0.9: parts.append(opt('f', 'from', rnd.choice(vals)))
            if rnd.random() < 0.5: parts.append(opt('k', 'keyring', rnd.choice(vals)))
        if not cmd.startswith('key c') and not cmd.startswith('key e') and rnd.random() < 0.5: parts.append(opt('o', 'output', rnd.choice(vals)))
        if rnd.random() < 0.4: parts.append([rnd.choice(['--env-pass', '-env-pass'])])
        for _ in range(rnd.choice([0, 1, 1, 1, 2])): parts.append([rnd.choice(['in.txt', 'x', '-', '', 'é', 'SK'])])
        if rnd.random() < 0.1: parts.append(rnd.choice([['--'], ['-t', 'dup'], ['--bogus'], ['--env-pass=1'], ['-h']]))
        rnd.shuffle(parts)
        for p_ in parts: v += p_
        return v

    for i in range(nrand):
        if i % 2 == 0:
            vectors.append(wellformed()); continue
        n = rnd.randint(3, 9)
        v = ['kestrel', rnd.choice(['enc', 'encrypt', 'dec', 'decrypt', 'key', 'pass', 'password', rnd.choice(LONG_VOCAB)])]
        if v[1] in ('key', 'pass', 'password') and rnd.random() < 0.9:
            v.append(rnd.choice(['gen', 'generate', 'change-pass', 'extract-pub', 'enc', 'encrypt', 'dec', 'decrypt', rnd.choice(LONG_VOCAB)]))
        while len(v) < n: v.append(rnd.choice(LONG_VOCAB))
        vectors.append(v)
    lines = []
    for v in vectors:
        lines.append(f'cli_parse {encode(v)}')
        lines.append(f'cli_parse_src {encode(v)}')
    p = subprocess.run([kmodel], input='\n'.join(lines) + '\n', capture_output=True, text=True)
    out = p.stdout.split('\n')
    if len(out) < len(lines):
        print(f'kmodel produced {len(out)} lines for {len(lines)} requests'); print(p.stderr); return 1
    bad, kinds = 0, {}
    for i, v in enumerate(vectors):
        a, b = out[2 * i], out[2 * i + 1]
        kind = a.split()[1].split('.')[-1] if len(a.split()) > 1 else a
        kinds[kind] = kinds.get(kind, 0) + 1
        if a != b or not a.startswith('ok '):
            bad += 1
            if bad <= 20: print(f'DIFFERENCE for {v!r}:\n  model : {a}\n  source: {b}')
    print(f'{len(vectors)} argument vectors ({len(vectors) - nrand} exhaustive, {nrand} random), {bad} differences; requests by kind: '
          + ', '.join(f'{k} {n}' for k, n in sorted(kinds.items())))
    return 1 if bad else 0


if __name__ == '__main__':
    sys.exit(main())
