#!/usr/bin/env python3
"""
selftest_stream_scrypt.py -- regression test for the robustness / sensitivity of the source translations
tools/rs2lean_stream.py (encrypt.rs, decrypt.rs -> GeneratedStream.lean) and tools/rs2lean_scrypt.py (scrypt.rs ->
GeneratedScrypt.lean) and of the equality proofs about their output (KestrelProofs/StreamSrc*.lean, ScryptSrc.lean,
KestrelProps/StreamSrc*.lean, NoiseStreamSrc.lean, C18src.lean).

  usage : python3 tools/selftest_stream_scrypt.py          (no arguments; standard library only; needs `patch` and `lake`)
  exit  : 0 iff every row is as expected

For every patch it applies the patch to a scratch copy of repo-src/, runs both translators with KESTREL_REPO=<scratch>
writing into a scratch copy of the lean project (copied WITH its build products, so only what depends on the generated
files is rebuilt), and builds the proof modules with `lake build`.  Nothing outside a temporary directory created inside
this working copy is written; repo-src/ and the committed generated files are never touched.

  HARMLESS rows (seeded/B*-b*, maintenance rewrites under which every property still holds):
      expected  : both translators exit 0 AND every proof module builds (AND Main.lean, which runs the generated
                  definitions, still compiles: the signatures of the entry points did not move)      -> "pass"
  BREAKING rows (seeded/C*-m* that touch encrypt.rs / decrypt.rs / errors.rs / scrypt.rs, and the hand-made one-line edits
  HAND below):
      expected  : a translator refuses (exit 3) OR a proof module no longer builds                   -> "caught"
      a seeded breaking patch none of whose hunks lies in a region the translators read is "n/a"
      (computed from the diff: see `relevant`).
  Breaking edits ON TOP OF a harmless rewrite (HAND_ON) check that every construct accepted for the sake of a harmless patch
  is still looked into: each of them must end in "caught", and the ones about the second batch of harmless patches
  (`H+B1b4-…` … `H+B2b6-…`) are all caught by a failing proof, not by a refusal.
Rows whose expectation differs from the default are listed, with the reason, in KNOWN.
"""
import os, re, shutil, subprocess, sys, tempfile, time
from concurrent.futures import ThreadPoolExecutor

HERE = os.path.dirname(os.path.abspath(__file__))
ROOT = os.path.dirname(HERE)
# the pristine Rust sources: repo-src/ inside a development copy, otherwise $KESTREL_REPO, otherwise /repo (only read, copied to a scratch directory)
PRISTINE = os.path.join(ROOT, 'repo-src') if os.path.isdir(os.path.join(ROOT, 'repo-src')) else os.environ.get('KESTREL_REPO', '/repo')
SEEDED = os.path.join(ROOT, 'seeded')
CRYPTO = 'src/crypto/src/'

HARMLESS = ['B1-b1', 'B1-b2', 'B1-b3', 'B2-b1', 'B2-b2', 'B2-b3', 'B3-b1', 'B3-b2', 'B3-b3', 'B5-b1', 'B5-b2',
            # second batch (control-flow / data-flow rewrites)
            'B1-b4', 'B1-b5', 'B1-b6', 'B2-b4', 'B2-b5', 'B2-b6', 'B5-b4', 'B5-b5']
BREAKING_FILES = {CRYPTO + f for f in ('encrypt.rs', 'decrypt.rs', 'errors.rs', 'scrypt.rs')}

# hand-made breaking edits: (name, file, what, [(old, new)]) -- every `old` must occur exactly once in the file
ENC, DEC, ERR, SCR = CRYPTO + 'encrypt.rs', CRYPTO + 'decrypt.rs', CRYPTO + 'errors.rs', CRYPTO + 'scrypt.rs'
WRITE_DEC = ('        plaintext\n            .write_all(pt_chunk.as_slice())\n            .map_err(write_err)?;\n'
             '        plaintext.flush().map_err(write_err)?;\n')
HAND = [
    ('H-dec-write-before-probe', DEC, 'plaintext written before the end-of-file probe',
     [(WRITE_DEC, ''), ('        if last_chunk_indicator == 1 {\n', WRITE_DEC + '        if last_chunk_indicator == 1 {\n')]),
    ('H-dec-probe-dropped', DEC, 'end-of-file probe dropped',
     [('            let check = ciphertext.read(&mut [0u8; 1]).map_err(read_err)?;\n            if check != 0 {\n'
       "                // We're supposed to be at the end of the file but we found\n                // extra data.\n"
       '                return Err(DecryptError::UnexpectedData);\n            }\n', '')]),
    ('H-dec-gt-ge', DEC, '`>` -> `>=` in the chunk length check', [('if ciphertext_length > chunk_size {', 'if ciphertext_length >= chunk_size {')]),
    ('H-dec-counter-stuck', DEC, 'chunk counter not advanced', [('        chunk_number += 1;\n', '')]),
    ('H-dec-nonce-0', DEC, 'nonce is the literal 0', [('chapoly_decrypt_noise(&key, chunk_number,', 'chapoly_decrypt_noise(&key, 0,')]),
    ('H-dec-flush-dropped', DEC, 'flush after the plaintext write dropped', [('        plaintext.flush().map_err(write_err)?;\n', '')]),
    ('H-dec-readexact-read', DEC, 'header read with `read` instead of `read_exact`',
     [('ciphertext.read_exact(&mut chunk_header)', 'ciphertext.read(&mut chunk_header)')]),
    ('H-dec-from-variant', ERR, '`impl From<ChaPolyDecryptError> for DecryptError` yields ChunkLen',
     [('        DecryptError::ChaPolyDecrypt\n', '        DecryptError::ChunkLen\n')]),
    ('H-dec-last-ne0', DEC, 'last-chunk test `== 1` -> `!= 0`', [('if last_chunk_indicator == 1 {', 'if last_chunk_indicator != 0 {')]),
    ('H-dec-tag-dropped', DEC, 'body read without the tag bytes', [('.read_exact(&mut buffer[..ct_len + TAG_SIZE])', '.read_exact(&mut buffer[..ct_len])')]),
    ('H-dec-format-swapped', DEC, 'pass_decrypt rejects PassV1 instead of AsymV1',
     [('    if file_format == FileFormat::AsymV1 {', '    if file_format == FileFormat::PassV1 {')]),
    ('H-enc-writes-swapped', ENC, 'header and ciphertext writes swapped',
     [('        ciphertext.write_all(&chunk_header).map_err(write_err)?;\n        ciphertext.write_all(ct.as_slice()).map_err(write_err)?;\n',
       '        ciphertext.write_all(ct.as_slice()).map_err(write_err)?;\n        ciphertext.write_all(&chunk_header).map_err(write_err)?;\n')]),
    ('H-enc-and-or', ENC, '`&&` -> `||` in the unexpected-data test', [('if num_read != 0 && done {', 'if num_read != 0 || done {')]),
    ('H-enc-flush-dropped', ENC, 'flush in the chunk loop dropped',
     [('        ciphertext.write_all(ct.as_slice()).map_err(write_err)?;\n        ciphertext.flush().map_err(write_err)?;\n',
       '        ciphertext.write_all(ct.as_slice()).map_err(write_err)?;\n')]),
    ('H-enc-counter-stuck', ENC, 'chunk counter not advanced', [('        chunk_number += 1;\n', '')]),
    ('H-enc-nonce-0', ENC, 'nonce is the literal 0', [('chapoly_encrypt_noise(&key, chunk_number,', 'chapoly_encrypt_noise(&key, 0,')]),
    ('H-enc-clone-dropped', ENC, 'look-ahead buffer not carried over', [('        prev.clone_from(&buff);\n', '')]),
    ('H-enc-len-field', ENC, 'length field from the look-ahead read', [('let ciphertext_length: u32 = prev_read as u32;', 'let ciphertext_length: u32 = num_read as u32;')]),
    ('H-enc-salt-dropped', ENC, 'pass_encrypt does not write the salt', [('    ciphertext.write_all(&salt).map_err(write_err)?;\n', '')]),
    ('H-enc-err-class', ENC, 'read error in the loop mapped by write_err',
     [('        let num_read = plaintext.read(&mut buff).map_err(read_err)?;', '        let num_read = plaintext.read(&mut buff).map_err(write_err)?;')]),
    ('H-enc-write-all-write', ENC, '`write_all` -> `write` for the header',
     [('        ciphertext.write_all(&chunk_header).map_err(write_err)?;', '        ciphertext.write(&chunk_header).map_err(write_err)?;')]),
    ('H-scr-rotation', SCR, 'rotation count 7 -> 8', [('x4 ^= x0.wrapping_add(x12).rotate_left(7);', 'x4 ^= x0.wrapping_add(x12).rotate_left(8);')]),
    ('H-scr-index', SCR, 'Integerify reads the wrong block', [('let j = (2 * r - 1) * 16;', 'let j = (2 * r - 2) * 16;')]),
    ('H-scr-rounds', SCR, 'Salsa20/6', [('for _ in (0..8).step_by(2) {', 'for _ in (0..6).step_by(2) {')]),
    ('H-scr-mask', SCR, 'mask N-2', [('let j = (integer(x, r) & u64::from((N - 1) as u64)) as usize;', 'let j = (integer(x, r) & u64::from((N - 2) as u64)) as usize;')]),
    ('H-scr-line-deleted', SCR, 'a feed-forward addition deleted', [('    x15 = x15.wrapping_add(w15);\n', '')]),
    ('H-scr-xor-or', SCR, '`^=` -> `|=` in block_xor', [('        dst[i] ^= elem;', '        dst[i] |= elem;')]),
]

# hand-made HARMLESS edits (beyond the seeded ones): (name, file, what, [(old, new)]); expected: pass
HARMLESS_HAND = [
    ('G-enc-decl-order', ENC, 'declaration order of two locals swapped',
     [('    let mut chunk_number: u64 = 0;\n    let mut done = false;\n', '    let mut done = false;\n    let mut chunk_number: u64 = 0;\n')]),
    ('G-enc-hoist-len', ENC, '`let aad_len = aad.len();` hoisted out of the loop (the copy stays inside)',
     [('        let aad_len = aad.len();\n', ''), ('    let mut prev = buff.clone();\n', '    let aad_len = aad.len();\n    let mut prev = buff.clone();\n')]),
    ('G-enc-assign-form', ENC, '`if prev_read == 0 { done = true; }` -> `done = prev_read == 0;`',
     [('    if prev_read == 0 {\n        done = true;\n    }\n', '    done = prev_read == 0;\n')]),
    ('G-enc-inline-aad', ENC, 'single-use binding `aad` of pass_encrypt inlined',
     [('    let aad = &PASS_FILE_MAGIC[..];\n', ''),
      ('    encrypt_chunks(plaintext, ciphertext, key.as_slice(), aad, CHUNK_SIZE)?;', '    encrypt_chunks(plaintext, ciphertext, key.as_slice(), &PASS_FILE_MAGIC[..], CHUNK_SIZE)?;')]),
    ('G-dec-rename', DEC, 'locals renamed (done -> finished, buffer -> body_buf, ct -> sealed)',
     [('done', 'finished'), ('buffer', 'body_buf'), ('let ct = &body_buf', 'let sealed = &body_buf'), ('auth_data.as_slice(), ct)?', 'auth_data.as_slice(), sealed)?')]),
    ('G-dec-named-16', DEC, 'header size named by a module constant',
     [('use crate::{CHUNK_SIZE, SCRYPT_N, SCRYPT_P, SCRYPT_R, TAG_SIZE};\n', 'use crate::{CHUNK_SIZE, SCRYPT_N, SCRYPT_P, SCRYPT_R, TAG_SIZE};\n\nconst HDR_LEN: usize = 16;\n'),
      ('        let mut chunk_header = [0u8; 16];', '        let mut chunk_header = [0u8; HDR_LEN];')]),
    ('G-dec-return-form', DEC, 'valid_file_format: final `Err(..)` written as `return Err(..);`',
     [('    Err(FileFormatError)\n}', '    return Err(FileFormatError);\n}')]),
    ('G-scr-named-rounds', SCR, 'Salsa20/8 round count named', [('use orion::hazardous::kdf::pbkdf2::sha256 as pbkdf2;\n', 'use orion::hazardous::kdf::pbkdf2::sha256 as pbkdf2;\n\nconst SALSA_ROUNDS: usize = 8;\n'),
                                                                ('    for _ in (0..8).step_by(2) {', '    for _ in (0..SALSA_ROUNDS).step_by(2) {')]),
    ('G-scr-commute', SCR, '`32 * r` written `r * 32`', [('    let R = 32 * r;\n', '    let R = r * 32;\n')]),
    ('G-dec-probe-helper', DEC, 'end-of-file probe moved into a private helper that reads',
     [('            let check = ciphertext.read(&mut [0u8; 1]).map_err(read_err)?;\n            if check != 0 {',
       '            let extra = trailing_bytes(ciphertext)?;\n            if extra != 0 {'),
      ('/// Verification hook: [`decrypt_chunks`]', 'fn trailing_bytes<T: Read>(ciphertext: &mut T) -> Result<usize, DecryptError> {\n'
       '    let check = ciphertext.read(&mut [0u8; 1]).map_err(read_err)?;\n    Ok(check)\n}\n\n/// Verification hook: [`decrypt_chunks`]')]),
    ('G-enc-write-helper', ENC, 'the three writes of a record moved into a private helper that takes only the writer',
     [('        ciphertext.write_all(&chunk_header).map_err(write_err)?;\n        ciphertext.write_all(ct.as_slice()).map_err(write_err)?;\n        ciphertext.flush().map_err(write_err)?;\n',
       '        write_record(ciphertext, &chunk_header, ct.as_slice())?;\n'),
      ('/// Verification hook: [`encrypt_chunks`]', 'fn write_record<U: Write>(ciphertext: &mut U, header: &[u8], body: &[u8]) -> Result<(), EncryptError> {\n'
       '    ciphertext.write_all(header).map_err(write_err)?;\n    ciphertext.write_all(body).map_err(write_err)?;\n    ciphertext.flush().map_err(write_err)?;\n    Ok(())\n}\n\n/// Verification hook: [`encrypt_chunks`]')]),
    ('G-scr-split-at', SCR, 'last input block of block_mix taken with `split_at`',
     [('    block_copy(tmp, &inn[(2*r-1)*16..], 16);\n', '    let (_head, last) = inn.split_at((2*r-1)*16);\n    block_copy(tmp, last, 16);\n')]),
    ('G-enc-swap-use', ENC, 'buffers exchanged by `mem::swap` named through `use std::mem;`, arguments in the other order',
     [('use std::io::{Read, Write};\n', 'use std::io::{Read, Write};\nuse std::mem;\n'),
      ('        prev.clone_from(&buff);\n', '        mem::swap(&mut buff, &mut prev);\n')]),
    ('G-dec-match-wild', DEC, 'format test of key_decrypt as a `match` with an unbraced `return` arm and a `_` arm',
     [('    let file_format = valid_file_format(&prologue)?;\n    if file_format == FileFormat::PassV1 {\n        return Err(DecryptError::Other(\n'
       '            "This is a password encrypted file. Try password decrypt instread.".into(),\n        ));\n    }\n',
       '    match valid_file_format(&prologue)? {\n        FileFormat::PassV1 => return Err(DecryptError::Other("wrong kind".into())),\n        _ => {}\n    }\n')]),
    ('G-dec-match-var', DEC, 'format test of pass_decrypt as a `match` on the bound variable',
     [('    if file_format == FileFormat::AsymV1 {\n        return Err(DecryptError::Other(\n'
       '            "This is a key encrypted file. Try decrypt instread.".into(),\n        ));\n    }\n',
       '    match file_format {\n        FileFormat::AsymV1 => {\n            return Err(DecryptError::Other("wrong kind".into()));\n        }\n        FileFormat::PassV1 => {}\n    }\n')]),
    ('G-dec-split-mut', DEC, 'decrypt side: the AAD trailer filled through `split_at_mut`',
     [('        auth_data[aad_len..aad_len + 4].copy_from_slice(&last_chunk_indicator_bytes);\n        auth_data[aad_len + 4..].copy_from_slice(&ciphertext_length_bytes);\n',
       '        let (f1, f2) = auth_data[aad_len..].split_at_mut(4);\n        f1.copy_from_slice(&last_chunk_indicator_bytes);\n        f2.copy_from_slice(&ciphertext_length_bytes);\n')]),
    ('G-enc-deferred-len', ENC, 'length field declared by a deferred `let` and assigned on the next line',
     [('        let ciphertext_length: u32 = prev_read as u32;\n', '        let ciphertext_length: u32;\n        ciphertext_length = prev_read as u32;\n')]),
    ('G-scr-mask-hoist', SCR, 'mask computed once per smix call',
     [('    let R = 32 * r;\n', '    let R = 32 * r;\n    let mask = (N - 1) as u64;\n'),
      ('        let j = (integer(x, r) & u64::from((N - 1) as u64)) as usize;', '        let j = (integer(x, r) & mask) as usize;'),
      ('        let j = (integer(y, r) & u64::from((N - 1) as u64)) as usize;', '        let j = (integer(y, r) & mask) as usize;')]),
]

# breaking edits ON TOP OF a harmless patch: (name, harmless patch, file, what, [(old, new)]).  They exercise the constructs the
# harmless rewrites introduce (helper functions, named constants, hoisted statements, `&mut` slice bindings, final-expression
# returns, `u32::from(bool)`, iterator loops; second batch: `std::mem::swap`, deferred `let`, `match` with block arms on an
# `Option` / on an enum, per-iteration flags, `split_at` / `split_at_mut`, const-generic helpers): being robust to a rewrite must
# not mean being blind inside it.
HAND_ON = [
    ('H+B1b1-helper-range', 'B1-b1', ENC, 'extracted helper writes the flag to bytes 8..11',
     [('    chunk_header[8..12].copy_from_slice(&last_chunk_indicator_bytes);', '    chunk_header[8..11].copy_from_slice(&last_chunk_indicator_bytes);')]),
    ('H+B1b1-const-15', 'B1-b1', ENC, 'named header size 15', [('const CHUNK_HEADER_SIZE: usize = 16;', 'const CHUNK_HEADER_SIZE: usize = 15;')]),
    ('H+B1b1-helper-args', 'B1-b1', ENC, 'helper called with its two byte fields swapped',
     [('            last_chunk_indicator_bytes,\n            ciphertext_length_bytes,\n        );', '            ciphertext_length_bytes,\n            last_chunk_indicator_bytes,\n        );')]),
    ('H+B1b2-from-not', 'B1-b2', ENC, '`u32::from(!done)`', [('let last_chunk_indicator = u32::from(done);', 'let last_chunk_indicator = u32::from(!done);')]),
    ('H+B1b2-done-init', 'B1-b2', ENC, '`done` initialised with `!= 0`', [('    let mut done = prev_read == 0;', '    let mut done = prev_read != 0;')]),
    ('H+B1b2-tail-key', 'B1-b2', ENC, 'pass_encrypt passes the password instead of the derived key',
     [('    encrypt_chunks(plaintext, ciphertext, key.as_slice(), aad, CHUNK_SIZE)\n', '    encrypt_chunks(plaintext, ciphertext, password, aad, CHUNK_SIZE)\n')]),
    ('H+B1b3-hoisted-copy-dropped', 'B1-b3', ENC, 'the hoisted AAD copy is dropped (AAD never authenticated)',
     [('    auth_data[..aad_len].copy_from_slice(aad);\n', '')]),
    ('H+B1b3-stale-len', 'B1-b3', ENC, 'renamed look-ahead length not carried over', [('        current_len = next_len;\n', '')]),
    ('H+B2b1-offset', 'B2-b1', DEC, 'named offset of the length field 11', [('const CT_LENGTH_OFFSET: usize = 12;', 'const CT_LENGTH_OFFSET: usize = 11;')]),
    ('H+B2b1-helper-swap', 'B2-b1', DEC, 'helper returns its two fields swapped',
     [('    (last_chunk_indicator_bytes, ciphertext_length_bytes)\n}', '    (ciphertext_length_bytes, last_chunk_indicator_bytes)\n}')]),
    ('H+B2b2-magic', 'B2-b2', DEC, 'local const ASYM_V1 has the PassV1 value', [('const ASYM_V1: [u8; 4] = [0x65, 0x67, 0x6b, 0x10];', 'const ASYM_V1: [u8; 4] = [0x65, 0x67, 0x6b, 0x20];')]),
    ('H+B2b2-tail-aad', 'B2-b2', DEC, 'pass_decrypt authenticates an empty AAD',
     [('    decrypt_chunks(ciphertext, plaintext, &key, &pass_magic_num, CHUNK_SIZE)\n', '    decrypt_chunks(ciphertext, plaintext, &key, &[], CHUNK_SIZE)\n')]),
    ('H+B2b2-ok-key', 'B2-b2', DEC, 'key_decrypt returns the recipient key', [('    Ok(noise_message.public_key.clone())', '    Ok(recipient_public.clone())')]),
    ('H+B2b3-alias-short', 'B2-b3', DEC, 'the `&mut` body slice leaves out the tag', [('        let ct = &mut buffer[..ct_len + TAG_SIZE];', '        let ct = &mut buffer[..ct_len];')]),
    ('H+B2b3-hoisted-copy-dropped', 'B2-b3', DEC, 'the hoisted AAD copy is dropped', [('    auth_data[..aad_len].copy_from_slice(aad);\n', '')]),
    ('H+B2b3-last-flag', 'B2-b3', DEC, 'per-iteration flag tests `!= 1`', [('        let is_last_chunk = last_chunk_indicator == 1;', '        let is_last_chunk = last_chunk_indicator != 1;')]),
    ('H+B5b1-chunk-2', 'B5-b1', SCR, 'load loop reads 2-byte chunks', [('.zip(b[..4 * R].chunks_exact(4)) {', '.zip(b[..4 * R].chunks_exact(2)) {')]),
    ('H+B5b1-zip-short', 'B5-b1', SCR, 'block_xor zips with one word less', [('.zip(&src[..n]) {', '.zip(&src[..n - 1]) {')]),
    ('H+B5b1-store-range', 'B5-b1', SCR, 'store loop covers half of the words', [('.chunks_exact_mut(4).zip(&x[..R]) {', '.chunks_exact_mut(4).zip(&x[..R / 2]) {')]),
    ('H+B5b1-xor-assign', 'B5-b1', SCR, '`*d ^= s` -> `*d = *s`', [('        *d ^= s;', '        *d = *s;')]),
    ('H+B5b2-words', 'B5-b2', SCR, 'BLOCK_WORDS = BLOCK_BYTES / 8', [('const BLOCK_WORDS: usize = BLOCK_BYTES / 4;', 'const BLOCK_WORDS: usize = BLOCK_BYTES / 8;')]),
    ('H+B5b2-mask', 'B5-b2', SCR, 'hoisted mask is N', [('    let mask = (N - 1) as u64;', '    let mask = N as u64;')]),
    # round 2: the loop forms / constructs accepted for B5-b4 (unit-stride loops over pairs with rescaled offsets; the proofs
    # take counts and offsets as variables tied to their values by arithmetic side goals) and B5-b5 (`split_at_mut`,
    # `for lane in b.chunks_exact_mut(k)`); each of these must be caught BY A FAILING PROOF (see PROOF_ONLY)
    ('H+B5b4-rounds-3', 'B5-b4', SCR, 'three double rounds (Salsa20/6)', [('    for _ in 0..4 {', '    for _ in 0..3 {')]),
    ('H+B5b4-mix-read', 'B5-b4', SCR, 'block_mix reads the odd block of a pair 8 words early', [('&inn[i*32+16..]', '&inn[i*32+8..]')]),
    ('H+B5b4-mix-write', 'B5-b4', SCR, 'block_mix writes the odd half at r*8', [('&mut out[i*16+r*16..]', '&mut out[i*16+r*8..]')]),
    ('H+B5b4-mix-count', 'B5-b4', SCR, 'block_mix runs 2r pair iterations', [('    for i in 0..r {', '    for i in 0..2*r {')]),
    ('H+B5b4-fill-odd', 'B5-b4', SCR, 'second table entry of a pair stored at (2i+2)*R', [('&mut v[(2 * i + 1) * R..]', '&mut v[(2 * i + 2) * R..]')]),
    ('H+B5b4-fill-unscaled', 'B5-b4', SCR, 'first table entry of a pair stored at i*R (index not rescaled)', [('&mut v[2 * i * R..]', '&mut v[i * R..]')]),
    ('H+B5b4-fill-count', 'B5-b4', SCR, 'table filled by N/4 pair iterations', [('    for i in 0..N / 2 {', '    for i in 0..N / 4 {')]),
    ('H+B5b4-mixv-count', 'B5-b4', SCR, 'second smix loop runs N pair iterations', [('    for _ in 0..N / 2 {', '    for _ in 0..N {')]),
    ('H+B5b5-split-point', 'B5-b5', SCR, '`split_at_mut` at 16*r (x too short, y too long)', [('xy.split_at_mut(32 * r)', 'xy.split_at_mut(16 * r)')]),
    ('H+B5b5-buffer-short', 'B5-b5', SCR, 'the split buffer has 48*r words (y too short)', [('vec![0u32; 64 * r]', 'vec![0u32; 48 * r]')]),
    ('H+B5b5-chunk-size', 'B5-b5', SCR, 'lanes of 64*r bytes', [('b.chunks_exact_mut(128 * r)', 'b.chunks_exact_mut(64 * r)')]),
    ('H+B5b5-lane-args', 'B5-b5', SCR, 'smix called on a lane with r and n swapped', [('smix(lane, r, n, &mut v, x, y);', 'smix(lane, n, r, &mut v, x, y);')]),
    ('H+Gsplit-at-point', 'G-scr-split-at', SCR, '`split_at` one block early', [('inn.split_at((2*r-1)*16)', 'inn.split_at((2*r-2)*16)')]),
    ('H+Gsplit-at-half', 'G-scr-split-at', SCR, 'the wrong half of `split_at` is used', [('    block_copy(tmp, last, 16);\n', '    block_copy(tmp, _head, 16);\n')]),
    ('H+Gcommute-16', 'G-scr-commute', SCR, 'commuted block size is r * 16', [('    let R = r * 32;\n', '    let R = r * 16;\n')]),
    ('H+Gwrite-swapped', 'G-enc-write-helper', ENC, 'the extracted write helper writes the body before the header',
     [('    ciphertext.write_all(header).map_err(write_err)?;\n    ciphertext.write_all(body).map_err(write_err)?;\n',
       '    ciphertext.write_all(body).map_err(write_err)?;\n    ciphertext.write_all(header).map_err(write_err)?;\n')]),
    ('H+Gwrite-noflush', 'G-enc-write-helper', ENC, 'the extracted write helper does not flush',
     [('    ciphertext.write_all(body).map_err(write_err)?;\n    ciphertext.flush().map_err(write_err)?;\n    Ok(())', '    ciphertext.write_all(body).map_err(write_err)?;\n    Ok(())')]),
    ('H+Gprobe-ignored', 'G-dec-probe-helper', DEC, 'the extracted probe helper reports 0 whatever it read', [('    Ok(check)\n', '    Ok(0)\n')]),
    # ---- misuse of the constructs accepted for the second batch (each must be caught by a failing proof, not by a refusal)
    # `std::mem::swap`
    ('H+B1b4-swap-wrong-pair', 'B1-b4', ENC, 'the look-ahead buffer is exchanged with `auth_data` instead of `prev`',
     [('        std::mem::swap(&mut prev, &mut buff);\n', '        std::mem::swap(&mut auth_data, &mut buff);\n')]),
    ('H+B1b4-stale-read', 'B1-b4', ENC, 'the sealed slice is taken from the exchanged read buffer (stale bytes become observable)',
     [('&auth_data, &prev[..prev_read]);', '&auth_data, &buff[..prev_read]);')]),
    ('H+B1b4-swap-late', 'B1-b4', ENC, 'the buffers are exchanged before the chunk is sealed (the look-ahead chunk is sealed instead of the previous one)',
     [('        std::mem::swap(&mut prev, &mut buff);\n', ''),
      ('        let ct = chapoly_encrypt_noise(', '        std::mem::swap(&mut prev, &mut buff);\n        let ct = chapoly_encrypt_noise(')]),
    # deferred `let`, `match` on an `Option` with a block arm, merged `let`s, inlined argument
    ('H+B1b5-some-ignored', 'B1-b5', ENC, 'the `Some` arm ignores the supplied payload key and initialises the deferred binding itself',
     [('        Some(pk) => pk,\n', '        Some(_pk) => {\n            generated_payload_key = PayloadKey::new(secure_random(32).as_slice());\n'
       '            &generated_payload_key\n        }\n')]),
    ('H+B1b5-hkdf-args', 'B1-b5', ENC, 'merged `Zeroizing::new(hkdf_sha256(..))` with salt and key material exchanged',
     [('        &[],\n        payload_key.as_bytes(),\n        &noise_message.handshake_hash,\n        32,\n    ));',
       '        payload_key.as_bytes(),\n        &[],\n        &noise_message.handshake_hash,\n        32,\n    ));')]),
    ('H+B1b5-aad-prologue', 'B1-b5', ENC, 'the inlined AAD of pass_encrypt is the key-mode magic',
     [('        &PASS_FILE_MAGIC,\n        CHUNK_SIZE,', '        &PROLOGUE,\n        CHUNK_SIZE,')]),
    # per-iteration `done`, guard with early return, `split_at_mut`
    ('H+B1b6-guard-or', 'B1-b6', ENC, '`&&` -> `||` in the rewritten unexpected-data guard',
     [('if prev_read == 0 && num_read != 0 {', 'if prev_read == 0 || num_read != 0 {')]),
    ('H+B1b6-done-prev', 'B1-b6', ENC, 'per-iteration `done` computed from the previous read', [('let done = num_read == 0;', 'let done = prev_read == 0;')]),
    ('H+B1b6-split-3', 'B1-b6', ENC, '`split_at_mut(3)`: wrong split point of the AAD trailer', [('.split_at_mut(4);', '.split_at_mut(3);')]),
    ('H+B1b6-fields-swapped', 'B1-b6', ENC, 'the two halves of `split_at_mut` bound in the other order',
     [('let (indicator_field, length_field) =', 'let (length_field, indicator_field) =')]),
    ('H+B1b6-split-base', 'B1-b6', ENC, '`split_at_mut` applied to the whole of `auth_data` (the AAD prefix is overwritten)',
     [('auth_data[aad_len..].split_at_mut(4);', 'auth_data[..].split_at_mut(4);')]),
    # const-generic helper
    ('H+B2b4-header-12', 'B2-b4', DEC, 'chunk header read as `[u8; 12]` through the const-generic helper',
     [('let chunk_header: [u8; 16] = read_array(ciphertext)?;', 'let chunk_header: [u8; 12] = read_array(ciphertext)?;')]),
    ('H+B2b4-salt-16', 'B2-b4', DEC, 'salt read as `[u8; 16]` through the const-generic helper',
     [('let salt: [u8; 32] = read_array(ciphertext)?;', 'let salt: [u8; 16] = read_array(ciphertext)?;')]),
    ('H+B2b4-helper-read', 'B2-b4', DEC, 'the const-generic helper uses `read` instead of `read_exact`',
     [('    reader.read_exact(&mut bytes).map_err(read_err)?;\n    Ok(bytes)', '    reader.read(&mut bytes).map_err(read_err)?;\n    Ok(bytes)')]),
    ('H+B2b4-helper-errclass', 'B2-b4', DEC, 'the const-generic helper maps a read failure with write_err',
     [('    reader.read_exact(&mut bytes).map_err(read_err)?;\n    Ok(bytes)', '    reader.read_exact(&mut bytes).map_err(write_err)?;\n    Ok(bytes)')]),
    # `match` statement with block arms
    ('H+B2b5-arms-swapped', 'B2-b5', DEC, 'key_decrypt: the arms of the format `match` exchanged (PassV1 accepted, AsymV1 rejected)',
     [('        FileFormat::AsymV1 => {}\n        FileFormat::PassV1 => {\n', '        FileFormat::PassV1 => {}\n        FileFormat::AsymV1 => {\n')]),
    ('H+B2b5-pass-arms-swapped', 'B2-b5', DEC, 'pass_decrypt: the arms of the format `match` exchanged',
     [('        FileFormat::PassV1 => {}\n        FileFormat::AsymV1 => {\n', '        FileFormat::AsymV1 => {}\n        FileFormat::PassV1 => {\n')]),
    ('H+B2b5-ok-instead', 'B2-b5', DEC, 'pass_decrypt: the rejecting arm returns `Ok(())`',
     [('            return Err(DecryptError::Other(\n                "This is a key encrypted file. Try decrypt instread.".into(),\n            ));\n', '            return Ok(());\n')]),
    # `split_at`, one copy into the AAD, moved before the body read
    ('H+B2b6-split-7', 'B2-b6', DEC, '`chunk_header.split_at(7)`: wrong split point', [('chunk_header.split_at(8);', 'chunk_header.split_at(7);')]),
    ('H+B2b6-split-3', 'B2-b6', DEC, '`chunk_fields.split_at(3)`: wrong split point', [('chunk_fields.split_at(4);', 'chunk_fields.split_at(3);')]),
    ('H+B2b6-fields-swapped', 'B2-b6', DEC, 'indicator and length bound to the wrong halves',
     [('let (last_chunk_indicator_bytes, ciphertext_length_bytes) =', 'let (ciphertext_length_bytes, last_chunk_indicator_bytes) =')]),
    ('H+B2b6-counter-authenticated', 'B2-b6', DEC, 'the wrong half of the header (the unused counter) is authenticated and parsed',
     [('let (_chunk_counter, chunk_fields) = chunk_header.split_at(8);', 'let (chunk_fields, _chunk_counter) = chunk_header.split_at(8);')]),
    ('H+B2b6-copy-dropped', 'B2-b6', DEC, 'the single copy of the header fields into the AAD is dropped',
     [('        auth_data[aad_len..].copy_from_slice(chunk_fields);\n', '')]),
    ('H+B2b6-copy-counter', 'B2-b6', DEC, 'the chunk counter bytes are copied into the AAD instead of the header fields',
     [('        auth_data[aad_len..].copy_from_slice(chunk_fields);\n', '        auth_data[aad_len..].copy_from_slice(_chunk_counter);\n')]),
]

# rows whose expected outcome is not the default: name -> (expected outcome, why)
KNOWN = {
}

# breaking rows that must be caught by a failing proof (outcome `proof-fails`), not by a refusal of the translator: they misuse a
# construct the translators accept on purpose
PROOF_ONLY = {'H+B5b4-rounds-3', 'H+B5b4-mix-read', 'H+B5b4-mix-write', 'H+B5b4-mix-count', 'H+B5b4-fill-odd', 'H+B5b4-fill-unscaled',
              'H+B5b4-fill-count', 'H+B5b4-mixv-count', 'H+B5b5-split-point', 'H+B5b5-buffer-short', 'H+B5b5-chunk-size',
              'H+B5b5-lane-args', 'H+Gcommute-16', 'H+Gsplit-at-point', 'H+Gsplit-at-half'}

TRANSLATORS = [('stream', 'rs2lean_stream.py', 'GeneratedStream.lean'), ('scrypt', 'rs2lean_scrypt.py', 'GeneratedScrypt.lean')]


def proof_modules(lean_dir):
    split = os.path.exists(os.path.join(lean_dir, 'KestrelProps', 'StreamSrcEnc.lean'))
    stream = (['KestrelProps.StreamSrcEnc', 'KestrelProps.StreamSrcDec', 'KestrelProps.StreamSrc'] if split else ['KestrelProps.StreamSrc'])
    return {'stream': stream + ['KestrelProps.NoiseStreamSrc'], 'scrypt': ['KestrelProps.C18src']}


def short(mod):
    return mod.rsplit('.', 1)[1]


def run(cmd, cwd=None, env=None, timeout=3600):
    p = subprocess.run(cmd, cwd=cwd, env=env, stdout=subprocess.PIPE, stderr=subprocess.STDOUT, text=True, timeout=timeout)
    return p.returncode, p.stdout


def diff_files(patch_text):
    return re.findall(r'^\+\+\+ b/(\S+)', patch_text, re.M)


def cfg_test_start(text):
    i = text.find('#[cfg(test)]')
    return len(text) if i < 0 else i


def relevant(patch_text, repo):
    """does some hunk of the patch change a line of encrypt.rs / decrypt.rs / errors.rs / scrypt.rs that lies before
    `#[cfg(test)]` (the part the translators read)?"""
    cur, hit = None, False
    for line in patch_text.split('\n'):
        m = re.match(r'^\+\+\+ b/(\S+)', line)
        if m:
            cur = m.group(1); continue
        m = re.match(r'^@@ -(\d+)', line)
        if m and cur in BREAKING_FILES:
            with open(os.path.join(repo, cur), encoding='utf-8') as f:
                text = f.read()
            limit = text[:cfg_test_start(text)].count('\n') + 1
            if int(m.group(1)) <= limit: hit = True
    return hit


def first_error(out):
    for line in out.split('\n'):
        if line.startswith('error:') and 'build failed' not in line and 'Lean exited' not in line:
            return line.strip()[:160]
    for line in out.split('\n'):
        if 'error' in line.lower() and 'warning' not in line.lower():
            return line.strip()[:160]
    return out.strip().split('\n')[-1][:160] if out.strip() else ''


class Case:
    def __init__(self, name, kind, what, patch=None, edits=None, file=None, hand=False):
        self.name, self.kind, self.what, self.patch, self.edits, self.file, self.hand = name, kind, what, patch, edits, file, hand


def run_case(case, tmp, base_lean):
    """returns dict(outcome=..., detail=...)"""
    t0 = time.time()
    work = os.path.join(tmp, case.name)
    repo, lean = os.path.join(work, 'repo'), os.path.join(work, 'lean')
    os.makedirs(work)
    try:
        shutil.copytree(PRISTINE, repo)
        if case.patch is not None:
            with open(case.patch, encoding='utf-8') as f:
                ptext = f.read()
            if case.kind == 'breaking' and not case.hand and not relevant(ptext, repo):
                return dict(outcome='n/a', detail='no hunk in the translated part of ' + ', '.join(sorted(os.path.basename(x) for x in BREAKING_FILES)))
            rc, out = run(['patch', '-p1', '-s', '--no-backup-if-mismatch', '-i', case.patch], cwd=repo)
            if rc != 0:
                return dict(outcome='ERROR', detail='patch does not apply: ' + first_error(out))
        if case.edits is not None:
            path = os.path.join(repo, case.file)
            with open(path, encoding='utf-8') as f:
                text = f.read()
            for old, new in case.edits:
                rename = re.fullmatch(r'\w+', old) is not None            # a bare identifier: rename every whole-word occurrence
                n = len(re.findall(r'\b' + old + r'\b', text)) if rename else text.count(old)
                if (n < 1) if rename else (n != 1):
                    return dict(outcome='ERROR', detail=f'edit anchor occurs {n} times: {old[:50]!r}')
                text = re.sub(r'\b' + old + r'\b', new, text) if rename else text.replace(old, new)
            with open(path, 'w', encoding='utf-8') as f:
                f.write(text)
        # scratch lean project, with the build products of the unchanged tree
        subprocess.run(['cp', '-a', base_lean, lean], check=True)
        env = dict(os.environ, KESTREL_REPO=repo)
        changed, notes = [], []
        for key, script, gen in TRANSLATORS:
            out_file = os.path.join(lean, 'KestrelModel', gen)
            with open(out_file, encoding='utf-8') as f:
                before = f.read()
            rc, out = run([sys.executable, os.path.join(HERE, script), '--out', out_file], env=env)
            if rc == 3:
                msg = out.strip().split('\n')[-1]
                return dict(outcome='refused', detail=f'{script}: {msg[:150]}', secs=time.time() - t0)
            if rc != 0:
                return dict(outcome='ERROR', detail=f'{script} exit {rc}: {first_error(out)}')
            with open(out_file, encoding='utf-8') as f:
                after = f.read()
            if after != before: changed.append(key)
        if not changed:
            return dict(outcome='unchanged', detail='both generated files are byte-identical to the committed ones', secs=time.time() - t0)
        mods = proof_modules(lean)
        results = []
        for key in changed:
            gen_mod = 'KestrelModel.' + dict((k, g[:-5]) for k, _, g in TRANSLATORS)[key]
            rc, out = run(['lake', 'build', gen_mod], cwd=lean)
            if rc != 0:
                return dict(outcome='gen-fails', detail=f'{gen_mod} does not compile: {first_error(out)}', secs=time.time() - t0)
            for m in mods[key]:
                rc, out = run(['lake', 'build', m], cwd=lean)
                results.append((m, rc == 0, '' if rc == 0 else first_error(out)))
        failed = [(m, e) for m, ok, e in results if not ok]
        summary = ' '.join(f'{short(m)}:{"ok" if ok else "FAIL"}' for m, ok, _ in results)
        if failed:
            return dict(outcome='proof-fails', detail=summary + ' | ' + failed[0][1], secs=time.time() - t0)
        if case.kind == 'harmless':
            rc, out = run(['lake', 'build', 'Main'], cwd=lean)
            if rc != 0:
                return dict(outcome='main-fails', detail=summary + ' | Main.lean: ' + first_error(out), secs=time.time() - t0)
            summary += ' Main:ok'
        return dict(outcome='builds', detail=f'regenerated: {"+".join(changed)}; {summary}', secs=time.time() - t0)
    finally:
        shutil.rmtree(work, ignore_errors=True)


def verdict(kind, outcome):
    if kind == 'harmless':
        return 'pass' if outcome in ('builds', 'unchanged') else 'FALSE-ALARM'
    if outcome == 'n/a': return 'n/a'
    return 'caught' if outcome in ('refused', 'proof-fails') else ('caught(gen)' if outcome == 'gen-fails' else 'MISSED')


def main():
    cases = [Case(n, 'harmless', '', patch=os.path.join(SEEDED, n, 'patch.diff')) for n in HARMLESS]
    for d in sorted(os.listdir(SEEDED)):
        p = os.path.join(SEEDED, d, 'patch.diff')
        if re.match(r'C\d\d-m\d+$', d) and os.path.exists(p):
            with open(p, encoding='utf-8') as f:
                if set(diff_files(f.read())) & BREAKING_FILES:
                    cases.append(Case(d, 'breaking', '', patch=p))
    for name, file, what, edits in HARMLESS_HAND:
        cases.append(Case(name, 'harmless', what, edits=edits, file=file, hand=True))
    for name, file, what, edits in HAND:
        cases.append(Case(name, 'breaking', what, edits=edits, file=file, hand=True))
    for name, base, file, what, edits in HAND_ON:
        if base.startswith('G-'):                                  # on top of a hand-made harmless edit (of the same file)
            pre = [e for n, f, w, e in HARMLESS_HAND if n == base][0]
            cases.append(Case(name, 'breaking', what + f' (on top of {base})', edits=pre + edits, file=file, hand=True))
        else:
            cases.append(Case(name, 'breaking', what + f' (on top of {base})', patch=os.path.join(SEEDED, base, 'patch.diff'),
                              edits=edits, file=file, hand=True))

    only = os.environ.get('SELFTEST_ONLY')          # development aid: a regular expression on the row names
    if only: cases = [c for c in cases if re.search(only, c.name)]
    tmp = tempfile.mkdtemp(prefix='.selftest_', dir=ROOT)
    bad = 0
    try:
        base_lean = os.path.join(tmp, 'base_lean')
        subprocess.run(['cp', '-a', os.path.join(ROOT, 'lean'), base_lean], check=True)
        # the unchanged tree must be built (so that a failure below is due to the patch)
        mods = proof_modules(base_lean)
        rc, out = run(['lake', 'build'] + mods['stream'] + mods['scrypt'] + ['Main'], cwd=base_lean)
        if rc != 0:
            print('selftest: the UNCHANGED tree does not build:\n' + out[-3000:]); return 2
        workers = max(1, min(8, (os.cpu_count() or 2) // 2))
        with ThreadPoolExecutor(max_workers=workers) as ex:
            futs = [(c, ex.submit(run_case, c, tmp, base_lean)) for c in cases]
            print(f'{"patch":28} {"kind":9} {"outcome":12} {"verdict":12} {"expected":12} detail')
            for c, fut in futs:
                try:
                    r = fut.result()
                except Exception as ex_:                                    # noqa
                    r = dict(outcome='ERROR', detail=repr(ex_)[:200])
                v = verdict(c.kind, r['outcome']) if r['outcome'] != 'ERROR' else 'ERROR'
                exp = KNOWN.get(c.name, (('pass' if c.kind == 'harmless' else 'caught'),))[0]
                ok = v == exp or (exp == 'caught' and v in ('n/a',)) or (exp == 'caught' and v == 'caught(gen)' and False)
                if c.name in PROOF_ONLY and r['outcome'] != 'proof-fails': ok = False
                if not ok: bad += 1
                what = f' [{c.what}]' if c.what else ''
                secs = f' ({r["secs"]:.0f}s)' if 'secs' in r else ''
                print(f'{c.name:28} {c.kind:9} {r["outcome"]:12} {v:12} {exp:12} {"" if ok else "<<< UNEXPECTED  "}{r["detail"]}{what}{secs}', flush=True)
        for name, (exp, why) in KNOWN.items():
            print(f'note: {name} is expected to be `{exp}`: {why}')
        print(f'selftest_stream_scrypt: {len(cases)} rows, {bad} unexpected')
        return 0 if bad == 0 else 1
    finally:
        shutil.rmtree(tmp, ignore_errors=True)


if __name__ == '__main__':
    sys.exit(main())
