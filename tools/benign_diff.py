#!/usr/bin/env python3
"""for each tree under /var/tmp/btrees, run the translator (imported as a module) and report what differs from `base`"""
import importlib, json, os, sys
sys.path.insert(0, os.path.dirname(os.path.abspath(__file__)))
def run(tree):
    os.environ["KESTREL_REPO"] = tree
    import gen_model_inputs as g
    importlib.reload(g)
    g.degraded.clear()
    v = g.extract()
    return v, list(g.degraded)
base, bd = run("/var/tmp/btrees/base")
print("base degraded:", bd)
tot = 0
for t in sorted(os.listdir("/var/tmp/btrees")):
    if t == "base": continue
    v, d = run("/var/tmp/btrees/" + t)
    diffs = []
    for k in v:
        if k in ("panicSites", "flows"): continue
        if v[k] != base[k]: diffs.append(f"const {k}: {base[k]} -> {v[k]}")
    bf, vf = dict(base["flows"]), dict(v["flows"])
    for k in bf:
        if bf[k] != vf.get(k): diffs.append(f"flow {k}:\n      was {bf[k]}\n      now {vf.get(k)}")
    key = lambda s: (s["file"], s["fn"], s["kind"], s["text"])
    bs, vs = set(map(key, base["panicSites"])), set(map(key, v["panicSites"]))
    for s in sorted(vs - bs): diffs.append(f"NEW site {s}")
    for s in sorted(bs - vs): diffs.append(f"gone site {s}")
    print(f"== {t}: degraded={d} diffs={len(diffs)}")
    for x in diffs: print("   ", x)
    tot += bool(diffs or d)
print("trees with any difference:", tot)
