#!/usr/bin/env python3
"""Model validation independent of the Rust code: the Lean primitives (through kmodel) against OpenSSL (hashlib)
on seeded random inputs — SHA-256, HMAC-SHA-256, PBKDF2-HMAC-SHA-256, scrypt.   usage: xcheck_openssl.py [quick|thorough]"""
import hashlib, hmac, os, random, subprocess, sys
KM = os.environ.get("KMODEL", "/verif/lean/.lake/build/bin/kmodel")
tier = sys.argv[1] if len(sys.argv) > 1 else "quick"
rnd = random.Random(int(os.environ.get("VERIF_SEED", "1")))
hx = lambda b: b.hex() if b else "-"
rb = lambda n: bytes(rnd.randrange(256) for _ in range(n))
reqs, want = [], []
n = 400 if tier == "thorough" else 60
for _ in range(n):
    m = rb(rnd.choice([0, 1, 55, 56, 63, 64, 65, 119, 120, 200, rnd.randrange(1000)]))
    reqs.append(f"sha256 {hx(m)}"); want.append("ok " + hashlib.sha256(m).hexdigest())
    k = rb(rnd.choice([0, 1, 32, 63, 64, 65, 130]))
    reqs.append(f"hmac {hx(k)} {hx(m)}"); want.append("ok " + hmac.new(k, m, hashlib.sha256).hexdigest())
for _ in range(n // 3):
    p, s = rb(rnd.randrange(80)), rb(rnd.randrange(80)); c = rnd.randrange(1, 4); dk = rnd.randrange(1, 100)
    reqs.append(f"pbkdf2 {hx(p)} {hx(s)} {c} {dk}"); want.append("ok " + hashlib.pbkdf2_hmac("sha256", p, s, c, dk).hex())
for _ in range(n // 3):
    p, s = rb(rnd.randrange(70)), rb(rnd.randrange(70)); N = 1 << rnd.randrange(1, 11 if tier == "thorough" else 9); r = rnd.randrange(1, 9); pp = rnd.randrange(1, 4); dk = rnd.randrange(1, 100)
    reqs.append(f"scrypt {hx(p)} {hx(s)} {N} {r} {pp} {dk}"); want.append("ok " + hashlib.scrypt(p, salt=s, n=N, r=r, p=pp, dklen=dk, maxmem=128 << 20).hex())
out = subprocess.run([KM], input=("\n".join(reqs) + "\n").encode(), stdout=subprocess.PIPE).stdout.decode().splitlines()
bad = [(q, w, g) for q, w, g in zip(reqs, want, out) if w != g]
if len(out) != len(reqs) or bad:
    print(f"xcheck_openssl: {len(bad)} disagreements of {len(reqs)} (got {len(out)} answers)")
    for q, w, g in bad[:5]: print("  ", q[:120], "\n     openssl:", w[:80], "\n     lean:   ", g[:80])
    sys.exit(1)
print(f"xcheck_openssl: Lean primitives agree with OpenSSL on {len(reqs)} seeded inputs (sha256, hmac, pbkdf2, scrypt)")
