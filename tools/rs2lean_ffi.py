#!/usr/bin/env python3
"""
rs2lean_ffi.py -- translate src/ffi/src/lib.rs (the exported C-ABI functions; today one: `scrypt`) into Lean 4 definitions over
an explicit flat memory, and record the parameter lists of lib.rs and of the C header src/ffi/kestrel-crypto.h as data.

  input : $KESTREL_REPO/src/ffi/src/lib.rs and $KESTREL_REPO/src/ffi/kestrel-crypto.h   (KESTREL_REPO defaults to /repo; --repo DIR)
  output: <this dir>/../lean/KestrelModel/GeneratedFfi.lean                              (--out FILE; written only when changed)
  exit  : 0 ok; 2 = usage / unreadable input; 3 = a construct outside the supported subset (message names the line; the previous
          output stays in place)

Built on tools/rs2lean_scrypt.py (tokenizer, Pratt parser for blocks and expressions).  This file adds the items (`use` with
groups and aliases, attributes, `pub unsafe extern "C" fn`), raw-pointer types, and a translation of the body that knows only:

  memory                      `mem : List UInt8`, first parameter of every translated function; the function returns the new memory
  *const T / *mut T (T = u8)  `Nat`, an offset into `mem`; may only be handed, as a plain variable, to from_raw_parts(_mut)
  c_uint, size_t, u32, usize  `Nat`
  std::slice::from_raw_parts(p, n)      the bytes `(mem.drop p).take n`                  (side condition `p + n ≤ mem.length`)
  std::slice::from_raw_parts_mut(p, n)  `RsMem.Region` `{ off := p, len := n }`, p a `*mut`   (side condition `p + n ≤ mem.length`)
  x.len()                     `x.len` of a region, `x.length` of bytes
  kestrel_crypto::scrypt(pw, salt, n, r, p, len)   `RsMem.kc_scrypt pw salt n r p len` (RFC 7914; lean/KestrelModel/RsMem.lean).
                              The callee is found by resolving the path through the `use` declarations (an alias, a group, or
                              the full path); the text of the local name plays no role
  region.copy_from_slice(v)   `mem := RsMem.copyFromSlice mem region v`                  (side condition `v.length = region.len`:
                              a panic in Rust, "memory unchanged" in Lean).  At most one write, and it must be the last statement:
                              the byte views are `let`-bound before it, so no view is ever read after memory changed
  &e, e.as_slice(), e[..], (e)   the identity on bytes;  `let x = e;` for any of the above;  integer literals
  <fn>_pre                    the conjunction of the side conditions, over the same `let`s as the function
  helper(a, b, …)             a call of a PRIVATE function of lib.rs (`[unsafe] fn h[<'a, …>](x: T, …) -> R { e }`: not `pub`, not
                              `extern`, no attribute other than #[inline] / #[allow] / #[must_use] / #[doc] -- so it adds nothing to
                              the exported symbols; T a pointer, an integer type or `&[u8]`; R `&[u8]`, `&mut [u8]` or an integer
                              type; the body one expression of this table) is replaced by `e` with the parameters replaced, BY
                              POSITION, by the arguments (all expressions of this table are free of effects; an argument that is
                              not a variable or a literal must be used exactly once).  The helper is found by resolving the called
                              path to the item, its name plays no role; the arguments are checked against the declared parameter
                              types and the body against the declared return type, as rustc would; no recursion

Everything else (a loop, `if`, arithmetic or a cast on a pointer or a length, a sub-range, a second write, a statement after the
write, a write through a `from_raw_parts` slice, `from_raw_parts_mut` of a `*const`, a call of any other function, a return
value of an exported function, an exported or `pub` or generic (other than lifetimes) helper, `let x: T`) is refused with exit 3.  The header is read with a small C-prototype reader (comments and `#` lines dropped;
`type name` parameters of the four types below); every exported Rust function must have exactly one prototype and vice versa.

  *const c_uchar <-> const unsigned char*      *mut c_uchar <-> unsigned char*      size_t <-> size_t      c_uint <-> unsigned int
"""
import sys, os, re, hashlib

sys.path.insert(0, os.path.dirname(os.path.abspath(__file__)))
import rs2lean_scrypt as B
from rs2lean_scrypt import Unsupported, Node, lname

# ------------------------------------------------------------------------------------------------ tables

# fully resolved Rust type paths -> (RsMem.CType constructor when passed by value, Rust integer type)
UCHAR = {('libc', 'c_uchar'), ('std', 'os', 'raw', 'c_uchar'), ('std', 'ffi', 'c_uchar'), ('core', 'ffi', 'c_uchar'), ('u8',)}
INT_TYPES = {
    ('libc', 'c_uint'): ('uint', 'u32'), ('std', 'os', 'raw', 'c_uint'): ('uint', 'u32'), ('std', 'ffi', 'c_uint'): ('uint', 'u32'),
    ('core', 'ffi', 'c_uint'): ('uint', 'u32'), ('u32',): ('uint', 'u32'),
    ('libc', 'size_t'): ('sizeT', 'usize'), ('usize',): ('sizeT', 'usize'),
}
# fully resolved function paths (`core` is read as `std`)
FROM_RAW_PARTS = ('std', 'slice', 'from_raw_parts')
FROM_RAW_PARTS_MUT = ('std', 'slice', 'from_raw_parts_mut')
# external functions: resolved path -> (Lean name, kinds of the arguments, kind of the result)
EXTERN = {('kestrel_crypto', 'scrypt'): ('RsMem.kc_scrypt', ['bytes', 'bytes', 'u32', 'u32', 'u32', 'usize'], 'bytes')}
# C parameter types (token tuples, `const` placement normalised by c_type) -> RsMem.CType constructor
C_TYPES = {
    ('const', 'unsigned', 'char', '*'): 'constUCharPtr', ('const', 'uint8_t', '*'): 'constUCharPtr',
    ('unsigned', 'char', '*'): 'ucharPtr', ('uint8_t', '*'): 'ucharPtr',
    ('size_t',): 'sizeT',
    ('unsigned', 'int'): 'uint', ('unsigned',): 'uint', ('uint32_t',): 'uint',
}
C_SHOW = {'constUCharPtr': 'const unsigned char*', 'ucharPtr': 'unsigned char*', 'sizeT': 'size_t', 'uint': 'unsigned int'}
RESERVED = {'mem'}


# ------------------------------------------------------------------------------------------------ Rust items

class FParser(B.Parser):
    """items of lib.rs; blocks and expressions are those of rs2lean_scrypt.Parser"""

    def attribute(self):
        """`#[…]`: the identifiers inside"""
        self.expect('#'); self.accept('!'); self.expect('[')
        depth, words = 1, []
        while depth:
            tok = self.next()
            if tok.kind == 'eof': raise Unsupported('unterminated attribute', tok.line)
            if tok.text in ('[', '(', '{'): depth += 1
            elif tok.text in (']', ')', '}'): depth -= 1
            elif tok.kind == 'id': words.append(tok.text)
        return words

    def use_tree(self, prefix, uses, line):
        if self.at('*'): raise Unsupported('glob `use`', line)
        if self.accept('{'):
            while not self.accept('}'):
                self.use_tree(prefix, uses, line)
                if not self.at('}'): self.expect(',')
            return
        path = prefix + [self.ident().text]
        while self.accept('::'):
            if self.at('{') or self.at('*'):
                self.use_tree(path, uses, line); return
            path.append(self.ident().text)
        alias = self.ident().text if self.accept('as') else path[-1]
        if alias in uses and uses[alias] != path: raise Unsupported(f'two `use` declarations of `{alias}`', line)
        uses[alias] = path

    HELPER_ATTRS = {'inline', 'allow', 'must_use', 'doc'}

    def parse_file(self):
        uses, fns, attrs = {}, [], []
        self.helpers = []           # private, non-exported functions (inlined at their call sites)
        heads = []                  # first word of each pending attribute
        while self.peek().kind != 'eof':
            tok = self.peek()
            if self.at('#'):
                words = self.attribute(); attrs += words; heads.append(words[0] if words else ''); continue
            if self.at('use'):
                self.next(); self.use_tree([], uses, tok.line); self.expect(';'); attrs = []; heads = []; continue
            if self.at('fn') or (self.at('unsafe') and self.at('fn', 1)):
                # a private function: it must not add to (or rename in) the exported symbols
                for h in heads:
                    if h not in self.HELPER_ATTRS:
                        raise Unsupported(f'attribute `#[{h}…]` on a private function (only {", ".join("#[" + a + "]" for a in sorted(self.HELPER_ATTRS))}; '
                                          f'an exported function must be `#[no_mangle] pub unsafe extern "C" fn`)', tok.line)
                self.accept('unsafe')
                self.helpers.append(self.parse_helper_fn()); attrs = []; heads = []; continue
            if self.at('pub') and self.at('unsafe', 1) and self.at('extern', 2):
                self.next(); self.next(); self.next()
                abi = self.next()
                if abi.kind != 'str' or abi.text != '"C"': raise Unsupported(f'`extern {abi.text}` (only extern "C")', abi.line)
                fn = self.parse_fn()
                if 'no_mangle' not in attrs:
                    raise Unsupported(f'`{fn.name}` is `extern "C"` but has no `#[no_mangle]` (not exported under its name)', fn.line)
                fns.append(fn); attrs = []; heads = []; continue
            raise Unsupported(f'item starting with `{tok.text}` (only `use`, `#[no_mangle] pub unsafe extern "C" fn` and private '
                              f'`[unsafe] fn` items are supported)', tok.line)
        return uses, fns

    def parse_type(self):
        tok = self.peek()
        if self.accept('*'):
            if self.accept('const'): mut = False
            elif self.accept('mut'): mut = True
            else: raise Unsupported('raw pointer type without `const` / `mut`', tok.line)
            inner = self.parse_type()
            if inner[0] != 'path': raise Unsupported('pointer to a pointer', tok.line)
            return ('ptr', mut, inner[1], tok.line)
        if tok.kind != 'id': raise Unsupported(f'type starting with `{tok.text}`', tok.line)
        path = [self.ident().text]
        while self.accept('::'):
            path.append(self.ident().text)
        if self.at('<'): raise Unsupported('generic type', tok.line)
        return ('path', path, tok.line)

    def parse_helper_type(self):
        """a parameter / return type of a private function: as parse_type, and `&['a] [mut] [T]`"""
        tok = self.peek()
        if not self.accept('&'): return self.parse_type()
        if self.peek().kind == 'lifetime': self.next()
        mut = bool(self.accept('mut'))
        if not self.accept('['): raise Unsupported('reference type other than `&[T]` / `&mut [T]`', tok.line)
        inner = self.parse_type()
        if inner[0] != 'path': raise Unsupported('slice of pointers', tok.line)
        self.expect(']')
        return ('slice', mut, inner[1], tok.line)

    def parse_helper_fn(self):
        """`fn name[<'a, …>](x: T, …) -> R { … }` (the `unsafe` is already consumed)"""
        line = self.expect('fn').line
        name = self.ident().text
        self.fn = name
        if self.accept('<'):
            while not self.accept('>'):
                tok = self.next()
                if tok.kind != 'lifetime': raise Unsupported('generic parameters other than lifetimes', tok.line)
                if self.at(':'): raise Unsupported('lifetime bound', tok.line)
                if not self.at('>'): self.expect(',')
        self.expect('(')
        params = []
        while not self.accept(')'):
            if self.accept('mut'): raise Unsupported('`mut` parameter binding', line)
            pn = self.ident()
            self.expect(':')
            params.append((pn.text, self.parse_helper_type(), pn.line))
            if not self.at(')'): self.expect(',')
        if not self.accept('->'): raise Unsupported('a private function without a return value', line)
        ret = self.parse_helper_type()
        if self.at('where'): raise Unsupported('`where` clause', line)
        body = self.parse_block()
        self.fn = None
        return Node('fn', line, name=name, params=params, ret=ret, body=body)

    def parse_fn(self):
        line = self.expect('fn').line
        name = self.ident().text
        self.fn = name
        if self.at('<'): raise Unsupported('generic parameters', line)
        self.expect('(')
        params = []
        while not self.accept(')'):
            if self.accept('mut'): raise Unsupported('`mut` parameter binding', line)
            pn = self.ident()
            self.expect(':')
            params.append((pn.text, self.parse_type(), pn.line))
            if not self.at(')'): self.expect(',')
        if self.at('->'): raise Unsupported('a return value (the exported functions return nothing)', self.peek().line)
        if self.at('where'): raise Unsupported('`where` clause', line)
        body = self.parse_block()
        self.fn = None
        return Node('fn', line, name=name, params=params, body=body)


def full_path(path, uses):
    """resolve the first segment through the `use` declarations; `core::` is `std::`"""
    p = list(uses[path[0]]) + list(path[1:]) if path[0] in uses else list(path)
    if p and p[0] == 'core': p[0] = 'std'
    return tuple(p)


def rust_type_text(t):
    if t[0] == 'ptr': return ('*mut ' if t[1] else '*const ') + '::'.join(t[2])
    if t[0] == 'slice': return ('&mut [' if t[1] else '&[') + '::'.join(t[2]) + ']'
    return '::'.join(t[1])


# ------------------------------------------------------------------------------------------------ private helper functions

def subst(e, mapping):
    """a copy of the expression `e` with every one-segment path named in `mapping` replaced by the mapped expression (the callee
    of a call is a path in the function namespace and is left alone)"""
    if e.kind == 'path':
        return mapping[e.path[0]] if len(e.path) == 1 and e.path[0] in mapping else e
    new = Node(e.kind, e.line)
    for k, v in vars(e).items():
        if k in ('kind', 'line'): continue
        if isinstance(v, Node): v = v if (e.kind == 'call' and k == 'f' and v.kind == 'path') else subst(v, mapping)
        elif isinstance(v, list): v = [subst(x, mapping) if isinstance(x, Node) else x for x in v]
        setattr(new, k, v)
    return new


def occurrences(e, name):
    if e.kind == 'path': return int(e.path == [name])
    n = 0
    for k, v in vars(e).items():
        if isinstance(v, Node) and not (e.kind == 'call' and k == 'f' and v.kind == 'path'): n += occurrences(v, name)
        elif isinstance(v, list): n += sum(occurrences(x, name) for x in v if isinstance(x, Node))
    return n


def show(e):
    """Rust text of an expression, for the comments of the generated file"""
    if e.kind == 'paren': return f'({show(e.e)})'
    if e.kind == 'lit': return str(e.val) + (e.suffix or '')
    if e.kind == 'path': return '::'.join(e.path)
    if e.kind == 'ref': return ('&mut ' if e.mut else '&') + show(e.e)
    if e.kind == 'call': return f'{show(e.f)}({", ".join(show(a) for a in e.args)})'
    if e.kind == 'mcall': return f'{show(e.recv)}.{e.name}({", ".join(show(a) for a in e.args)})'
    if e.kind == 'index' and e.ix.kind == 'range' and e.ix.lo is None and e.ix.hi is None: return f'{show(e.e)}[..]'
    return '…'


class Helpers:
    """the private functions of lib.rs; each is checked on its own (parameters as the only variables, the body against the
    declared return type) the first time it is needed, nested helper calls already replaced"""

    def __init__(self, fns, uses, src_lines):
        self.uses, self.src = uses, src_lines
        self.fns, self.done, self.active = {}, {}, []
        for fn in fns:
            if fn.name in self.fns: raise Unsupported(f'two functions named `{fn.name}`', fn.line)
            if fn.name in uses: raise Unsupported(f'`{fn.name}` is both a function of this file and a `use` declaration', fn.line)
            self.fns[fn.name] = fn

    def get(self, name, line):
        if name in self.done: return self.done[name]
        if name in self.active: raise Unsupported(f'recursive private function `{name}`', line)
        self.active.append(name)
        try:
            rec = FnTranslator(self.fns[name], self.uses, self.src, self).check_helper()
        except Unsupported as u:
            if not getattr(u, 'fn', None): u.fn = name
            raise
        self.active.pop()
        self.done[name] = rec
        return rec


# ------------------------------------------------------------------------------------------------ body

class FnTranslator:
    def __init__(self, fn, uses, src_lines, helpers=None):
        self.fn, self.uses, self.src = fn, uses, src_lines
        self.helpers = helpers
        self.env = {}          # Rust name -> ('ptr', mut) | ('int', rust int type) | ('bytes',) | ('region',)
        self.out, self.pre_out, self.conds = [], [], []
        self.written = None    # line of the write
        self.params = []       # (name, CType constructor, Rust type text)

    def bad(self, what, line):
        raise Unsupported(what, line)

    # ---- parameters
    def param(self, name, ty, line):
        if name in RESERVED: self.bad(f'a parameter named `{name}` (the name of the memory in the generated code)', line)
        if name in self.env: self.bad(f'two parameters named `{name}`', line)
        if ty[0] == 'ptr':
            if full_path(ty[2], self.uses) not in UCHAR: self.bad(f'pointer type `{rust_type_text(ty)}` (only pointers to c_uchar / u8)', line)
            self.env[name] = ('ptr', ty[1])
            ct = 'ucharPtr' if ty[1] else 'constUCharPtr'
        elif ty[0] == 'slice':                                 # private functions only (FParser.parse_helper_type)
            if ty[1] or full_path(ty[2], self.uses) not in UCHAR: self.bad(f'parameter type `{rust_type_text(ty)}` (of slices only `&[u8]`)', line)
            self.env[name] = ('bytes',)
            ct = None
        else:
            fp = full_path(ty[1], self.uses)
            if fp not in INT_TYPES: self.bad(f'parameter type `{rust_type_text(ty)}` (resolved: {"::".join(fp)})', line)
            ct, rty = INT_TYPES[fp]
            self.env[name] = ('int', rty)
        self.params.append((name, ct, rust_type_text(ty)))

    # ---- expressions
    def callee(self, e):
        if e.f.kind != 'path': self.bad('call of something that is not a path', e.line)
        if len(e.f.path) == 1 and e.f.path[0] in self.env: self.bad(f'call of the local `{e.f.path[0]}`', e.line)
        return full_path(e.f.path, self.uses)

    def kind_of(self, e):
        """'int' | 'bytes' | 'region' | 'ptr' of an expression (without translating it)"""
        if e.kind == 'paren': return self.kind_of(e.e)
        if e.kind == 'lit': return 'int'
        if e.kind == 'path':
            if len(e.path) == 1 and e.path[0] in self.env: return self.env[e.path[0]][0]
            self.bad(f'`{"::".join(e.path)}` is not a parameter or a local', e.line)
        if e.kind == 'ref': return 'bytes'
        if e.kind == 'index': return 'bytes'
        if e.kind == 'mcall': return 'int' if e.name == 'len' else 'bytes'
        if e.kind == 'call':
            fp = self.callee(e)
            if fp == FROM_RAW_PARTS: return 'bytes'
            if fp == FROM_RAW_PARTS_MUT: return 'region'
            if fp in EXTERN: return EXTERN[fp][2]
            self.bad(f'call of `{"::".join(fp)}` (only std::slice::from_raw_parts, from_raw_parts_mut and '
                     f'{", ".join("::".join(k) for k in EXTERN)} are supported)', e.line)
        if e.kind == 'bin': self.bad(f'arithmetic (`{e.op}`)', e.line)
        if e.kind == 'cast': self.bad('a cast (`as`)', e.line)
        if e.kind == 'unary': self.bad(f'unary `{e.op}`', e.line)
        self.bad(f'expression of kind `{e.kind}`', e.line)

    def int_expr(self, e, want=None):
        """(Lean text, Rust integer type or None for a literal)"""
        if e.kind == 'paren': return self.int_expr(e.e, want)
        if e.kind == 'lit':
            if e.suffix and want and e.suffix != want: self.bad(f'literal of type {e.suffix} where {want} is expected', e.line)
            return str(e.val), None
        if e.kind == 'path' and len(e.path) == 1 and e.path[0] in self.env:
            v = self.env[e.path[0]]
            if v[0] == 'ptr': self.bad(f'the pointer `{e.path[0]}` used as a number', e.line)
            if v[0] != 'int': self.bad(f'`{e.path[0]}` is not a number', e.line)
            if want and v[1] != want: self.bad(f'`{e.path[0]}` has type {v[1]} where {want} is expected (Rust would need a cast)', e.line)
            return lname(e.path[0]), v[1]
        if e.kind == 'mcall' and e.name == 'len' and not e.args:
            if want and want != 'usize': self.bad(f'`.len()` (usize) where {want} is expected', e.line)
            k = self.kind_of(e.recv)
            if k == 'region':
                if e.recv.kind != 'path': self.bad('`.len()` of a region expression', e.line)
                return f'{lname(e.recv.path[0])}.len', 'usize'
            if k == 'bytes': return f'{self.paren(self.bytes_expr(e.recv))}.length', 'usize'
            self.bad('`.len()` of something that is not a slice', e.line)
        self.kind_of(e)                                        # names arithmetic, casts, …
        self.bad('this expression where a number is expected', e.line)

    @staticmethod
    def paren(t):
        return t if re.fullmatch(r"[\w.'«»]+", t) else f'({t})'

    def ptr_arg(self, e, need_mut, what):
        if e.kind != 'path' or len(e.path) != 1 or self.env.get(e.path[0], ('',))[0] != 'ptr':
            self.kind_of(e)
            self.bad(f'the pointer argument of {what} must be a pointer parameter, as it stands', e.line)
        if need_mut and not self.env[e.path[0]][1]:
            self.bad(f'{what} of the `*const` pointer `{e.path[0]}`', e.line)
        return lname(e.path[0])

    def bytes_expr(self, e):
        if e.kind == 'paren': return self.bytes_expr(e.e)
        if e.kind == 'path' and len(e.path) == 1 and e.path[0] in self.env:
            k = self.env[e.path[0]][0]
            if k == 'bytes': return lname(e.path[0])
            if k == 'region':
                n = lname(e.path[0])
                return f'(mem.drop {n}.off).take {n}.len'
            self.bad(f'`{e.path[0]}` is not a slice', e.line)
        if e.kind == 'ref':
            if e.mut: self.bad('`&mut` of a slice', e.line)
            return self.bytes_expr(e.e)
        if e.kind == 'mcall' and e.name == 'as_slice' and not e.args:
            return self.bytes_expr(e.recv)
        if e.kind == 'index':
            if e.ix.kind == 'range' and e.ix.lo is None and e.ix.hi is None: return self.bytes_expr(e.e)
            self.bad('a sub-range or an element of a slice', e.line)
        if e.kind == 'mcall':
            self.bad(f'method `.{e.name}()`', e.line)
        if e.kind == 'call':
            fp = self.callee(e)
            if fp == FROM_RAW_PARTS:
                if len(e.args) != 2: self.bad('from_raw_parts takes two arguments', e.line)
                p = self.ptr_arg(e.args[0], False, 'from_raw_parts')
                n, _ = self.int_expr(e.args[1], 'usize')
                self.cond(f'{p} + {n} ≤ mem.length', e.line, f'from_raw_parts: [{p}, {p} + {n}) lies inside memory')
                return f'(mem.drop {p}).take {self.paren(n)}'
            if fp in EXTERN and EXTERN[fp][2] == 'bytes':
                lean, kinds, _ = EXTERN[fp]
                if len(e.args) != len(kinds): self.bad(f'`{"::".join(fp)}` takes {len(kinds)} arguments', e.line)
                args = []
                for a, k in zip(e.args, kinds):
                    args.append(self.paren(self.bytes_expr(a) if k == 'bytes' else self.int_expr(a, k)[0]))
                return f'{lean} ' + ' '.join(args)
        self.kind_of(e)
        self.bad('this expression where a byte slice is expected', e.line)

    def region_parts(self, e, line):
        """(offset, length) of an expression of kind 'region': a call of from_raw_parts_mut"""
        while e.kind == 'paren': e = e.e
        if e.kind != 'call': self.bad('a second name for a writable region', line)
        if len(e.args) != 2: self.bad('from_raw_parts_mut takes two arguments', e.line)
        p = self.ptr_arg(e.args[0], True, 'from_raw_parts_mut')
        n, _ = self.int_expr(e.args[1], 'usize')
        self.cond(f'{p} + {n} ≤ mem.length', e.line, f'from_raw_parts_mut: [{p}, {p} + {n}) lies inside memory')
        return p, n

    # ---- private helper functions: calls are replaced by the body
    def helper_name(self, path):
        """the private function of this file a called path names, or None"""
        if self.helpers is None: return None
        if len(path) == 2 and path[0] in ('self', 'crate'): path = path[1:]
        if len(path) == 1 and path[0] in self.helpers.fns and path[0] not in self.env: return path[0]
        return None

    def norm(self, e):
        """the expression with every call of a private function replaced by the body of the function, the parameters replaced
        by the arguments of the call (innermost calls first); `e` itself when it contains no such call"""
        changed = {}
        for k, v in vars(e).items():
            if isinstance(v, Node):
                nv = self.norm(v)
                if nv is not v: changed[k] = nv
            elif isinstance(v, list) and any(isinstance(x, Node) for x in v):
                nl = [self.norm(x) if isinstance(x, Node) else x for x in v]
                if any(a is not b for a, b in zip(nl, v)): changed[k] = nl
        if changed:
            new = Node(e.kind, e.line)
            new.__dict__.update(vars(e)); new.__dict__.update(changed)
            e = new
        if e.kind == 'call' and e.f.kind == 'path':
            name = self.helper_name(e.f.path)
            if name is not None: return self.inline(name, e)
        return e

    def dry(self, f):
        """run `f` for its checks only"""
        saved = len(self.out), len(self.pre_out), len(self.conds)
        try:
            return f()
        finally:
            del self.out[saved[0]:], self.pre_out[saved[1]:], self.conds[saved[2]:]

    def inline(self, name, e):
        h = self.helpers.get(name, e.line)
        if len(e.args) != len(h['params']): self.bad(f'`{name}` (line {h["line"]}) takes {len(h["params"])} arguments', e.line)
        mapping = {}
        for (pn, pk), a in zip(h['params'], e.args):
            what = f'argument `{show(a)}` for the parameter `{pn}` of `{name}` (line {h["line"]})'
            atom = a
            while atom.kind == 'paren': atom = atom.e
            if pk[0] == 'ptr':
                if atom.kind != 'path' or len(atom.path) != 1 or self.env.get(atom.path[0], ('',))[0] != 'ptr':
                    self.dry(lambda: self.kind_of(a))
                    self.bad(f'{what}: a pointer argument must be a pointer parameter, as it stands', a.line)
                if pk[1] and not self.env[atom.path[0]][1]: self.bad(f'{what}: a `*const` pointer where `*mut` is declared', a.line)
            elif pk[0] == 'int':
                if self.dry(lambda: self.kind_of(a)) != 'int': self.bad(f'{what}: not a number', a.line)
                self.dry(lambda: self.int_expr(a, pk[1]))
            else:
                if self.dry(lambda: self.kind_of(a)) != 'bytes': self.bad(f'{what}: not a `&[u8]`', a.line)
            if atom.kind not in ('path', 'lit') and h['uses'][pn] != 1:
                self.bad(f'{what}: the parameter is used {h["uses"][pn]} times in the body (an argument that is not a variable or a '
                         f'literal must be used exactly once)', a.line)
            mapping[pn] = atom if atom.kind in ('path', 'lit') else Node('paren', a.line, e=a)
        names = ', '.join(pn for pn, _ in h['params'])
        self.note(f'`{name}` (private fn, line {h["line"]}) replaced by its body `{show(h["body"])}` with ({names}) := '
                  f'({", ".join(show(a) for a in e.args)})')
        return subst(h['body'], mapping)

    def check_helper(self):
        """this function as a private helper: {'line', 'params': [(name, kind)], 'uses': {name: occurrences}, 'kind', 'body'}"""
        fn = self.fn
        for name, ty, line in fn.params: self.param(name, ty, line)
        if fn.body.stmts: self.bad('a statement in a private function (only a single expression is supported)', fn.body.stmts[0].line)
        if fn.body.tail is None: self.bad('a private function without a final expression', fn.body.line)
        body = self.norm(fn.body.tail)
        k = self.kind_of(body)
        ret = fn.ret
        if ret[0] == 'ptr': self.bad('a private function that returns a pointer', fn.line)
        if ret[0] == 'slice':
            if full_path(ret[2], self.uses) not in UCHAR: self.bad(f'return type `{rust_type_text(ret)}` (of slices only `&[u8]` / `&mut [u8]`)', fn.line)
            want = 'region' if ret[1] else 'bytes'
        else:
            fp = full_path(ret[1], self.uses)
            if fp not in INT_TYPES: self.bad(f'return type `{rust_type_text(ret)}` (resolved: {"::".join(fp)})', fn.line)
            want = 'int'
        if k != want:
            self.bad(f'the body is a {k} expression, the declared return type `{rust_type_text(ret)}` is a {want} type', body.line)
        if k == 'bytes': self.bytes_expr(body)
        elif k == 'int': self.int_expr(body, INT_TYPES[fp][1])
        else: self.region_parts(body, body.line)
        return {'line': fn.line, 'params': [(n, self.env[n]) for n, _, _ in fn.params], 'kind': k, 'body': body,
                'uses': {n: occurrences(body, n) for n, _, _ in fn.params}}

    # ---- statements
    def note(self, text):
        text = f'  --     {text}'
        self.out.append(text); self.pre_out.append(text)

    def cond(self, text, line, why):
        k = len(self.conds) + 1
        self.conds.append(f"h'{k}")
        self.pre_out.append(f"  -- {line}: {why}")
        self.pre_out.append(f"  let h'{k} : Prop := {text}")

    def emit(self, text, also_pre=True):
        self.out.append('  ' + text)
        if also_pre: self.pre_out.append('  ' + text)

    def comment(self, line):
        text = f'  -- {line}: {self.src[line - 1].strip()}'
        self.out.append(text); self.pre_out.append(text)

    def stmt(self, s):
        if self.written is not None:
            self.bad(f'a statement after the write of line {self.written} (at most one write, as the last statement, is supported)', s.line)
        if s.kind == 'for': self.bad('a loop', s.line)
        self.comment(s.line)
        if self.helpers is not None and self.helpers.fns and s.kind in ('let', 'expr'):
            attr = 'init' if s.kind == 'let' else 'e'
            ne = self.norm(getattr(s, attr))
            if ne is not getattr(s, attr):
                new = Node(s.kind, s.line)
                new.__dict__.update(vars(s)); setattr(new, attr, ne)
                s = new
        if s.kind == 'let':
            if s.ty is not None: self.bad('`let` with a type annotation', s.line)
            if s.name in RESERVED: self.bad(f'a local named `{s.name}` (the name of the memory in the generated code)', s.line)
            k = self.kind_of(s.init)
            if k == 'ptr': self.bad('a copy of a pointer', s.line)
            if k == 'region':
                p, n = self.region_parts(s.init, s.line)
                self.emit(f'let {lname(s.name)} : RsMem.Region := {{ off := {p}, len := {n} }}')
                self.env[s.name] = ('region',)
            elif k == 'int':
                t, rty = self.int_expr(s.init)
                self.emit(f'let {lname(s.name)} : Nat := {t}')
                self.env[s.name] = ('int', rty or 'usize')
            else:
                self.emit(f'let {lname(s.name)} : List UInt8 := {self.bytes_expr(s.init)}')
                self.env[s.name] = ('bytes',)
            return
        if s.kind == 'expr' and s.e.kind == 'mcall' and s.e.name == 'copy_from_slice':
            e = s.e
            if len(e.args) != 1: self.bad('copy_from_slice takes one argument', e.line)
            r = e.recv
            while r.kind == 'paren': r = r.e
            if r.kind == 'index': self.bad('copy_from_slice on a sub-range of a region', e.line)
            if r.kind != 'path' or len(r.path) != 1 or r.path[0] not in self.env:
                self.bad('copy_from_slice on something that is not a local region', e.line)
            if self.env[r.path[0]][0] == 'bytes':
                self.bad(f'a write through `{r.path[0]}`, which is not a `from_raw_parts_mut` region', e.line)
            if self.env[r.path[0]][0] != 'region': self.bad(f'copy_from_slice on `{r.path[0]}`', e.line)
            v = self.paren(self.bytes_expr(e.args[0]))
            reg = lname(r.path[0])
            self.cond(f'{v}.length = {reg}.len', e.line, 'copy_from_slice: the lengths agree (a panic in Rust otherwise)')
            self.emit(f'let mem := RsMem.copyFromSlice mem {reg} {v}', also_pre=False)
            self.written = s.line
            return
        if s.kind == 'expr':
            if s.e.kind == 'assign': self.bad('an assignment', s.line)
            if s.e.kind == 'mcall': self.bad(f'method call `.{s.e.name}(…)` as a statement', s.line)
            if s.e.kind == 'call': self.bad(f'call of `{"::".join(self.callee(s.e))}` as a statement', s.line)
        self.bad(f'statement of kind `{s.kind}`', s.line)

    def run(self):
        fn = self.fn
        for name, ty, line in fn.params: self.param(name, ty, line)
        for s in fn.body.stmts: self.stmt(s)
        if fn.body.tail is not None: self.bad('a final expression (the exported functions return nothing)', fn.body.tail.line)
        binders = '(mem : List UInt8)' + ''.join(f' ({lname(n)} : Nat)' for n, _, _ in self.params)
        sig = ' '.join(x.strip() for x in self.src[fn.line - 1:fn.body.line]).rstrip('{').strip()
        name = lname(fn.name)
        chunks = [f'/-- `{sig}` (lib.rs line {fn.line}); returns the memory after the call -/\n'
                  f'def {name} {binders} : List UInt8 :=\n' + '\n'.join(self.out) + '\n  mem']
        conj = ' ∧ '.join(self.conds) if self.conds else 'True'
        chunks.append(f'/-- side conditions of `{fn.name}`: the ranges handed to from_raw_parts(_mut) lie inside memory (the `# Safety` contract of\n'
                      f'    the function) and copy_from_slice does not panic -/\n'
                      f'def {name}_pre {binders} : Prop :=\n' + '\n'.join(self.pre_out) + f'\n  {conj}')
        chunks.append(f'/-- the parameters of `{fn.name}` as lib.rs line {fn.line} declares them: name and the C type of the Rust type -/\n'
                      f'def {name}_params : List (String × RsMem.CType) :=\n  [\n' + self.rows(self.params) + '\n  ]')
        return chunks

    @staticmethod
    def rows(params):
        out = []
        for i, (n, ct, shown) in enumerate(params):
            sep = ',' if i + 1 < len(params) else ''
            cell = f'("{n}", .{ct}){sep}'
            out.append(f'   {cell}{" " * max(1, 36 - len(cell))}-- {shown}')
        return '\n'.join(out)


# ------------------------------------------------------------------------------------------------ C header

def parse_header(text):
    """{function name: (line, [(param name, CType constructor, C type text)])} for every prototype of the header"""
    def blank(m): return re.sub(r'[^\n]', ' ', m.group(0))
    t = re.sub(r'/\*.*?\*/', blank, text, flags=re.S)
    t = re.sub(r'//[^\n]*', blank, t)
    t = re.sub(r'(?m)^[ \t]*#(?:[^\n\\]|\\\n|\\.)*', blank, t)
    toks = [(m.group(0), t.count('\n', 0, m.start()) + 1) for m in re.finditer(r'[A-Za-z_]\w*|\.\.\.|[^\s\w]', t)]
    protos, i = {}, 0
    while i < len(toks):
        j = i
        while j < len(toks) and toks[j][0] != ';': j += 1
        decl, i = toks[i:j], j + 1
        if not decl: continue
        line = decl[0][1]
        words = [w for w, _ in decl]
        if words[0] in ('extern',) and len(words) > 1 and words[1].startswith('"'):
            raise Unsupported('kestrel-crypto.h: `extern "C"` block', line)
        if '{' in words or '}' in words or '(' not in words or words[-1] != ')':
            raise Unsupported(f'kestrel-crypto.h: declaration `{" ".join(words[:6])} …` is not a function prototype', line)
        k = words.index('(')
        if k < 2 or not re.fullmatch(r'[A-Za-z_]\w*', words[k - 1]):
            raise Unsupported('kestrel-crypto.h: prototype without a return type or a name', line)
        name, ret = words[k - 1], words[:k - 1]
        if ret != ['void']: raise Unsupported(f'kestrel-crypto.h: `{name}` returns `{" ".join(ret)}` (only void)', line)
        if '(' in words[k + 1:-1] or ')' in words[k + 1:-1]:
            raise Unsupported(f'kestrel-crypto.h: parentheses in the parameters of `{name}`', line)
        params, cur = [], []
        for w, ln in decl[k + 1:-1] + [(',', decl[-1][1])]:
            if w != ',':
                cur.append((w, ln)); continue
            if not cur: raise Unsupported(f'kestrel-crypto.h: empty parameter in `{name}`', ln)
            if [x for x, _ in cur] == ['void'] and not params: cur = []; continue
            pname, pl = cur[-1]
            if not re.fullmatch(r'[A-Za-z_]\w*', pname) or len(cur) < 2:
                raise Unsupported(f'kestrel-crypto.h: parameter of `{name}` without a name', pl)
            ty = [x for x, _ in cur[:-1]]
            params.append((pname, c_type(ty, pl), ' '.join(ty).replace(' *', '*')))
            cur = []
        if name in protos: raise Unsupported(f'kestrel-crypto.h: two prototypes of `{name}`', line)
        protos[name] = (line, params)
    return protos


def c_type(ty, line):
    """`unsigned char const *` is `const unsigned char *`"""
    norm = list(ty)
    if 'const' in norm and '*' in norm and norm.index('const') < norm.index('*'):
        norm.remove('const'); norm.insert(0, 'const')
    ct = C_TYPES.get(tuple(norm))
    if ct is None: raise Unsupported(f'kestrel-crypto.h: parameter type `{" ".join(ty)}`', line)
    return ct


# ------------------------------------------------------------------------------------------------ driver

def translate(src_text, hdr_text):
    cut = src_text.find('#[cfg(test)]')
    region = src_text if cut < 0 else src_text[:cut]
    src_lines = region.split('\n')
    p = FParser(B.tokenize(region, ext=True))
    try:
        uses, fns = p.parse_file()
    except Unsupported as u:
        if p.fn and not getattr(u, 'fn', None): u.fn = p.fn
        raise
    if not fns: raise Unsupported('no `pub unsafe extern "C" fn` in lib.rs', 1)
    protos = parse_header(hdr_text)
    helpers = Helpers(p.helpers, uses, src_lines)
    chunks, seen = [], set()
    for h in p.helpers:                     # every private function is checked, called or not
        helpers.get(h.name, h.line)
        sig = ' '.join(x.strip() for x in src_lines[h.line - 1:h.body.line]).rstrip('{').strip()
        chunks.append(f'/- `{sig}` (lib.rs line {h.line}): private (not `pub`, not `extern`, not `#[no_mangle]`), so not among the exported\n'
                      f'   symbols; every call is replaced by the body `{show(helpers.done[h.name]["body"])}`, the parameters replaced by the arguments -/')
    for fn in fns:
        if fn.name in seen or fn.name in helpers.fns: raise Unsupported(f'two functions named `{fn.name}`', fn.line)
        seen.add(fn.name)
        try:
            chunks += FnTranslator(fn, uses, src_lines, helpers).run()
        except Unsupported as u:
            if not getattr(u, 'fn', None): u.fn = fn.name
            raise
        if fn.name not in protos:
            raise Unsupported(f'kestrel-crypto.h has no prototype of the exported function `{fn.name}`', fn.line)
        hline, hparams = protos[fn.name]
        chunks.append(f'/-- the parameters of `void {fn.name}(…)` as kestrel-crypto.h line {hline} declares them -/\n'
                      f'def {lname(fn.name)}_header_params : List (String × RsMem.CType) :=\n  [\n' + FnTranslator.rows(hparams) + '\n  ]')
    for name, (hline, _) in protos.items():
        if name not in seen: raise Unsupported(f'kestrel-crypto.h declares `{name}`, which lib.rs does not export', hline)
    names = ', '.join(f'`{fn.name}`' for fn in fns)
    inlined = '' if not p.helpers else (f"\n  Calls of the private functions of lib.rs ({', '.join(f'`{h.name}`' for h in p.helpers)}) are replaced by the body of the "
                                        f"function, its\n  parameters replaced, by position, by the arguments of the call (noted at each call).")
    header = f'''/-
  GENERATED by tools/rs2lean_ffi.py -- do not edit.
  source : src/ffi/src/lib.rs  (the part before `#[cfg(test)]`, {len(region.encode())} bytes, {region.count(chr(10))} lines)
  sha256 : {hashlib.sha256(region.encode()).hexdigest()}
  header : src/ffi/kestrel-crypto.h  ({len(hdr_text.encode())} bytes)
  sha256 : {hashlib.sha256(hdr_text.encode()).hexdigest()}
  The exported functions ({names}), statement by statement (each group of lines is preceded by the Rust line it comes from),
  over an explicit flat memory `mem : List UInt8`: a raw pointer is a `Nat` offset into `mem`, `c_uint` / `size_t` are `Nat`,
  `std::slice::from_raw_parts(p, n)` is `(mem.drop p).take n`, `from_raw_parts_mut(p, n)` is the `RsMem.Region` `[p, p + n)`,
  `region.copy_from_slice(v)` is `RsMem.copyFromSlice` (memory with `v` spliced in), `kestrel_crypto::scrypt` (found through the
  `use` declarations) is `RsMem.kc_scrypt` (RFC 7914).  Each function returns the new memory.  `<fn>_pre` collects the side
  conditions (ranges inside memory; no panic in copy_from_slice).  `<fn>_params` / `<fn>_header_params` are the parameter
  lists of lib.rs and of the C header.  Glue: KestrelModel/RsMem.lean.{inlined}
-/
import KestrelModel.RsMem
set_option linter.unusedVariables false
namespace Kestrel.FfiSrc
open Kestrel
'''
    return header + '\n' + '\n\n'.join(chunks) + '\n\nend Kestrel.FfiSrc\n'


def main(argv):
    here = os.path.dirname(os.path.abspath(__file__))
    repo = os.environ.get('KESTREL_REPO', '/repo')
    out = os.path.join(here, '..', 'lean', 'KestrelModel', 'GeneratedFfi.lean')
    args = argv[1:]
    while args:
        a = args.pop(0)
        if a == '--repo' and args: repo = args.pop(0)
        elif a == '--out' and args: out = args.pop(0)
        else:
            print(f'usage: {argv[0]} [--repo DIR] [--out GeneratedFfi.lean]', file=sys.stderr); return 2
    src = os.path.join(repo, 'src', 'ffi', 'src', 'lib.rs')
    hdr = os.path.join(repo, 'src', 'ffi', 'kestrel-crypto.h')
    try:
        with open(src, encoding='utf-8') as f: text = f.read()
        with open(hdr, encoding='utf-8') as f: htext = f.read()
    except OSError as ex:
        print(f'rs2lean_ffi: cannot read the sources: {ex}', file=sys.stderr); return 2
    try:
        result = translate(text, htext)
    except Unsupported as u:
        where = f'in fn `{u.fn}`' if getattr(u, 'fn', None) else 'at top level'
        line = f' (line {u.line})' if u.line else ''
        print(f'rs2lean_ffi: unsupported construct {where}{line}: {u.what}', file=sys.stderr)
        return 3
    old = None
    try:
        with open(out, encoding='utf-8') as f: old = f.read()
    except OSError:
        pass
    if old != result:
        tmp = out + '.tmp'
        with open(tmp, 'w', encoding='utf-8') as f: f.write(result)
        os.replace(tmp, out)
        print(f'rs2lean_ffi: wrote {os.path.normpath(out)} ({len(result)} bytes)')
    else:
        print(f'rs2lean_ffi: {os.path.normpath(out)} is up to date')
    return 0


if __name__ == '__main__':
    sys.exit(main(sys.argv))
