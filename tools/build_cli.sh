#!/bin/bash
# Build the `kestrel` binary and the FFI cdylib from /repo's CURRENT WORKING TREE.
# The CLI and FFI crates depend on the registry copy of kestrel-crypto ("3"); to make them see the tree's
# src/crypto the build runs in a scratch copy with `patch.crates-io.kestrel-crypto.path`.  /repo is not touched.
# Artefacts: /verif/.cache/bin/{kestrel,libkestrel_ffi.so}; skipped when the tree's sources are unchanged.
set -euo pipefail
REPO="${KESTREL_REPO:-/repo}"
CACHE=/verif/.cache
BIN="$CACHE/bin"
mkdir -p "$BIN"
HASH=$(cd "$REPO" && find src Cargo.toml Cargo.lock -type f \( -name '*.rs' -o -name '*.toml' -o -name 'Cargo.lock' \) -print0 | sort -z | xargs -0 sha256sum | sha256sum | cut -d' ' -f1)
if [ -f "$BIN/hash" ] && [ "$(cat "$BIN/hash")" = "$HASH" ] && [ -x "$BIN/kestrel" ] && [ -f "$BIN/libkestrel_ffi.so" ]; then
  echo "cli up to date ($HASH)"; exit 0
fi
SCRATCH=/var/tmp/kverif-src-$$
trap 'rm -rf "$SCRATCH"' EXIT
mkdir -p "$SCRATCH"
rsync -a --exclude target --exclude .git "$REPO"/ "$SCRATCH"/
cd "$SCRATCH"
CARGO_NET_OFFLINE=true CARGO_TARGET_DIR="$CACHE/cli-target" cargo build --offline --release -p kestrel-cli -p kestrel-ffi \
  --config "patch.crates-io.kestrel-crypto.path=\"$SCRATCH/src/crypto\"" 2>&1 | tail -5
cp "$CACHE/cli-target/release/kestrel" "$BIN/kestrel.new" && mv "$BIN/kestrel.new" "$BIN/kestrel"
cp "$CACHE/cli-target/release/libkestrel_ffi.so" "$BIN/libkestrel_ffi.so.new" && mv "$BIN/libkestrel_ffi.so.new" "$BIN/libkestrel_ffi.so"
echo "$HASH" > "$BIN/hash"
echo "cli built ($HASH)"
