#!/usr/bin/env python3
"""
rs2lean_stream.py -- translate src/crypto/src/encrypt.rs and decrypt.rs (the chunk loops `encrypt_chunks` / `decrypt_chunks`,
their helpers, and the four file-level functions) into Lean 4 definitions.

  input : $KESTREL_REPO/src/crypto/src/{encrypt,decrypt,errors,lib}.rs   (KESTREL_REPO defaults to /repo; --repo DIR overrides)
  output: <this dir>/../lean/KestrelModel/GeneratedStream.lean           (--out FILE overrides; written only when changed)
  exit  : 0 ok; 3 = a construct outside the supported subset (message names function and construct; output untouched)

Built on tools/rs2lean_scrypt.py (tokenizer, Pratt parser, literal typing, places / slices / copy_from_slice, `for`); this
file adds items (`use` groups, `const`, `enum`, `struct`, `impl From`), generic `T: Read` / `U: Write` parameters, `Result`,
`Option`, `if` / `else if` / `else` (statement and expression), `if let Some(x) = o {..} else {..}` (expression), `loop`, `break`,
`continue`, `return`, `?`, `.map_err(f)` with a function name or a one-parameter closure, `match` on a field-less enum, booleans,
field access on two external structs, calls of translated functions that do I/O, and the four I/O methods.  Nothing in here
recognises a function by name or a line by its text; the file-specific knowledge is in these tables:
  TARGETS      which functions of which file are wanted (everything they call is translated too, callees first);
  RES_VARIANT  error-enum variant -> constructor of `Kestrel.Res` (error *kinds*; payloads / messages are not modelled);
  EXTERN       Lean meaning of the crate functions that are not translated (signatures are read from lib.rs);
  IDENTITY_FNS, BYTE_STRUCTS, STRUCT_LEAN, ENUM_LEAN   wrappers that are the identity / byte newtypes / hand-written types;
  IO_METHODS   `std::io::Read` / `Write` methods -> glue in lean/KestrelModel/RsIO.lean.

Meaning of the constructs (combinators: lean/KestrelModel/RsPrelude.lean and RsIO.lean):
  usize, u64, u32        -> Nat     (faithful while no value leaves its range; `x as u32` -> Rs.truncU32 x = x % 2^32)
  u8 / bool              -> UInt8 / Bool;   == != < > <= >= && || ! -> Bool-valued == != decide(<) … && || !
  &[u8], Vec<u8>, [u8;n] -> List UInt8;  slices, indexing, copy_from_slice, vec![x; n], [x; n] as in rs2lean_scrypt.py
  x.to_be_bytes()        -> be64 x (u64), be32 x (u32);  u32::from_be_bytes(b) -> beVal b;  .len() -> .length
  .clone() .as_slice() & &mut * .try_into().unwrap() (widening or slice->array) -> identity;  a.clone_from(&b) -> a := b
  &mut T, T: Read        -> Kestrel.Src;   &mut U, U: Write -> Kestrel.Snk;  std::io::Error -> RsIO.IoError
  Result<T, E>           -> Except E T, except Result<(), E> for an error enum E of RES_VARIANT -> Kestrel.Res
                            (Ok(()) -> Res.ok, Err(e) -> e)
  e?                     -> match e with | .error x => return Err(From::from(x)) | .ok v => rest
                            (`From::from` is the identity, or the `impl From<..> for ..` found in errors.rs)
  function with &mut params -> returns (Rust result, final values of the &mut parameters in parameter order)
  loop { .. }            -> Rs.loop body fuel state; the body becomes a separate definition `<fn>.loop<k>` over the tuple of
                            outer variables it assigns; the function gets a parameter `fuel` and returns Option (none = out of fuel)
  if (may leave the block, not last) -> Rs.Step.andThen (if .. then .. else ..) (fun assigned-variables => rest)

Robustness to maintenance rewrites of the Rust text (tools/selftest_stream_scrypt.py is the regression test):
  * a `const` item and a helper function (one that is translated only because a TARGETS function calls it) are `@[simp] def`s;
    the proofs unfold them without naming them (`rs_unfold`, KestrelProofs/RsUnfold.lean), so naming a literal or extracting
    a private helper does not change what a proof sees.  A helper that writes but has no reader of its own gets the reader
    as an extra ghost parameter `reader'`, supplied by its callers (the write log records where the reader stands);
  * the tuple of loop variables is ordered by first assignment inside the loop (not by name or declaration order); what a
    loop body reads but does not assign becomes a parameter of `<fn>.loop<k>`, which the proofs obtain by unification;
  * also accepted: tuple types / expressions / `let (a, b) = ..`, `&[T; n]`, a local `const`, `let x = &mut v[a..b];`
    (x is another name for that part of v: reads and writes go to v; the bounds must not mention mutable variables),
    `u32::from(b)` for a bool (`if b then 1 else 0`) or a narrower integer, and a final expression / `return` value that has
    effects at its root (`f(..)` for a translated function that does I/O, `…?`): `f(..)?; Ok(())` and `f(..)` as the last
    expression translate to terms the proofs identify (`StreamSrc.requestion`).
  * second batch (control-flow / data-flow rewrites; the text generated for the pristine sources is unchanged):
      - normalising passes on the syntax tree, before anything is emitted: a deferred initialisation `let x; … x = e;` is
        `let x = e;` at the place of the assignment (`resolve_deferred`); a `match` STATEMENT on a field-less enum, with block
        arms, `return` arms, `_`, and a scrutinee that may have effects at its root (`match f(..)? { A => {}, B => { return …; } }`)
        is the chain `if s == A {…} else {…}` after an exhaustiveness check (`match_to_if`), so everything known about `if`
        statements (early exits, assigned variables, `Rs.Step`) applies;
      - values: `match o { Some(x) => a, None => b }` on an `Option` (the text `if let` gives), exhaustive `match` without `_`,
        and arms / branches that are blocks of immutable `let`s (`{ let a = e; v }` is `(let a := e; v)`);
      - `s.split_at(k)` is the pair `(s.take k, s.drop k)`; `let (a, b) = v[lo..hi].split_at_mut(k);` makes `a`, `b` other
        names for `v[lo..lo + k]` and `v[lo + k..hi]` (the mechanism of `let x = &mut v[a..b];`, so the text is the one
        manual range indexing gives); `std::mem::swap(&mut a, &mut b)` (path resolved through the `use`s) is `(a, b) := (b, a)`;
      - `fn f<const N: usize, …>`: `N` is an explicit `Nat` parameter; at a call its value is read off the array type expected
        there (`let x: [u8; 4] = f(..)?;`), `N` having to be the length of the array type `f` returns; array types keep their
        length expression for this purpose (`ArrTy`).
"""
import sys, os, hashlib

sys.path.insert(0, os.path.dirname(os.path.abspath(__file__)))
import rs2lean_scrypt as B
from rs2lean_scrypt import Unsupported, Node, IntVar, resolve, is_list, lname

# ------------------------------------------------------------------------------------------------ tables

TARGETS = [('encrypt', ['encrypt_chunks', 'read_err', 'write_err', 'pass_encrypt', 'key_encrypt']),
           ('decrypt', ['decrypt_chunks', 'read_err', 'write_err', 'valid_file_format', 'pass_decrypt', 'key_decrypt'])]
STRETCH = [('encrypt', []), ('decrypt', [])]

# error enums whose values are `Kestrel.Res` constructors
RES_VARIANT = {
    'errors::EncryptError': {'UnexpectedData': 'unexpectedData', 'IORead': 'ioRead', 'IOWrite': 'ioWrite', 'Other': 'other'},
    'errors::DecryptError': {'ChunkLen': 'chunkLen', 'ChaPolyDecrypt': 'auth', 'UnexpectedData': 'unexpectedData',
                             'IORead': 'ioRead', 'IOWrite': 'ioWrite', 'Other': 'other'},
}

# crate functions that stay external: Lean text (arguments {0}, {1}, …) and the implicit parameter it needs
EXTERN = {
    'chapoly_encrypt_noise': ('A.enc {0} {1} {2} {3}', 'A'),
    'chapoly_decrypt_noise': ('Rs.okOr (A.dec {0} {1} {2} {3})', 'A'),     # Option -> Result<_, unit struct>
    'scrypt': ('RsIO.scrypt P {0} {1} {2} {3} {4} {5}', 'P'),
    'hkdf_sha256': ('RsIO.hkdfSha256 P {0} {1} {2} {3}', 'P'),
    'secure_random': ('rand {0}', 'rand'),
    'noise_encrypt': ('RsIO.noiseEncrypt P rand {0} {1} {2} {3} {4} {5} {6}', 'P rand'),
    'noise_decrypt': ('RsIO.noiseDecrypt P {0} {1} {2} {3}', 'P'),
}
IMPLICIT = {'A': 'Aead', 'P': 'Prims', 'rand': 'Nat → List UInt8'}
# structs that wrap a byte string (private field): modelled by the bytes; `X::new(b)` and `.as_bytes()` are the identity
BYTE_STRUCTS = {'PayloadKey', 'PublicKey', 'PrivateKey'}
# structs / enums whose Lean counterpart is hand-written (RsIO.lean, Noise.lean); the field names are checked against lib.rs
STRUCT_LEAN = {'NoiseEncryptMsg': 'RsIO.NoiseEncryptMsg', 'NoiseDecryptMsg': 'RsIO.NoiseDecryptMsg'}
ENUM_LEAN = {'errors::NoiseError': 'Noise.Err'}
# functions from other crates that are the identity on the modelled value
IDENTITY_FNS = {('zeroize', 'Zeroizing', 'new')}

# types from outside the crate
STD_TYPES = {('std', 'io', 'Error'): 'ioerror', ('std', 'io', 'ErrorKind'): 'errkind'}
STD_TRAITS = {('std', 'io', 'Read'): 'reader', ('std', 'io', 'Write'): 'writer'}
ERRKIND_VARIANTS = ['Other', 'Interrupted', 'UnexpectedEof', 'WriteZero']      # as declared in RsIO.lean

MODULES = ['encrypt', 'decrypt', 'errors', 'noise', 'scrypt']

INTS = ('usize', 'u64', 'u32', 'u8')
NATS = ('usize', 'u64', 'u32')


# ------------------------------------------------------------------------------------------------ parser

class ArrTy(tuple):
    """the type `[T; n]`: equal to (and used like) the plain ('list', T, 'own'), but it remembers the length expression `n`
    (attribute `n`), from which the value of a `const N: usize` parameter is read off at a call"""
    def __new__(cls, elem, n):
        self = super().__new__(cls, ('list', elem, 'own'))
        self.n = n
        return self


class SParser(B.Parser):
    """items and the extra statement / expression forms"""

    # ---- token helpers
    def skip_balanced(self):
        """self.peek() is an opening bracket: skip to just after its partner"""
        depth = 0
        while True:
            tok = self.next()
            if tok.kind == 'eof': raise Unsupported('unbalanced brackets', tok.line)
            if tok.kind == 'p' and tok.text in ('(', '[', '{'): depth += 1
            elif tok.kind == 'p' and tok.text in (')', ']', '}'):
                depth -= 1
                if depth == 0: return

    def skip_item(self):
        """skip to the end of the current item: a `;` or a `{ … }` at bracket depth 0"""
        while True:
            tok = self.peek()
            if tok.kind == 'eof': return
            if tok.kind == 'p' and tok.text == ';':
                self.next(); return
            if tok.kind == 'p' and tok.text == '{':
                self.skip_balanced(); return
            if tok.kind == 'p' and tok.text in ('(', '['):
                self.skip_balanced(); continue
            self.next()

    def attribute(self):
        """returns the token texts inside #[ … ]"""
        self.expect('#'); self.accept('!'); self.expect('[')
        depth, texts = 1, []
        while True:
            tok = self.next()
            if tok.kind == 'eof': raise Unsupported('unterminated attribute', tok.line)
            if tok.text in ('[', '(', '{'): depth += 1
            elif tok.text in (']', ')', '}'):
                depth -= 1
                if depth == 0: return texts
            texts.append(tok.text)

    def skip_attribute(self):
        self.attribute()

    # ---- items
    def use_tree(self, prefix, out):
        if self.accept('{'):
            while not self.accept('}'):
                self.use_tree(list(prefix), out)
                if not self.at('}'): self.expect(',')
            return
        if self.at('*'): raise Unsupported('glob `use`', self.peek().line)
        seg = self.ident().text
        if self.accept('::'):
            return self.use_tree(prefix + [seg], out)
        alias = self.ident().text if self.accept('as') else seg
        out[alias] = prefix + [seg] if seg != 'self' else prefix

    def parse_use(self, out):
        self.expect('use')
        self.use_tree([], out)
        self.expect(';')

    def parse_items(self, want_bodies):
        """returns dict(uses, consts, fns, enums, structs, froms); items that cannot be parsed are skipped and, for
        functions, remembered with the reason"""
        items = dict(uses={}, consts={}, fns={}, enums={}, structs={}, froms=[], order=[])
        gated = False
        while self.peek().kind != 'eof':
            tok = self.peek()
            if self.at('#'):
                a = self.attribute()
                if a and a[0] == 'cfg': gated = True
                continue
            if gated:                       # a #[cfg(..)] item: not part of the default build
                gated = False
                if self.accept('pub'):
                    if self.at('('): self.skip_balanced()
                self.skip_item(); continue
            if self.at('use'):
                self.parse_use(items['uses']); continue
            if self.accept('pub'):
                if self.at('('): self.skip_balanced()
                continue
            if self.at('const'):
                start = self.i
                try:
                    self.next(); name = self.ident(); self.expect(':'); ty = self.parse_type(); self.expect('=')
                    e = self.parse_expr(); self.expect(';')
                    items['consts'][name.text] = Node('const', name.line, name=name.text, ty=ty, e=e)
                except Unsupported:
                    self.i = start; self.skip_item()
                continue
            if self.at('fn'):
                self.parse_fn_item(items, want_bodies); continue
            if self.at('enum'):
                self.next(); name = self.ident(); self.expect('{')
                variants = []
                while not self.accept('}'):
                    if self.at('#'): self.attribute(); continue
                    v = self.ident(); payload = False
                    if self.at('(') or self.at('{'):
                        payload = True; self.skip_balanced()
                    if self.at('='): raise Unsupported('enum discriminant', v.line)
                    variants.append((v.text, payload))
                    if not self.at('}'): self.expect(',')
                items['enums'][name.text] = Node('enum', name.line, name=name.text, variants=variants)
                continue
            if self.at('struct'):
                self.next(); name = self.ident()
                unit = self.at(';')
                fields = None
                if self.at('{'):
                    start = self.i
                    try:
                        self.next(); fields = []
                        while not self.accept('}'):
                            if self.at('#'): self.attribute(); continue
                            pub = bool(self.accept('pub'))
                            if pub and self.at('('): self.skip_balanced()
                            fname = self.ident().text; self.expect(':')
                            fields.append((fname, self.parse_type(), pub))
                            if not self.at('}'): self.expect(',')
                    except Unsupported:
                        fields = None; self.i = start; self.skip_item()
                else:
                    self.skip_item()
                items['structs'][name.text] = Node('struct', name.line, name=name.text, unit=unit, fields=fields)
                continue
            if self.at('impl'):
                start = self.i
                try:
                    self.next()
                    if self.at('From') and self.at('<', 1):
                        self.next(); self.expect('<'); src = self.parse_type(); self.expect('>'); self.expect('for')
                        dst = self.parse_type(); self.expect('{')
                        sub = dict(uses={}, consts={}, fns={}, enums={}, structs={}, froms=[], order=[])
                        self.parse_fn_item(sub, True)
                        self.expect('}')
                        fn = list(sub['fns'].values())[0]
                        items['froms'].append(Node('from', tok.line, src=src, dst=dst, fn=fn))
                        continue
                except Unsupported:
                    pass
                self.i = start; self.skip_item(); continue
            # mod, type, static, trait, macro_rules, … : not needed
            self.skip_item()
        return items

    def parse_fn_item(self, items, want_bodies):
        start = self.i
        line = self.peek().line
        name = self.peek(1).text
        try:
            fn = self.parse_fn_sig()
        except Unsupported as u:
            self.i = start; self.skip_item()
            items['fns'][name] = Node('fn', line, name=name, sig_error=u, body=None, body_error=None, params=None, ret=None,
                                      generics={})
            items['order'].append(name)
            return
        body_start = self.i
        fn.body, fn.body_error, fn.sig_error = None, None, None
        if want_bodies:
            try:
                self.fn = fn.name
                fn.body = self.parse_block()
            except Unsupported as u:
                fn.body_error = u
                self.i = body_start; self.skip_balanced()
            self.fn = None
        else:
            self.skip_balanced()
        items['fns'][fn.name] = fn
        items['order'].append(fn.name)

    def parse_fn_sig(self):
        line = self.expect('fn').line
        name = self.ident().text
        generics, const_generics = {}, []
        if self.accept('<'):
            while not self.accept('>'):
                if self.peek().kind == 'lifetime': raise Unsupported('lifetime parameter', line)
                if self.at('const') and self.peek(1).kind == 'id' and self.at(':', 2):     # `const N: usize`
                    self.next(); g = self.ident(); self.expect(':')
                    const_generics.append((g.text, self.parse_type(), g.line))
                    if not self.at('>'): self.expect(',')
                    continue
                g = self.ident().text
                self.expect(':')
                bound = [self.ident().text]
                while self.accept('::'): bound.append(self.ident().text)
                if self.at('+') or self.at('<'): raise Unsupported('compound trait bound', line)
                generics[g] = bound
                if not self.at('>'): self.expect(',')
        self.expect('(')
        params = []
        while not self.accept(')'):
            if self.at('#'): self.attribute(); continue
            if self.accept('mut'): raise Unsupported('`mut` parameter binding', line)
            if self.at('&') or self.at('self'): raise Unsupported('`self` parameter', line)
            pn = self.ident()
            self.expect(':')
            params.append((pn.text, self.parse_type(), pn.line))
            if not self.at(')'): self.expect(',')
        ret = 'unit'
        if self.accept('->'): ret = self.parse_type()
        if self.at('where'): raise Unsupported('`where` clause', line)
        return Node('fn', line, name=name, params=params, ret=ret, generics=generics, const_generics=const_generics,
                    sig_end=self.peek().line)

    def parse_type(self):
        tok = self.peek()
        if self.accept('&') or self.accept('&&'):
            if self.peek().kind == 'lifetime': self.next()
            mut = bool(self.accept('mut'))
            if self.at('['):
                self.next(); elem = self.parse_type()
                if self.accept(';'): self.parse_expr()                 # &[T; n]: a borrowed array is a slice
                self.expect(']')
                return ('list', elem, 'mutref' if mut else 'ref')
            inner = self.parse_type()
            if mut:
                if is_list(inner): return ('list', inner[1], 'mutref')
                return ('mutref', inner)
            return inner
        if self.accept('('):
            if self.accept(')'): return 'unit'
            parts = [self.parse_type()]
            while self.accept(','):
                if self.at(')'): break
                parts.append(self.parse_type())
            self.expect(')')
            if len(parts) == 1: return parts[0]
            return ('tuple', tuple(parts))
        if self.accept('['):
            elem = self.parse_type(); self.expect(';'); n = self.parse_expr(); self.expect(']')
            return ArrTy(elem, n)
        path = [self.ident().text]
        while self.at('::') and self.peek(1).kind == 'id':
            self.next(); path.append(self.ident().text)
        if path == ['Vec']:
            self.expect('<'); elem = self.parse_type(); self.expect('>')
            return ('list', elem, 'own')
        if path == ['Result']:
            self.expect('<'); ok = self.parse_type(); self.expect(','); err = self.parse_type(); self.expect('>')
            return ('result', ok, err)
        if path == ['Option']:
            self.expect('<'); inner = self.parse_type(); self.expect('>')
            return ('option', inner)
        if len(path) == 1 and path[0] in INTS + ('bool',): return path[0]
        if self.at('<'): raise Unsupported(f'generic type `{"::".join(path)}<…>`', tok.line)
        return ('named', tuple(path))

    # ---- statements
    def parse_block(self):
        line = self.expect('{').line
        stmts, tail = [], None
        while not self.at('}'):
            tok = self.peek()
            if tok.kind == 'eof': raise Unsupported('unterminated block', line)
            if tail is not None:
                if tail.kind in ('if', 'match', 'loop'):          # block-like expression statement without `;`
                    stmts.append(Node('expr', tail.line, e=tail)); tail = None
                else:
                    raise Unsupported('expression without `;` in the middle of a block', tail.line)
            if self.at('#'):
                a = self.attribute()
                if a and a[0] == 'cfg': raise Unsupported('#[cfg] on a statement', tok.line)
                continue
            if self.at(';'):
                self.next(); continue
            if self.at('use'):
                uses = {}
                self.parse_use(uses)
                stmts.append(Node('use', tok.line, uses=uses)); continue
            if self.at('let'):
                self.next()
                if self.at('('):                                        # let (a, b) = e;
                    self.next(); names = []
                    while not self.accept(')'):
                        if self.at('mut') or self.at('ref') or self.at('&') or self.at('('):
                            raise Unsupported('pattern in `let`', tok.line)
                        names.append(self.ident().text)
                        if not self.at(')'): self.expect(',')
                    ty = self.parse_type() if self.accept(':') else None
                    if not self.accept('='): raise Unsupported('`let` without initialiser', tok.line)
                    init = self.parse_expr()
                    if self.at('else'): raise Unsupported('`let … else`', tok.line)
                    self.expect(';')
                    stmts.append(Node('lettuple', tok.line, names=names, ty=ty, init=init)); continue
                mut = bool(self.accept('mut'))
                name = self.ident()
                if self.at('(') or self.at('{') or self.at('::'): raise Unsupported('pattern in `let`', tok.line)
                ty = self.parse_type() if self.accept(':') else None
                if not mut and self.accept(';'):                        # `let x;`: initialised later (see `resolve_deferred`)
                    stmts.append(Node('letdecl', tok.line, name=name.text, ty=ty)); continue
                if not self.accept('='): raise Unsupported('`let` without initialiser', tok.line)
                init = self.parse_expr()
                if self.at('else'): raise Unsupported('`let … else`', tok.line)
                self.expect(';')
                stmts.append(Node('let', tok.line, name=name.text, mut=mut, ty=ty, init=init)); continue
            if self.at('const') and self.peek(1).kind == 'id' and self.at(':', 2):
                self.next()                                             # a local `const X: T = e;` is an immutable `let`
                name = self.ident(); self.expect(':'); ty = self.parse_type(); self.expect('=')
                init = self.parse_expr(); self.expect(';')
                stmts.append(Node('let', tok.line, name=name.text, mut=False, ty=ty, init=init)); continue
            if self.at('for'):
                self.next()
                pat = self.parse_pattern(); self.expect('in')
                it = self.parse_expr(); body = self.parse_block()
                stmts.append(Node('for', tok.line, pat=pat, iter=it, body=body)); continue
            if self.at('return'):
                self.next()
                e = None if self.at(';') else self.parse_expr()
                self.expect(';')
                stmts.append(Node('return', tok.line, e=e)); continue
            if self.at('break') or self.at('continue'):
                self.next()
                if not self.at(';'): raise Unsupported(f'`{tok.text}` with a label or a value', tok.line)
                self.expect(';')
                stmts.append(Node(tok.text, tok.line)); continue
            if tok.kind == 'id' and tok.text in ('if', 'loop', 'match'):
                e = self.parse_primary()          # a block-like expression at the start of a statement is a statement
                if self.accept(';') or not self.at('}'):
                    stmts.append(Node('expr', tok.line, e=e))
                else:
                    tail = e
                continue
            if tok.kind == 'id' and tok.text in ('while', 'unsafe', 'fn', 'struct', 'enum', 'impl', 'const', 'static', 'mod', 'type'):
                raise Unsupported(f'`{tok.text}`', tok.line)
            if self.at('{'): raise Unsupported('nested block statement', tok.line)
            e = self.parse_expr(B.PREC_ASSIGN)
            if self.accept(';'):
                stmts.append(Node('expr', tok.line, e=e))
            else:
                tail = e
        self.expect('}')
        # a block-like final `if`/`loop` is a statement when it yields no value; the translator decides (see `fn_tail`)
        return Node('block', line, stmts=stmts, tail=tail)

    # ---- expressions
    def can_start_expr(self):
        tok = self.peek()
        if tok.kind in ('int', 'str', 'char'): return True
        return super().can_start_expr()

    def parse_postfix(self, e):
        while True:
            tok = self.peek()
            if self.accept('('):
                e = Node('call', tok.line, f=e, args=self.parse_args(')'))
            elif self.accept('['):
                ix = self.parse_expr(); self.expect(']')
                e = Node('index', tok.line, e=e, ix=ix)
            elif self.at('.') and self.peek(1).kind == 'id':
                self.next(); name = self.ident()
                if self.at('::'): raise Unsupported('turbofish', tok.line)
                if self.accept('('):
                    e = Node('mcall', tok.line, recv=e, name=name.text, args=self.parse_args(')'))
                else:
                    e = Node('field', tok.line, e=e, name=name.text)
            elif self.at('.') and self.peek(1).kind == 'int':
                raise Unsupported('tuple field access', tok.line)
            elif self.accept('?'):
                e = Node('try', tok.line, e=e)
            else:
                return e

    def parse_cond(self):
        if self.at('let'):
            line = self.next().line
            ctor = self.ident()
            if ctor.text != 'Some' or not self.accept('('): raise Unsupported('`if let` with a pattern other than `Some(x)`', line)
            var = self.ident().text
            self.expect(')'); self.expect('=')
            return Node('letsome', line, var=var, e=self.parse_expr())
        return self.parse_expr()

    def parse_if(self, line):
        cond = self.parse_cond()
        then = self.parse_block()
        els = None
        if self.accept('else'):
            if self.at('if'):
                l2 = self.next().line
                inner = self.parse_if(l2)
                els = Node('block', l2, stmts=[], tail=inner)
            else:
                els = self.parse_block()
        return Node('if', line, cond=cond, then=then, els=els)

    def parse_primary(self):
        tok = self.peek()
        if tok.kind == 'str':
            self.next(); return Node('str', tok.line, text=tok.text)
        if tok.kind == 'char': raise Unsupported('character literal', tok.line)
        if tok.kind == 'id' and tok.text in ('true', 'false'):
            self.next(); return Node('bool', tok.line, val=tok.text == 'true')
        if tok.kind == 'id' and tok.text == 'if':
            self.next(); return self.parse_if(tok.line)
        if tok.kind == 'id' and tok.text == 'loop':
            self.next(); return Node('loop', tok.line, body=self.parse_block())
        if tok.kind == 'id' and tok.text == 'match':
            self.next()
            scrut = self.parse_expr()
            self.expect('{')
            arms = []
            while not self.accept('}'):
                # a pattern is `_` (None), the path of an enum variant / `None` (a list), or `Some(x)` (the pair ('Some', x))
                if self.at('_'):
                    self.next(); pat = None
                else:
                    p = [self.ident().text]
                    while self.accept('::'): p.append(self.ident().text)
                    if p == ['Some'] and self.at('(') and self.peek(1).kind == 'id' and self.at(')', 2):
                        self.next(); pat = ('Some', self.ident().text); self.next()
                    elif self.at('(') or self.at('{') or self.at('|') or self.at('if'):
                        raise Unsupported('`match` pattern other than a path, `Some(x)` or `_`', tok.line)
                    else:
                        pat = p
                if self.at('|') or self.at('if'): raise Unsupported('`match` arm with alternatives or a guard', tok.line)
                self.expect('=>')
                # an arm is an expression, or a block (kept as a block when it has statements or no value)
                braced = self.at('{')
                if braced:
                    blk = self.parse_block()
                    body = blk.tail if (not blk.stmts and blk.tail is not None) else blk
                elif self.at('return') or self.at('break') or self.at('continue'):
                    kw = self.next()
                    if kw.text == 'return':
                        val = None if (self.at(',') or self.at('}')) else self.parse_expr()
                        st = Node('return', kw.line, e=val)
                    else:
                        st = Node(kw.text, kw.line)
                    body = Node('block', kw.line, stmts=[st], tail=None)
                else:
                    body = self.parse_expr()
                arms.append((pat, body))
                if braced: self.accept(',')                              # no comma is needed after a `{ … }` arm
                elif not self.at('}'): self.expect(',')
            return Node('match', tok.line, scrut=scrut, arms=arms)
        if tok.kind == 'p' and tok.text in ('|', '||'):
            self.next()
            params = []
            if tok.text == '|':
                while not self.accept('|'):
                    params.append(self.ident().text)
                    if self.at(':'): raise Unsupported('closure parameter with a type', tok.line)
                    if not self.at('|'): self.expect(',')
            if self.at('{') or self.at('->'): raise Unsupported('closure with a block body', tok.line)
            return Node('closure', tok.line, params=params, body=self.parse_expr())
        if tok.kind == 'p' and tok.text == '(' and self.at(')', 1):
            self.next(); self.next(); return Node('unit', tok.line)
        if tok.kind == 'p' and tok.text == '(':
            self.next()
            first = self.parse_expr()
            if self.accept(')'): return Node('paren', tok.line, e=first)
            elems = [first]
            while self.accept(','):
                if self.at(')'): break
                elems.append(self.parse_expr())
            self.expect(')')
            return Node('tuple', tok.line, elems=elems)
        if tok.kind == 'p' and tok.text == '[':
            self.next()
            if self.accept(']'): return Node('array', tok.line, elems=[])
            first = self.parse_expr()
            if self.accept(';'):
                cnt = self.parse_expr(); self.expect(']')
                return Node('repeat', tok.line, elem=first, count=cnt, what='array')
            elems = [first]
            while not self.accept(']'):
                self.expect(',')
                if self.at(']'): continue
                elems.append(self.parse_expr())
            return Node('array', tok.line, elems=elems)
        return super().parse_primary()


# ------------------------------------------------------------------------------------------------ crate

class Module:
    def __init__(self, name, label, text, want_bodies):
        self.name, self.label = name, label
        cut = text.find('#[cfg(test)]')
        self.region = text if cut < 0 else text[:cut]
        self.digest = hashlib.sha256(self.region.encode()).hexdigest()
        self.src_lines = self.region.split('\n')
        p = SParser(B.tokenize(self.region, ext=True))
        self.items = p.parse_items(want_bodies)


class Crate:
    def __init__(self, srcdir):
        self.mods = {}
        for name, fname, bodies in (('', 'lib.rs', False), ('errors', 'errors.rs', True), ('encrypt', 'encrypt.rs', True),
                                    ('decrypt', 'decrypt.rs', True)):
            path = os.path.join(srcdir, fname)
            with open(path, encoding='utf-8') as f:
                text = f.read()
            try:
                self.mods[name] = Module(name, f'src/crypto/src/{fname}', text, bodies)
            except Unsupported as u:
                u.fn = getattr(u, 'fn', None) or f'<items of {fname}>'
                raise

    def normalise(self, q):
        q = list(q)
        if q and q[0] == 'crate': q = q[1:]
        elif q and q[0] == 'std': return tuple(q)
        if q and q[0] in self.mods and q[0] != '': return ('crate', q[0]) + tuple(q[1:])
        return ('crate', '') + tuple(q)

    def resolve(self, mod, local_uses, path):
        """full path of an item path written in module `mod`; None when it is not an item of the crate or of std"""
        path = list(path)
        for uses in (local_uses, self.mods[mod].items['uses']):
            if path[0] in uses:
                return self.normalise(uses[path[0]] + path[1:])
        it = self.mods[mod].items
        if any(path[0] in it[k] for k in ('fns', 'enums', 'structs', 'consts')):
            return ('crate', mod) + tuple(path)
        if path[0] in ('crate', 'std') or (mod == '' and path[0] in self.mods):
            return self.normalise(path)
        return None

    def expand(self, mod, local_uses, path):
        """the path with a leading `use` alias replaced (no normalisation)"""
        path = list(path)
        for uses in (local_uses, self.mods[mod].items['uses']):
            if path[0] in uses: return tuple(uses[path[0]] + path[1:])
        return tuple(path)

    def item(self, full):
        """('enum'|'struct'|'const'|'fn', module, node, rest-of-path) for a crate path"""
        if full is None or full[0] != 'crate' or len(full) < 3: return None
        m = self.mods.get(full[1])
        if m is None: return None
        for kind, key in (('enum', 'enums'), ('struct', 'structs'), ('const', 'consts'), ('fn', 'fns')):
            if full[2] in m.items[key]:
                return (kind, full[1], m.items[key][full[2]], full[3:])
        return None


def qual(mod, name):
    return f'{mod}::{name}' if mod else name


# ------------------------------------------------------------------------------------------------ contexts

class Ctx:
    stmt_tail = True

    def brk(self, tr, line): tr.bad('`break` outside a loop', line)
    def cont(self, tr, line): tr.bad('`continue` outside a loop', line)
    def out_of_fuel(self, tr, line): tr.bad('`loop` nested in a `loop`', line)


class FnCtx(Ctx):
    stmt_tail = False

    def __init__(self, tr):
        self.ty = tr.block_ty()

    def fall(self, tr): raise AssertionError
    def ret_packed(self, tr, text): return f'some {text}' if tr.has_fuel else text
    def out_of_fuel(self, tr, line): return 'none'


class LoopCtx(Ctx):
    def __init__(self, tr, state, rho):
        self.state, self.rho = state, rho
        self.ty = f'Rs.Flow ({tr.state_ty(state)}) ({rho})'

    def fall(self, tr): return f'Rs.Flow.next {tr.state_text(self.state)}'
    def brk(self, tr, line): return f'Rs.Flow.brk {tr.state_text(self.state)}'
    def cont(self, tr, line): return f'Rs.Flow.next {tr.state_text(self.state)}'
    def ret_packed(self, tr, text): return f'Rs.Flow.ret {text}'


class StepCtx(Ctx):
    def __init__(self, tr, outer, state):
        self.outer, self.state = outer, state
        self.ty = f'Rs.Step ({tr.state_ty(state)}) ({outer.ty})'

    def fall(self, tr): return f'Rs.Step.cont {tr.state_text(self.state)}'
    def brk(self, tr, line): return f'Rs.Step.exit ({self.outer.brk(tr, line)})'
    def cont(self, tr, line): return f'Rs.Step.exit ({self.outer.cont(tr, line)})'
    def ret_packed(self, tr, text): return f'Rs.Step.exit ({self.outer.ret_packed(tr, text)})'
    def out_of_fuel(self, tr, line): return f'Rs.Step.exit ({self.outer.out_of_fuel(tr, line)})'


class PureCtx(Ctx):
    def __init__(self, tr, state):
        self.state = state
        self.ty = tr.state_ty(state)

    def fall(self, tr): return tr.state_text(self.state)
    def ret_packed(self, tr, text): raise AssertionError


# ------------------------------------------------------------------------------------------------ translation

IO_METHODS = {   # name -> (receiver kind, glue, has buffer / data argument, Rust result type)
    'read':       ('reader', 'RsIO.read',      'buf',  ('result', 'usize', 'ioerror')),
    'read_exact': ('reader', 'RsIO.readExact', 'buf',  ('result', 'unit', 'ioerror')),
    'write_all':  ('writer', 'RsIO.writeAll',  'data', ('result', 'unit', 'ioerror')),
    'flush':      ('writer', 'RsIO.flush',     None,   ('result', 'unit', 'ioerror')),
}
WIDTH = {'u8': 8, 'u32': 32, 'usize': 64, 'u64': 64}
GHOST_READER = "reader'"        # name of the ghost parameter (not a Rust identifier, so it cannot clash)
EXIT_KINDS = ('return', 'break', 'continue', 'try', 'loop')


def children(x):
    if isinstance(x, Node):
        for k, v in x.__dict__.items():
            if k in ('kind', 'line', 'tv'): continue
            yield from children_of(v)


def children_of(v):
    if isinstance(v, Node): yield v
    elif isinstance(v, (list, tuple)):
        for y in v: yield from children_of(y)


def contains(node, kinds):
    if node is None: return False
    if node.kind in kinds: return True
    return any(contains(c, kinds) for c in children(node))


def binds(node, name):
    """does some pattern below `node` bind `name` (a `let`, a `for` pattern, a closure parameter, `Some(x)`)?"""
    if node is None: return False
    k = node.kind
    if k in ('let', 'letdecl') and node.name == name: return True
    if k == 'lettuple' and name in node.names: return True
    if k == 'for' and name in node.pat: return True
    if k == 'closure' and name in node.params: return True
    if k == 'letsome' and node.var == name: return True
    if k == 'match' and any(isinstance(p, tuple) and p[1] == name for p, _ in node.arms): return True
    return any(binds(c, name) for c in children(node))


def resolve_deferred(blk):
    """normalising pass over a function body (idempotent): a deferred initialisation

        let x;  …  x = e;           (`let x;` without `mut`: Rust checks that `x` is assigned exactly once on every path on
                                     which it is used, and never read before)
    becomes `let x = e;` at the place of the assignment (in whichever nested block that is; a use of `x` outside that
    block is then an unknown variable, i.e. a refusal).  Assignments that are not statements, and another binding of the
    same name inside the scope of `let x;`, are refused."""
    if blk is None: return

    def assigns(node, name):
        return node.kind == 'assign' and node.op == '=' and node.place.kind == 'path' and node.place.path == [name]

    def rewrite(node, d):
        """in `node`, turn the statements `x = e;` into `let x = e;`; returns the number of statements rewritten"""
        n = 0
        if node.kind == 'block':
            for i, st in enumerate(node.stmts):
                if st.kind == 'expr' and assigns(st.e, d.name):
                    if contains(st.e.e, ('assign',)): raise Unsupported(f'nested assignment in the initialisation of `{d.name}`', st.line)
                    node.stmts[i] = Node('let', st.line, name=d.name, mut=False, ty=d.ty, init=st.e.e); n += 1
        for c in children(node): n += rewrite(c, d)
        return n

    def leftover(node, name):
        return assigns(node, name) or any(leftover(c, name) for c in children(node))

    def visit(node):
        if node.kind == 'block':
            i = 0
            while i < len(node.stmts):
                d = node.stmts[i]
                if d.kind != 'letdecl':
                    i += 1; continue
                scope = Node('block', d.line, stmts=node.stmts[i + 1:], tail=node.tail)
                if binds(scope, d.name): raise Unsupported(f'`let {d.name};` whose name is bound again before the end of its block', d.line)
                n = rewrite(scope, d)
                if leftover(scope, d.name): raise Unsupported(f'`let {d.name};` assigned by something other than a statement `{d.name} = e;`', d.line)
                if n == 0: raise Unsupported(f'`let {d.name};` is never initialised', d.line)
                node.stmts[i + 1:] = scope.stmts
                del node.stmts[i]
        for c in children(node): visit(c)

    visit(blk)


class SFn(B.FnTranslator):
    def __init__(self, crate, mod, fn, lean_name=None):
        self.crate, self.mod, self.module = crate, mod, crate.mods[mod]
        super().__init__(fn, {}, self.module.items['uses'], self.module.src_lines)
        self.lean_name = lean_name or lname(fn.name)
        self.attr = ''              # text in front of `def` (the driver marks helper functions `@[simp]`)
        self.ghost_ok = False       # may a function without a reader get a ghost reader parameter? (set by the driver)
        self.ghost = None
        self.local_uses = {}
        self.deps = set()           # ('from', index) / ('enum', qualified name) / ('const', module, name) / ('fn', module, name)

    # ---- semantic types
    def sem(self, t, line=None):
        if t in INTS or t in ('bool', 'unit'): return t
        if isinstance(t, IntVar): return t
        if isinstance(t, tuple):
            if t[0] == 'list':
                if isinstance(t, ArrTy): return ArrTy(self.sem(t[1], line), t.n)
                return ('list', self.sem(t[1], line), t[2])
            if t[0] == 'result': return ('result', self.sem(t[1], line), self.sem(t[2], line))
            if t[0] == 'option': return ('option', self.sem(t[1], line))
            if t[0] == 'mutref': return ('mutref', self.sem(t[1], line))
            if t[0] == 'tuple': return ('tuple', tuple(self.sem(x, line) for x in t[1]))
            if t[0] == 'named':
                path = t[1]
                if len(path) == 1 and path[0] in self.fn.generics:
                    full = self.crate.resolve(self.mod, self.local_uses, self.fn.generics[path[0]])
                    if full in STD_TRAITS: return STD_TRAITS[full]
                    self.bad(f'generic parameter `{path[0]}` with a bound other than std::io::Read / std::io::Write', line)
                full = self.crate.resolve(self.mod, self.local_uses, path)
                if full in STD_TYPES: return STD_TYPES[full]
                it = self.crate.item(full)
                if it and it[0] == 'enum' and not it[3]: return ('enum', qual(it[1], it[2].name))
                if it and it[0] == 'struct' and not it[3]:
                    if it[1] == '' and it[2].name in BYTE_STRUCTS: return ('list', 'u8', 'own')
                    return ('struct', qual(it[1], it[2].name))
                self.bad(f'type `{"::".join(path)}`', line)
        self.bad(f'type {t!r}', line)

    def enum_node(self, q):
        mod, _, name = q.rpartition('::')
        return self.crate.mods[mod].items['enums'][name]

    def res_encoded(self, t):
        """Result<(), E> for an error enum E of RES_VARIANT is a `Kestrel.Res` (Ok(()) = Res.ok)"""
        t = resolve(t)
        return isinstance(t, tuple) and t[0] == 'result' and resolve(t[1]) == 'unit' and self.is_res_enum(t[2])

    def is_res_enum(self, t):
        t = resolve(t)
        return isinstance(t, tuple) and t[0] == 'enum' and t[1] in RES_VARIANT

    def lt(self, t):
        t = resolve(t)
        if isinstance(t, IntVar) or t in NATS: return 'Nat'
        if t == 'u8': return 'UInt8'
        if t == 'bool': return 'Bool'
        if t == 'unit': return 'Unit'
        if t == 'reader': return 'Src'
        if t == 'writer': return 'Snk'
        if t == 'ioerror': return 'RsIO.IoError'
        if t == 'errkind': return 'RsIO.ErrorKind'
        if isinstance(t, tuple):
            if t[0] == 'list':
                inner = self.lt(t[1])
                return f'List {inner}' if ' ' not in inner else f'List ({inner})'
            if t[0] == 'mutref': return self.lt(t[1])
            if t[0] == 'option':
                inner = self.lt(t[1])
                return f'Option {inner}' if ' ' not in inner else f'Option ({inner})'
            if t[0] == 'enum':
                if t[1] in RES_VARIANT: return 'Res'
                if t[1] in ENUM_LEAN: return ENUM_LEAN[t[1]]
                node = self.enum_node(t[1])
                if any(p for _, p in node.variants): self.bad(f'enum `{t[1]}` has variants with fields', node.line)
                self.deps.add(('enum', t[1]))
                return t[1].replace('::', '.')
            if t[0] == 'struct':
                mod, _, name = t[1].rpartition('::')
                if mod == '' and name in STRUCT_LEAN: return STRUCT_LEAN[name]
                if not self.crate.mods[mod].items['structs'][name].unit: self.bad(f'struct `{t[1]}` with fields')
                return 'Unit'
            if t[0] == 'resres': return 'Res'
            if t[0] == 'tuple':
                parts = [self.lt(x) for x in t[1]]
                return ' × '.join(x if ' ' not in x else f'({x})' for x in parts)
            if t[0] == 'result':
                a, b = self.lt(t[2]), self.lt(t[1])
                return 'Except ' + ' '.join(x if ' ' not in x else f'({x})' for x in (a, b))
        self.bad(f'no Lean type for {self.show(t)}')

    def show(self, t):
        t = resolve(t)
        if isinstance(t, IntVar): return '{integer}'
        if isinstance(t, tuple):
            if t[0] == 'list': return f'[{self.show(t[1])}]'
            if t[0] == 'result': return f'Result<{self.show(t[1])}, {self.show(t[2])}>'
            if t[0] == 'resres': return f'Result<(), {self.show(t[1])}>'
            if t[0] in ('enum', 'struct'): return t[1]
            if t[0] == 'mutref': return f'&mut {self.show(t[1])}'
            if t[0] == 'option': return f'Option<{self.show(t[1])}>'
            if t[0] == 'tuple': return '(' + ', '.join(self.show(x) for x in t[1]) + ')'
        return str(t)

    def is_int(self, t):
        t = resolve(t)
        return isinstance(t, IntVar) or t in INTS

    def unify(self, a, b, line, what):
        a, b = resolve(a), resolve(b)
        if a is b: return a
        if isinstance(a, IntVar):
            if not self.is_int(b): self.bad(f'{what}: an integer was expected, found {self.show(b)}', line)
            a.bound = b; return b
        if isinstance(b, IntVar):
            if not self.is_int(a): self.bad(f'{what}: an integer was expected, found {self.show(a)}', line)
            b.bound = a; return a
        if is_list(a) and is_list(b):
            self.unify(a[1], b[1], line, what); return a
        if isinstance(a, tuple) and isinstance(b, tuple) and a[0] == b[0] == 'result':
            self.unify(a[1], b[1], line, what); self.unify(a[2], b[2], line, what); return a
        if isinstance(a, tuple) and isinstance(b, tuple) and a[0] == b[0] == 'option':
            self.unify(a[1], b[1], line, what); return a
        if isinstance(a, tuple) and isinstance(b, tuple) and a[0] == b[0] == 'tuple' and len(a[1]) == len(b[1]):
            for x, y in zip(a[1], b[1]): self.unify(x, y, line, what)
            return a
        if a != b: self.bad(f'{what}: types {self.show(a)} and {self.show(b)} differ', line)
        return a

    # ---- names of things
    def state_text(self, vars_):
        if not vars_: return '()'
        return super().state_text(vars_)

    def state_ty(self, vars_):
        if not vars_: return 'Unit'
        parts = [self.lt(v.ty) for v in vars_]
        return ' × '.join(p if ' ' not in p or len(parts) == 1 else f'({p})' for p in parts)

    def fresh(self, stem):
        self.temps += 1
        return f"{stem}'{self.temps}"

    def world(self):
        return [v for v in self.params_v if v.kind == 'mutref']

    def pack(self, text):
        w = self.world()
        if not w: return text
        for v in w:
            if self.lookup_opt(v.name) is not v: self.bad(f'`{v.name}` is shadowed where the function returns')
        return '(' + ', '.join([text] + [lname(v.name) for v in w]) + ')'

    def ret_lt(self):
        """a function declared `-> Result<(), E>` for an error enum E returns a `Res`"""
        return 'Res' if self.res_encoded(self.ret_ty) else self.lt(self.ret_ty)

    def rho(self):
        w = self.world()
        r = self.ret_lt()
        if not w: return r
        return ' × '.join([r if ' ' not in r else f'({r})'] + [self.lt(v.ty) for v in w])

    def block_ty(self):
        return f'Option ({self.rho()})' if self.has_fuel else self.rho()

    def need_implicit(self, name):
        self.implicit_used.add(name)
        return name

    # ---- expressions
    def expr(self, e, want=None):
        k = e.kind
        if k == 'lit':
            ty = e.suffix if e.suffix is not None else self.node_tv(e)
            if e.suffix is not None and e.suffix not in INTS: self.bad(f'integer suffix `{e.suffix}`', e.line)
            if want is not None and e.suffix is None and self.is_int(want): self.unify(ty, want, e.line, 'literal')
            if resolve(ty) == 'u8': return (f'({e.val} : UInt8)', ty, True)
            return (str(e.val), ty, True)
        if k == 'bool': return ('true' if e.val else 'false', 'bool', True)
        if k == 'unit': return ('()', 'unit', True)
        if k == 'paren': return self.expr(e.e, want)
        if k == 'ref': return self.expr(e.e, want)
        if k == 'unary':
            if e.op == '*': return self.expr(e.e, want)
            if e.op == '!':
                r = self.expr(e.e)
                if resolve(r[1]) != 'bool': self.bad('`!` on a non-boolean', e.line)
                return (f'!{self.paren(r)}', 'bool', False)
            self.bad(f'unary `{e.op}`', e.line)
        if k == 'path': return self.path_expr(e)
        if k == 'cast':
            return self.convert(self.expr(e.e), self.sem(e.ty, e.line), e.line, '`as`')
        if k == 'repeat':
            elem = self.expr(e.elem)
            if want is not None and is_list(want): self.unify(elem[1], resolve(want)[1], e.line, 'repeated element')
            elem = self.expr(e.elem)
            cnt = self.expr(e.count)
            self.unify(cnt[1], 'usize', e.line, 'repeat count')
            return (f'List.replicate {self.paren(cnt)} {self.paren(elem)}', ('list', elem[1], 'own'), False)
        if k == 'array':
            tv = IntVar() if not (want is not None and is_list(want)) else resolve(want)[1]
            for x in e.elems:
                tv = self.unify(self.expr(x)[1], tv, e.line, 'array element')
            texts = [self.expr(x)[0] for x in e.elems]
            return ('[' + ', '.join(texts) + ']', ('list', tv, 'own'), True)
        if k == 'if': return self.if_expr(e, want)
        if k == 'match': return self.match_expr(e, want)
        if k == 'call': return self.call_expr(e, want)
        if k == 'mcall': return self.mcall_expr(e, want)
        if k == 'try': self.bad('`?` inside an expression (only `let x = …?;`, `…?;` and `return` positions are supported)', e.line)
        if k == 'str': self.bad('string literal', e.line)
        if k == 'field':
            r = self.expr(e.e)
            rt = resolve(r[1])
            if isinstance(rt, tuple) and rt[0] == 'struct':
                mod, _, name = rt[1].rpartition('::')
                node = self.crate.mods[mod].items['structs'][name]
                if mod == '' and name in STRUCT_LEAN and node.fields is not None:
                    for fname, fty, pub in node.fields:
                        if fname == e.name and pub:
                            return (f'{self.paren(r)}.{lname(fname)}', self.sem_in(mod, fty), False)
            self.bad(f'field access `.{e.name}` on {self.show(rt)}', e.line)
        if k == 'loop': self.bad('`loop` as an expression', e.line)
        if k == 'tuple':
            w = resolve(want) if want is not None else None
            ws = list(w[1]) if isinstance(w, tuple) and w[0] == 'tuple' and len(w[1]) == len(e.elems) else [None] * len(e.elems)
            rs = [self.expr(x, wx) for x, wx in zip(e.elems, ws)]
            for r, wx in zip(rs, ws):
                if wx is not None: self.unify(r[1], wx, e.line, 'tuple component')
            rs = [self.expr(x, wx) for x, wx in zip(e.elems, ws)]
            return ('(' + ', '.join(r[0] for r in rs) + ')', ('tuple', tuple(r[1] for r in rs)), True)
        return super().expr(e)

    def path_expr(self, e):
        path = e.path
        if len(path) == 1:
            v = self.lookup_opt(path[0])
            if v is not None and v.kind == 'alias':
                tv, read, wb, ty, sub = self.alias_place(v, e.line)
                return (read, ('list', resolve(ty)[1], 'ref'), not sub)
            if v is not None: return (lname(v.name), v.ty, True)
        full = self.crate.resolve(self.mod, self.local_uses, path)
        it = self.crate.item(full)
        if it and it[0] == 'const' and not it[3]:
            self.deps.add(('const', it[1], it[2].name))
            return (self.item_ref(it[1], it[2].name), self.sem_in(it[1], it[2].ty), True)
        if it and it[0] == 'struct' and not it[3] and it[2].unit:
            return ('()', ('struct', qual(it[1], it[2].name)), True)
        if it and it[0] == 'enum' and len(it[3]) == 1:
            return self.variant(it, e.line, None)
        if full and full[:-1] in STD_TYPES and STD_TYPES[full[:-1]] == 'errkind':
            if full[-1] not in ERRKIND_VARIANTS: self.bad(f'`ErrorKind::{full[-1]}` (not produced by the scripted I/O model)', e.line)
            return (f'RsIO.ErrorKind.{full[-1]}', 'errkind', True)
        if len(path) == 1: self.bad(f'unknown variable `{path[0]}`', e.line)
        self.bad(f'path `{"::".join(path)}` used as a value', e.line)

    def sem_in(self, mod, ty):
        """semantic type of a type written in another module (consts, extern signatures)"""
        other = SFn(self.crate, mod, Node('fn', 0, name='<sig>', generics={}, params=[], ret='unit', body=None))
        t = other.sem(ty)
        self.deps |= other.deps
        return t

    def item_ref(self, mod, name):
        return lname(name) if mod == self.mod else (f'{mod}.{lname(name)}' if mod else lname(name))

    def variant(self, it, line, args):
        """an enum variant used as a value: `it` = crate item of the enum with the variant name left over"""
        _, mod, node, rest = it
        q = qual(mod, node.name)
        found = [p for n, p in node.variants if n == rest[0]]
        if not found: self.bad(f'`{q}` has no variant `{rest[0]}`', line)
        if found[0] != (args is not None): self.bad(f'variant `{q}::{rest[0]}` used with the wrong shape', line)
        if args is not None:
            for a in args:
                if contains(a, ('try', 'assign', 'loop')) or self.io_inside(a):
                    self.bad(f'payload of `{q}::{rest[0]}` has side effects', line)
        if q in RES_VARIANT:
            if rest[0] not in RES_VARIANT[q]: self.bad(f'no `Res` constructor is assigned to `{q}::{rest[0]}`', line)
            return (f'Res.{RES_VARIANT[q][rest[0]]}', ('enum', q), True)      # payload (message / cause) not modelled
        if args is not None: self.bad(f'variant `{q}::{rest[0]}` with fields', line)
        return (f'{self.lt(("enum", q))}.{rest[0]}', ('enum', q), True)

    def io_inside(self, node):
        if node.kind == 'mcall' and node.name in IO_METHODS: return True
        return any(self.io_inside(c) for c in children(node))

    def if_expr(self, e, want):
        if e.cond.kind == 'letsome': return self.iflet_expr(e, want)
        c = self.expr(e.cond)
        if resolve(c[1]) != 'bool': self.bad('`if` condition is not a boolean', e.line)
        if e.els is None: self.bad('`if` expression without `else`', e.line)
        outs = [self.block_value(b, want) for b in (e.then, e.els)]
        ty = self.unify(outs[0][1], outs[1][1], e.line, 'branches of `if`')
        outs = [self.block_value(b, want) for b in (e.then, e.els)]
        return (f'if {c[0]} then {outs[0][0]} else {outs[1][0]}', ty, False)

    def block_value(self, blk, want):
        """a block used as a value: `{ let a = e; …; v }` is `(let a := e; …; v)`; only immutable `let`s without effects"""
        if blk.kind != 'block': return self.expr(blk, want)
        if blk.tail is None: self.bad('a block without a value where a value is needed', blk.line)
        if not blk.stmts: return self.expr(blk.tail, want)
        self.scopes.append({})
        parts = []
        for s in blk.stmts:
            if s.kind != 'let' or s.mut: self.bad('block used as a value with a statement other than an immutable `let`', s.line)
            if self.effectful(s.init) or contains(s.init, EXIT_KINDS + ('assign',)) or self.io_inside(s.init):
                self.bad('block used as a value: `let` whose initialiser has effects', s.line)
            if self.alias_target(s.init) is not None: self.bad('`&mut` borrow in a block used as a value', s.line)
            w = self.sem(s.ty, s.line) if s.ty is not None else None
            r = self.expr(s.init, w)
            ty = r[1] if w is None else self.unify(r[1], w, s.line, f'`let {s.name}`')
            r = self.expr(s.init, w)
            tv = resolve(ty)
            if tv in ('reader', 'writer'): self.bad('binding a reader / writer to a new name', s.line)
            v = self.declare(s.name, ty, False, 'local', s.line)
            asc = '' if isinstance(tv, IntVar) else f' : {self.lt(tv)}'
            parts.append(f'let {lname(v.name)}{asc} := {r[0]}')
        t = self.expr(blk.tail, want)
        self.scopes.pop()
        return ('(' + '; '.join(parts + [t[0]]) + ')', t[1], True)

    def iflet_expr(self, e, want):
        """`if let Some(x) = o { a } else { b }` as a value"""
        o = self.expr(e.cond.e)
        ot = resolve(o[1])
        if not (isinstance(ot, tuple) and ot[0] == 'option'): self.bad(f'`if let Some(..)` on {self.show(ot)}', e.line)
        if e.els is None: self.bad('`if let` expression without `else`', e.line)
        self.scopes.append({})
        self.declare(e.cond.var, ot[1], False, 'local', e.line)
        a = self.block_value(e.then, want)
        self.scopes.pop()
        b = self.block_value(e.els, want)
        ty = self.unify(a[1], b[1], e.line, 'branches of `if let`')
        self.scopes.append({})
        self.declare(e.cond.var, ot[1], False, 'local', e.line)
        a = self.block_value(e.then, want)
        self.scopes.pop()
        b = self.block_value(e.els, want)
        return (f'(match {o[0]} with | some {lname(e.cond.var)} => {a[0]} | none => {b[0]})', ty, True)

    def match_variants(self, st, line):
        """the variant names of a type one can `match` on by paths"""
        if st == 'errkind': return list(ERRKIND_VARIANTS)
        if isinstance(st, tuple) and st[0] == 'enum' and st[1] not in RES_VARIANT:
            return [n for n, _ in self.enum_node(st[1]).variants]
        self.bad(f'`match` on a value of type {self.show(st)}', line)

    def match_expr(self, e, want):
        s = self.expr(e.scrut)
        st = resolve(s[1])
        if isinstance(st, tuple) and st[0] == 'option': return self.match_option(e, s, st, want)
        names = self.match_variants(st, e.line)
        arms, ty, seen_wild, covered = [], None, False, []
        for pat, body in e.arms:
            if seen_wild: self.bad('`match` arm after `_`', e.line)
            if pat is None:
                ptxt = '_'; seen_wild = True
            else:
                if not isinstance(pat, list): self.bad(f'`match` on {self.show(st)} with a `Some(..)` pattern', e.line)
                pv = self.path_expr(Node('path', e.line, path=pat))
                if resolve(pv[1]) != st: self.bad('`match` pattern of another type', e.line)
                ptxt = pv[0]
                if pat[-1] in covered: self.bad(f'`match` with two arms for `{pat[-1]}`', e.line)
                covered.append(pat[-1])
            r = self.block_value(body, want)
            ty = r[1] if ty is None else self.unify(ty, r[1], e.line, '`match` arms')
            arms.append((ptxt, body))
        if not seen_wild and set(covered) != set(names): self.bad('`match` that is neither exhaustive nor closed by a `_` arm', e.line)
        text = f'match {s[0]} with ' + ' '.join(f'| {p} => {self.block_value(b, want)[0]}' for p, b in arms)
        return (f'({text})', ty, True)

    def match_option(self, e, s, st, want):
        """`match o { Some(x) => a, None => b }` (either order; `_` may stand for the second pattern) as a value"""
        seen, ty = [], None
        for rnd in (0, 1):                                              # twice: the first round fixes the types of literals
            texts = []
            for i, (pat, body) in enumerate(e.arms):
                if isinstance(pat, tuple) and pat[0] == 'Some': key = 'some'
                elif pat == ['None'] and self.lookup_opt('None') is None: key = 'none'
                elif pat is None and i == len(e.arms) - 1 and len(e.arms) == 2: key = '_'
                else: self.bad('`match` on an `Option` with a pattern other than `Some(x)`, `None` or a final `_`', e.line)
                if rnd == 0:
                    if key in seen: self.bad('`match` on an `Option` with a repeated pattern', e.line)
                    seen.append(key)
                self.scopes.append({})
                if key == 'some' and pat[1] != '_': self.declare(pat[1], st[1], False, 'local', e.line)
                r = self.block_value(body, want)
                self.scopes.pop()
                ty = r[1] if ty is None else self.unify(ty, r[1], e.line, '`match` arms')
                ptxt = f'some {"_" if pat[1] == "_" else lname(pat[1])}' if key == 'some' else key
                texts.append(f'| {ptxt} => {r[0]}')
        if len(e.arms) != 2 or not ({'some', 'none'} <= set(seen) or ('_' in seen and len(seen) == 2)):
            self.bad('`match` on an `Option` that does not have exactly the arms `Some(x)` and `None`', e.line)
        return (f'(match {s[0]} with ' + ' '.join(texts) + ')', ty, True)

    def convert(self, r, target, line, what):
        src = resolve(r[1])
        if target not in INTS: self.bad(f'{what} to {self.show(target)}', line)
        if isinstance(src, IntVar):
            src.bound = target; return (r[0], target, r[2])
        if src not in INTS: self.bad(f'{what} from {self.show(src)}', line)
        if src == target: return (r[0], target, r[2])
        if src == 'u8': return (f'{self.paren(r)}.toNat', target, False)
        if target == 'u8': return (f'UInt8.ofNat {self.paren(r)}', target, False)
        if WIDTH[src] <= WIDTH[target]: return (r[0], target, r[2])              # widening between Nat-modelled types
        if target == 'u32': return (f'Rs.truncU32 {self.paren(r)}', target, False)  # usize/u64 as u32
        self.bad(f'{what} from {self.show(src)} to {self.show(target)}', line)

    def binop_on(self, op, l, r, e):
        lt_, rt_ = resolve(l[1]), resolve(r[1])
        if op in ('&&', '||'):
            if lt_ != 'bool' or rt_ != 'bool': self.bad(f'`{op}` on non-boolean operands', e.line)
            return (f'{self.paren(l)} {op} {self.paren(r)}', 'bool', False)
        if op in B.CMP:
            ty = resolve(self.unify(l[1], r[1], e.line, f'operands of `{op}`'))
            ordered = self.is_int(ty)
            eqable = ordered or ty == 'bool' or ty == 'errkind' or (is_list(ty) and self.is_int(ty[1])) or \
                (isinstance(ty, tuple) and ty[0] == 'enum' and ty[1] not in RES_VARIANT)
            if op in ('==', '!='):
                if not eqable: self.bad(f'`{op}` on {self.show(ty)}', e.line)
                return (f'{self.paren(l)} {op} {self.paren(r)}', 'bool', False)
            if not ordered: self.bad(f'`{op}` on {self.show(ty)}', e.line)
            sym = {'<': '<', '>': '>', '<=': '≤', '>=': '≥'}[op]
            return (f'decide ({self.paren(l)} {sym} {self.paren(r)})', 'bool', False)
        if not self.is_int(lt_) or not self.is_int(rt_):
            self.bad(f'operator `{op}` on {self.show(lt_)} and {self.show(rt_)}', e.line)
        if op in ('<<', '>>'):
            if resolve(l[1]) == 'u8': self.bad(f'shift on u8', e.line)
            return (f'{self.paren(l)} {op + op[0]} {self.paren(r)}', l[1], False)
        ty = self.unify(l[1], r[1], e.line, f'operands of `{op}`')
        if resolve(ty) == 'u8': self.bad(f'`{op}` on u8', e.line)
        if op in ('^', '&', '|'): return (f'{self.paren(l)} {op * 3} {self.paren(r)}', ty, False)
        if op in ('+', '-', '*', '/', '%'): return (f'{self.paren(l)} {op} {self.paren(r)}', ty, False)
        self.bad(f'operator `{op}`', e.line)

    def binop(self, e):
        l = self.expr(e.l)
        r = self.expr(e.r)
        # let an untyped literal take the type of the other side before printing (u8 literals need an ascription)
        if self.is_int(l[1]) and self.is_int(r[1]) and e.op not in ('<<', '>>'):
            self.unify(l[1], r[1], e.line, f'operands of `{e.op}`')
            l, r = self.expr(e.l), self.expr(e.r)
        return self.binop_on(e.op, l, r, e)

    def fn_sig(self, mod, node, line):
        """semantic signature of a crate function: (param types, result type)"""
        if node.sig_error is not None:
            self.bad(f'call of `{qual(mod, node.name)}`, whose signature is outside the subset ({node.sig_error.what})', line)
        other = SFn(self.crate, mod, node)
        sig = ([(pn, other.sem(pt, pl)) for pn, pt, pl in node.params], other.sem(node.ret, node.line))
        self.deps |= other.deps
        return sig

    def call_expr(self, e, want=None, okw=None):
        if e.f.kind != 'path': self.bad('call of a computed function', e.line)
        path = e.f.path
        if path in (['Ok'], ['Err']):
            if len(e.args) != 1: self.bad(f'`{path[0]}` arity', e.line)
            w = resolve(want) if want is not None else None
            if not (isinstance(w, tuple) and w[0] == 'result'):
                self.bad(f'`{path[0]}(…)` where the expected `Result` type is not known', e.line)
            r = self.expr(e.args[0], w[1] if path[0] == 'Ok' else w[2])
            self.unify(r[1], w[1] if path[0] == 'Ok' else w[2], e.line, f'argument of `{path[0]}`')
            self.lt(w)
            return (f'Except.{"ok" if path[0] == "Ok" else "error"} {self.paren(r)}', w, False)
        if len(path) == 2 and path[0] in INTS and path[1] == 'from' and self.lookup_opt(path[0]) is None:
            if len(e.args) != 1: self.bad(f'`{"::".join(path)}` arity', e.line)
            r = self.expr(e.args[0])
            src = resolve(r[1])
            if src == 'bool':                                           # `u32::from(b)` is 1 for true and 0 for false
                lit = '(1 : UInt8) else (0 : UInt8)' if path[0] == 'u8' else '1 else 0'
                return (f'if {r[0]} then {lit}', path[0], False)
            if isinstance(src, IntVar): self.bad(f'`{"::".join(path)}` of an untyped literal', e.line)
            if src in INTS and WIDTH[src] <= WIDTH[path[0]]:            # lossless by construction
                return self.convert(r, path[0], e.line, f'`{path[0]}::from`')
            self.bad(f'`{"::".join(path)}` of {self.show(src)}', e.line)
        if path == ['u32', 'from_be_bytes']:
            if len(e.args) != 1: self.bad('`u32::from_be_bytes` arity', e.line)
            r = self.expr(e.args[0], ('list', 'u8', 'own'))
            self.unify(r[1], ('list', 'u8', 'own'), e.line, 'argument of `u32::from_be_bytes`')
            return (f'beVal {self.paren(r)}', 'u32', False)
        if self.crate.expand(self.mod, self.local_uses, path) in IDENTITY_FNS:
            if len(e.args) != 1: self.bad(f'`{"::".join(path)}` arity', e.line)
            return self.expr(e.args[0], want)
        full = self.crate.resolve(self.mod, self.local_uses, path)
        it = self.crate.item(full)
        if it and it[0] == 'struct' and it[1] == '' and it[2].name in BYTE_STRUCTS and it[3] == ('new',):
            if len(e.args) != 1: self.bad(f'`{"::".join(path)}` arity', e.line)
            r = self.expr(e.args[0], ('list', 'u8', 'own'))
            self.unify(r[1], ('list', 'u8', 'own'), e.line, f'argument of `{"::".join(path)}`')
            return (r[0], ('list', 'u8', 'own'), r[2])
        if it and it[0] == 'enum' and len(it[3]) == 1:
            return self.variant(it, e.line, e.args)
        if it and it[0] == 'fn' and not it[3]:
            _, mod, node, _ = it
            params, ret = self.fn_sig(mod, node, e.line)
            if len(params) != len(e.args): self.bad(f'`{node.name}` called with {len(e.args)} arguments', e.line)
            args = []
            for a, (pn, pt) in zip(e.args, params):
                if isinstance(pt, tuple) and (pt[0] == 'mutref' or (pt[0] == 'list' and pt[2] == 'mutref')):
                    self.bad(f'call of `{node.name}` (which has `&mut` parameters) inside an expression', e.line)
                r = self.expr(a, pt)
                self.unify(r[1], pt, e.line, f'argument `{pn}` of `{node.name}`')
                args.append(self.paren(self.expr(a, pt)))
            if mod == '' and node.name in EXTERN:
                tmpl, imp = EXTERN[node.name]
                for i in imp.split(): self.need_implicit(i)
                return (tmpl.format(*args), ret, False)
            if mod == self.mod and node.body is not None:
                info = getattr(node, 'info', None)
                if info is None: self.bad(f'call of `{node.name}` before its translation (recursion?)', e.line)
                if info['fuel'] or info['world']:
                    self.bad(f'call of `{node.name}` (which does I/O or contains a loop) inside an expression', e.line)
                self.deps.add(('fn', mod, node.name))
                for imp in info['implicit']: self.need_implicit(imp)
                w = resolve(want) if want is not None else None
                if okw is None: okw = w[1] if (isinstance(w, tuple) and w[0] == 'result') else w
                return (' '.join([lname(node.name)] + info['implicit'] + self.const_args(node, okw, e.line) + args), ret, False)
            self.bad(f'call of `{qual(mod, node.name)}`, which has no Lean meaning (not in EXTERN, not translated)', e.line)
        self.bad(f'call of `{"::".join(path)}`', e.line)

    def mcall_expr(self, e, want=None):
        name = e.name
        if name == 'unwrap' and not e.args and e.recv.kind == 'mcall' and e.recv.name == 'try_into' and not e.recv.args:
            r = self.expr(e.recv.recv)
            if want is None: self.bad('`.try_into().unwrap()` without a type annotation on the `let`', e.line)
            src, dst = resolve(r[1]), resolve(want)
            if is_list(src) and is_list(dst):
                self.unify(src, dst, e.line, '`try_into`')
                return (r[0], dst, r[2])                          # slice -> array: identity (panics on a length mismatch)
            if isinstance(src, IntVar): self.bad('`.try_into()` on an untyped literal', e.line)
            if src in NATS and dst in NATS and WIDTH[src] <= WIDTH[dst]: return (r[0], dst, r[2])
            self.bad(f'`.try_into().unwrap()` from {self.show(src)} to {self.show(dst)} (may panic)', e.line)
        if name in ('unwrap', 'expect', 'try_into'): self.bad(f'`.{name}` (outside the pattern `.try_into().unwrap()`)', e.line)
        if name in IO_METHODS or name == 'map_err':
            self.bad(f'`.{name}` inside an expression (only `let x = …;`, `…;` and `return` positions are supported)', e.line)
        recv = self.expr(e.recv)
        rt = resolve(recv[1])
        if name == 'len' and not e.args and is_list(rt): return (f'{self.paren(recv)}.length', 'usize', False)
        if name in ('clone', 'as_slice', 'to_vec', 'as_mut_slice', 'as_bytes') and not e.args and is_list(rt): return recv
        if name == 'clone' and not e.args and isinstance(rt, tuple) and rt[0] in ('struct', 'enum', 'option'): return recv
        if name == 'clone' and not e.args and (rt in INTS or rt == 'bool'): return recv
        if name == 'to_be_bytes' and not e.args:
            if rt == 'u64': return (f'be64 {self.paren(recv)}', ('list', 'u8', 'own'), False)
            if rt == 'u32': return (f'be32 {self.paren(recv)}', ('list', 'u8', 'own'), False)
            self.bad(f'`.to_be_bytes` on {self.show(rt)}', e.line)
        if name == 'kind' and not e.args and rt == 'ioerror': return (f'{self.paren(recv)}.kind', 'errkind', False)
        if name == 'split_at' and len(e.args) == 1 and is_list(rt):     # (s[..k], s[k..]); panics when k > s.len(): totalised
            k = self.expr(e.args[0])
            self.unify(k[1], 'usize', e.line, 'argument of `.split_at`')
            k = self.expr(e.args[0])
            part = ('list', rt[1], 'ref')
            return (f'({self.paren(recv)}.take {self.paren(k)}, {self.paren(recv)}.drop {self.paren(k)})', ('tuple', (part, part)), True)
        if name == 'split_at_mut': self.bad('`.split_at_mut` outside `let (a, b) = v[..].split_at_mut(k);`', e.line)
        if name in ('copy_from_slice', 'clone_from'): self.bad(f'`.{name}` used as an expression', e.line)
        self.bad(f'method `.{name}` on {self.show(rt)}', e.line)

    # ---- `let x = &mut v[a..b];`: x is another name for that part of v (reads and writes go to v)
    def alias_target(self, init):
        """the node `v` / `v[a..b]` when `init` is `&mut v` / `&mut v[a..b]` with `v` a mutable slice variable, else None"""
        x = init
        while x.kind == 'paren': x = x.e
        if x.kind != 'ref' or not x.mut: return None
        x = x.e
        while x.kind == 'paren': x = x.e
        base = x.e if x.kind == 'index' and x.ix.kind == 'range' else x
        if base.kind == 'path' and len(base.path) == 1:
            v = self.lookup_opt(base.path[0])
            if v is not None and v.kind != 'alias' and is_list(v.ty): return x
        return None

    def alias_place(self, v, line):
        node, frozen = v.alias
        for name, var in frozen.items():
            if self.lookup_opt(name) is not var:
                self.bad(f'`{v.name}` (a `&mut` borrow made when `{name}` meant something else) used after `{name}` was rebound', line)
        return super().place(Node('ref', line, mut=True, e=node), f'`{v.name}`')

    def place(self, e, what):
        x = e
        while x.kind in ('ref', 'paren'): x = x.e
        if x.kind == 'path' and len(x.path) == 1:
            v = self.lookup_opt(x.path[0])
            if v is not None and v.kind == 'alias': return self.alias_place(v, e.line)
        return super().place(e, what)

    # ---- effects: I/O calls, `.map_err`, `?` (only at the root of a `let` initialiser, an expression statement, `return`)
    def spine(self, e, want=None, okw=None):
        """`okw`: the type expected for the `Ok` value of `e` (known under a `?` whose value has an annotated type)"""
        while e.kind == 'paren': e = e.e
        if e.kind == 'try':
            inner = self.spine(e.e, okw=want)
            ty = resolve(inner[1])
            fr = resolve(self.ret_ty)
            if isinstance(ty, tuple) and ty[0] == 'resres' and isinstance(fr, tuple) and fr[0] == 'result':
                n = self.fresh('r')
                self.emit(f'let {n} : Res := {inner[0]}')
                back = self.mk_err(self.from_conv(ty[1], fr[2], n, e.line))
                self.emit(f'if {n} != Res.ok then {self.ctxs[-1].ret_packed(self, self.pack(back))} else')
                return ('()', 'unit', True)
            if not (isinstance(ty, tuple) and ty[0] == 'result'): self.bad(f'`?` on a value of type {self.show(ty)}', e.line)
            if not (isinstance(fr, tuple) and fr[0] == 'result'): self.bad('`?` in a function that does not return `Result`', e.line)
            ctx = self.ctxs[-1]
            if False:
                n = self.fresh('r')
                self.emit(f'let {n} : Res := {inner[0]}')
                back = self.mk_err(self.from_conv(ty[2], fr[2], n, e.line))
                self.emit(f'if {n} != Res.ok then {ctx.ret_packed(self, self.pack(back))} else')
                return ('()', 'unit', True)
            en, vn = self.fresh('e'), self.fresh('v')
            back = self.mk_err(self.from_conv(ty[2], fr[2], en, e.line))
            self.lt(ty)
            self.emit(f'match {inner[0]} with')
            self.emit(f'| .error {en} => {ctx.ret_packed(self, self.pack(back))}')
            if resolve(ty[1]) == 'unit':
                self.emit('| .ok _ =>')
                return ('()', 'unit', True)
            self.emit(f'| .ok {vn} =>')
            return (vn, ty[1], True)
        if e.kind == 'mcall' and e.name == 'map_err':
            inner = self.spine(e.recv, okw=okw)
            ty = resolve(inner[1])
            if not (isinstance(ty, tuple) and ty[0] == 'result'):
                self.bad(f'`.map_err` on a value of type {self.show(ty)}', e.line)
            if len(e.args) == 1 and e.args[0].kind == 'closure':
                c = e.args[0]
                if len(c.params) != 1: self.bad('`.map_err` closure arity', e.line)
                fr = resolve(self.ret_ty)
                if not (isinstance(fr, tuple) and fr[0] == 'result'): self.bad('`.map_err(closure)` in a function that does not return `Result`', e.line)
                self.scopes.append({})
                if c.params[0] != '_': self.declare(c.params[0], ty[2], False, 'local', c.line)
                body = self.expr(c.body, fr[2])
                self.scopes.pop()
                self.lt(ty[2])
                pn = '_' if c.params[0] == '_' else lname(c.params[0])
                return (f'Except.mapError (fun ({pn} : {self.lt(ty[2])}) => {body[0]}) {self.paren(inner)}',
                        ('result', ty[1], body[1]), False)
            if len(e.args) != 1 or e.args[0].kind != 'path': self.bad('`.map_err` whose argument is not the name of a function or a closure', e.line)
            full = self.crate.resolve(self.mod, self.local_uses, e.args[0].path)
            it = self.crate.item(full)
            if not (it and it[0] == 'fn' and not it[3] and it[1] == self.mod and it[2].body is not None):
                self.bad(f'`.map_err({"::".join(e.args[0].path)})`: not a function of this file', e.line)
            node = it[2]
            params, ret = self.fn_sig(it[1], node, e.line)
            info = getattr(node, 'info', None)
            if info is None or info['fuel'] or len(params) != 1: self.bad(f'`.map_err({node.name})`: unsuitable function', e.line)
            self.unify(params[0][1], ty[2], e.line, f'argument of `{node.name}`')
            self.deps.add(('fn', it[1], node.name))
            for imp in info['implicit']: self.need_implicit(imp)
            f = ' '.join([lname(node.name)] + info['implicit'])
            f = f if ' ' not in f else f'({f})'
            return (f'Except.mapError {f} {self.paren(inner)}', ('result', ty[1], ret), False)
        if e.kind == 'call' and e.f.kind == 'path':
            it = self.crate.item(self.crate.resolve(self.mod, self.local_uses, e.f.path))
            if it and it[0] == 'fn' and not it[3] and it[1] == self.mod and it[2].body is not None:
                info = getattr(it[2], 'info', None)
                if info is not None and (info['fuel'] or info['world']):
                    w = resolve(want) if want is not None else None
                    if okw is None and isinstance(w, tuple) and w[0] == 'result': okw = w[1]
                    return self.world_call(e, it[2], info, okw)
                if okw is not None and getattr(it[2], 'const_generics', None): return self.call_expr(e, want, okw)
        if e.kind == 'mcall' and e.name in IO_METHODS:
            rv = e.recv
            while rv.kind in ('paren', 'ref'): rv = rv.e
            v = self.lookup_opt(rv.path[0]) if rv.kind == 'path' and len(rv.path) == 1 else None
            if v is not None and resolve(v.ty) in ('reader', 'writer'):
                return self.io_call(e, v)
        if e.kind == 'mcall' and e.name in ('write', 'read_to_end', 'read_to_string', 'write_fmt', 'by_ref', 'bytes', 'take', 'chain'):
            rv = e.recv
            while rv.kind in ('paren', 'ref'): rv = rv.e
            v = self.lookup_opt(rv.path[0]) if rv.kind == 'path' and len(rv.path) == 1 else None
            if v is not None and resolve(v.ty) in ('reader', 'writer'):
                self.bad(f'I/O method `.{e.name}` (only read, read_exact, write_all, flush have a meaning in RsIO.lean)', e.line)
        return self.expr(e, want)

    def const_args(self, node, okw, line):
        """the values of the `const N: usize` parameters of the function `node` at a call: `N` must be the length of the array
        type the function returns (`[T; N]` or `Result<[T; N], _>`); its value is the length written in the array type
        expected at the call (`let x: [u8; 4] = f(..)?;`)"""
        out = []
        for name, ty, _ in getattr(node, 'const_generics', None) or []:
            ok = node.ret[1] if isinstance(node.ret, tuple) and node.ret[0] == 'result' else node.ret
            n = getattr(ok, 'n', None)
            if not (isinstance(ok, ArrTy) and n.kind == 'path' and n.path == [name]):
                self.bad(f'call of `{node.name}`: its const parameter `{name}` is not the length of the array it returns', line)
            w = resolve(okw) if okw is not None else None
            if not isinstance(w, ArrTy):
                self.bad(f'call of `{node.name}`: no array type annotation at the call fixes its const parameter `{name}`', line)
            r = self.expr(w.n)
            self.unify(r[1], 'usize', line, f'const parameter `{name}`')
            out.append(self.paren(self.expr(w.n)))
        return out

    def world_call(self, e, node, info, okw=None):
        """call of a translated function of this file that has `&mut` reader / writer parameters and / or a loop"""
        params, ret = self.fn_sig(self.mod, node, e.line)
        if len(params) != len(e.args): self.bad(f'`{node.name}` called with {len(e.args)} arguments', e.line)
        args, outs = [], []
        for a, (pn, pt) in zip(e.args, params):
            if isinstance(pt, tuple) and pt[0] == 'mutref':
                x = a
                while x.kind in ('paren', 'ref'): x = x.e
                v = self.lookup_opt(x.path[0]) if x.kind == 'path' and len(x.path) == 1 else None
                if v is None or resolve(v.ty) != pt[1] or not v.mutable:
                    self.bad(f'argument `{pn}` of `{node.name}`: a `&mut` {pt[1]} variable is needed', e.line)
                if v in outs: self.bad(f'`{v.name}` passed twice to `{node.name}`', e.line)
                args.append(lname(v.name)); outs.append(v)
            elif is_list(pt) and pt[2] == 'mutref':
                self.bad(f'call of `{node.name}`: `&mut [T]` arguments of functions with I/O are not supported', e.line)
            else:
                r = self.expr(a, pt)
                self.unify(r[1], pt, e.line, f'argument `{pn}` of `{node.name}`')
                args.append(self.paren(self.expr(a, pt)))
        self.deps.add(('fn', self.mod, node.name))
        for imp in info['implicit']: self.need_implicit(imp)
        fuels = self.take_fuel(len(info['fuel']))
        if info.get('ghost'): args.append(lname(self.the_reader(e.line).name))
        call = ' '.join([lname(node.name)] + info['implicit'] + self.const_args(node, okw, e.line) + args + fuels)
        r = self.fresh('r')
        tup = '(' + ', '.join([r] + [lname(v.name) for v in outs]) + ')' if outs else r
        if info['fuel']:
            self.emit(f'match {call} with')
            self.emit(f'| none => {self.ctxs[-1].out_of_fuel(self, e.line)}')
            self.emit(f'| some {tup} =>')
        else:
            self.emit(f'let {tup} := {call}')
        other = SFn(self.crate, self.mod, node)
        rty = ('resres', ret[2]) if other.res_encoded(ret) else ret
        return (r, rty, True)

    def take_fuel(self, n):
        out = self.fuel_names[self.fuel_i:self.fuel_i + n]
        if len(out) != n: self.bad('internal: fuel parameters miscounted')
        self.fuel_i += n
        return out

    def count_fuel(self, node):
        """iteration budgets this function needs: one per `loop`, plus those of the functions of this file it calls"""
        n = 0
        if node.kind == 'loop': n += 1
        if node.kind == 'call' and node.f.kind == 'path':
            it = self.crate.item(self.crate.resolve(self.mod, self.local_uses, node.f.path))
            if it and it[0] == 'fn' and not it[3] and it[1] == self.mod and getattr(it[2], 'info', None):
                n += len(it[2].info['fuel'])
        return n + sum(self.count_fuel(c) for c in children(node))

    def mk_err(self, text):
        fr = resolve(self.ret_ty)
        return text if self.res_encoded(fr) else f'Except.error {text if " " not in text else "(" + text + ")"}'

    def from_conv(self, src, dst, text, line):
        """`From::from(text)` from error type src to dst"""
        src, dst = resolve(src), resolve(dst)
        if src == dst: return text
        for i, fnode in enumerate(self.crate.mods['errors'].items['froms']):
            other = SFn(self.crate, 'errors', fnode.fn)
            if resolve(other.sem(fnode.src)) == src and resolve(other.sem(fnode.dst)) == dst:
                self.deps.add(('from', i))
                return f'{self.item_ref("errors", from_name(fnode))} {text}'
        self.bad(f'`?` needs `impl From<{self.show(src)}> for {self.show(dst)}`, which was not found in errors.rs', line)

    def the_reader(self, line):
        seen, out = set(), []
        for sc in reversed(self.scopes):
            for name, v in sc.items():
                if name in seen: continue
                seen.add(name)
                if resolve(v.ty) == 'reader': out.append(v)
        if not out and self.ghost_ok and self.scopes:
            # a function that writes but has no reader of its own (a helper extracted from a function that has both): the
            # reader whose position the write log records becomes an extra, ghost parameter that every caller supplies
            # with the reader in ITS scope
            self.counter += 1
            v = B.Var(GHOST_READER, 'reader', False, self.counter, 'ghost')
            self.scopes[0][GHOST_READER] = v
            self.ghost = v
            return v
        if len(out) != 1:
            self.bad('a write needs exactly one reader in scope (the write log records where it stands); found '
                     + str(len(out)), line)
        return out[0]

    def io_call(self, e, v):
        kind, glue, argk, rty = IO_METHODS[e.name]
        if resolve(v.ty) != kind: self.bad(f'`.{e.name}` on a {resolve(v.ty)}', e.line)
        if not v.mutable: self.bad(f'`.{e.name}` on `{v.name}`, which is not `&mut`', e.line)
        if len(e.args) != (0 if argk is None else 1): self.bad(f'`.{e.name}` arity', e.line)
        t = self.fresh('io')
        n = lname(v.name)
        if argk is None:
            self.emit(f'let ({t}, {n}) := {glue} {n}')
        elif argk == 'data':
            d = self.expr(e.args[0])
            self.unify(d[1], ('list', 'u8', 'ref'), e.line, f'argument of `.{e.name}`')
            at = self.the_reader(e.line)
            self.emit(f'let ({t}, {n}) := {glue} {n} {lname(at.name)} {self.paren(d)}')
        else:
            a = e.args[0]
            inner = a
            while inner.kind in ('paren',): inner = inner.e
            core = inner.e if inner.kind == 'ref' else inner
            while core.kind == 'paren': core = core.e
            is_place = (core.kind == 'path' and len(core.path) == 1) or \
                (core.kind == 'index' and core.ix.kind == 'range' and core.e.kind == 'path' and len(core.e.path) == 1)
            if is_place:
                bv, read, wb, ty, sub = self.place(a, f'argument of `.{e.name}`')
                self.unify(ty, ('list', 'u8', 'mutref'), e.line, f'argument of `.{e.name}`')
                bn = lname(bv.name)
                if sub:
                    self.emit(f"let ({t}, {n}, {bn}') := {glue} {n} ({read})")
                    self.emit(f"let {bn} := {wb(bn + chr(39))}")
                else:
                    self.emit(f'let ({t}, {n}, {bn}) := {glue} {n} {read}')
            else:
                if not (inner.kind == 'ref' and inner.mut): self.bad(f'argument of `.{e.name}` is not `&mut`', e.line)
                r = self.expr(core, ('list', 'u8', 'own'))
                self.unify(r[1], ('list', 'u8', 'own'), e.line, f'argument of `.{e.name}`')
                r = self.expr(core, ('list', 'u8', 'own'))
                self.emit(f'let ({t}, {n}, _) := {glue} {n} {self.paren(r)}')     # a temporary buffer: contents dropped
        self.io_used = True
        return (t, rty, True)

    # ---- which outer variables do these statements assign?
    def assigned(self, blocks):
        found = {}
        tr = self

        def note(name, local, line):
            if name is None or name in local: return
            v = tr.lookup_opt(name)
            if v is None: tr.bad(f'unknown variable `{name}`', line)
            if v.kind == 'alias':                # a write through `let x = &mut v[..]` made outside these blocks goes to `v`
                v = v.alias[1][place_name(v.alias[0])]
            found.setdefault(v.order, v)        # order of first assignment: independent of where the variables are declared

        def place_name(e):
            while e.kind in ('ref', 'paren'): e = e.e
            if e.kind == 'index': e = e.e
            while e.kind == 'paren': e = e.e
            return e.path[0] if e.kind == 'path' and len(e.path) == 1 else None

        def walk(x, local):
            if isinstance(x, (list, tuple)):
                for y in x: walk(y, local)
                return
            if not isinstance(x, Node): return
            k = x.kind
            if k == 'block':
                inner = set(local)
                for s in x.stmts: walk(s, inner)
                if x.tail is not None: walk(x.tail, inner)
                return
            if k == 'let':
                walk(x.init, local)
                local.add(x.name); return       # (`let x = &mut v[..]`: the `&mut` has just marked `v` as assigned)
            if k == 'lettuple':
                walk(x.init, local); local.update(n for n in x.names if n != '_'); return
            if k == 'for':
                walk(x.iter, local)
                inner = set(local) | {n for n in x.pat if n != '_'}
                walk(x.body, inner); return
            if k == 'assign':
                n = place_name(x.place)
                if n is None: tr.bad('assignment to something other than a variable, an element or a range slice of it', x.line)
                note(n, local, x.line)
            elif k == 'ref' and x.mut:
                note(place_name(x.e), local, x.line)
            elif k == 'mcall' and x.name in ('copy_from_slice', 'clone_from', 'split_at_mut'):
                note(place_name(x.recv), local, x.line)
            elif k == 'mcall' and x.name in IO_METHODS:
                n = place_name(x.recv)
                if n is not None and n not in local:
                    v = tr.lookup_opt(n)
                    if v is not None and resolve(v.ty) in ('reader', 'writer'): note(n, local, x.line)
            elif k == 'call' and x.f.kind == 'path':
                it = tr.crate.item(tr.crate.resolve(tr.mod, tr.local_uses, x.f.path))
                if it and it[0] == 'fn' and it[2].params is not None:
                    for a, (pn, pt, pl) in zip(x.args, it[2].params):
                        if isinstance(pt, tuple) and (pt[0] == 'mutref' or (pt[0] == 'list' and pt[2] == 'mutref')):
                            note(place_name(a), local, x.line)
            for c in children(x): walk(c, local)

        for b in blocks:
            if b is not None: walk(b, set())
        return list(found.values())

    def referenced(self, block):
        """outer variables a block mentions (over-approximation: by name), plus the reader when it writes"""
        names = set(B.free_vars(block))
        out = {}
        for n in names:
            v = self.lookup_opt(n)
            if v is not None: out[v.order] = v
        if self.writes_inside(block):
            v = self.the_reader(block.line)
            out[v.order] = v
        return [out[k] for k in sorted(out)]

    def writes_inside(self, node):
        if node.kind == 'mcall' and node.name in IO_METHODS and IO_METHODS[node.name][2] == 'data': return True
        if node.kind == 'call' and node.f.kind == 'path':
            it = self.crate.item(self.crate.resolve(self.mod, self.local_uses, node.f.path))
            if it and it[0] == 'fn' and not it[3] and (getattr(it[2], 'info', None) or {}).get('ghost'): return True
        return any(self.writes_inside(c) for c in children(node))

    # ---- statements
    def stmt(self, s):
        if s.kind == 'let': return self.let_stmt(s)
        if s.kind == 'lettuple': return self.lettuple_stmt(s)
        if s.kind == 'use':
            self.local_uses.update(s.uses); return
        if s.kind == 'for': self.bad('`for` loop', s.line)
        e = s.e
        while e.kind == 'paren': e = e.e
        if e.kind == 'assert': self.bad(f'`{e.what}!`', e.line)
        if e.kind == 'assign':
            if contains(e.e, ('try',)) or self.io_inside(e.e): self.bad('assignment whose right-hand side has effects', e.line)
            return self.assign_stmt(e)
        if e.kind == 'mcall' and e.name == 'copy_from_slice': return self.call_stmt(e)
        if e.kind == 'mcall' and e.name == 'clone_from':
            if len(e.args) != 1: self.bad('`.clone_from` arity', e.line)
            v, read, wb, ty, sub = self.place(e.recv, 'receiver of clone_from')
            if sub: self.bad('`.clone_from` on a sub-slice', e.line)
            r = self.expr(e.args[0])
            self.unify(r[1], ty, e.line, 'clone_from')
            self.emit(f'let {lname(v.name)} := {r[0]}')
            return
        sw = self.swap_args(e)
        if sw is not None:                                              # `std::mem::swap(&mut a, &mut b)`: a, b := b, a
            a, b = sw
            ty = self.unify(a.ty, b.ty, e.line, '`std::mem::swap`')
            t = self.lt(ty)
            t = t if ' ' not in t else f'({t})'
            self.emit(f'let ({lname(a.name)}, {lname(b.name)}) : {t} × {t} := ({lname(b.name)}, {lname(a.name)})')
            return
        before = len(self.lines)
        r = self.spine(e)
        ty = resolve(r[1])
        if isinstance(ty, tuple) and ty[0] == 'result': self.bad('a `Result` that is neither `?`-ed nor bound', e.line)
        if len(self.lines) == before: self.bad('expression statement without effect', e.line)

    def split_mut_parts(self, init):
        """(variable node, lo, hi, k) when `init` is `v.split_at_mut(k)` / `v[lo..hi].split_at_mut(k)` (with or without `&mut`)
        for a mutable slice variable `v`, else None"""
        x = init
        while x.kind == 'paren': x = x.e
        if not (x.kind == 'mcall' and x.name == 'split_at_mut' and len(x.args) == 1): return None
        r = x.recv
        while r.kind in ('paren', 'ref'): r = r.e
        rng = None
        if r.kind == 'index' and r.ix.kind == 'range': r, rng = r.e, r.ix
        while r.kind == 'paren': r = r.e
        if not (r.kind == 'path' and len(r.path) == 1): return None
        v = self.lookup_opt(r.path[0])
        if v is None or v.kind == 'alias' or not is_list(v.ty): return None
        return (r, rng.lo if rng is not None else None, rng.hi if rng is not None else None, x.args[0])

    def split_mut_stmt(self, s, parts):
        """`let (a, b) = v[lo..hi].split_at_mut(k);`: `a` is another name for `v[lo..lo + k]` and `b` for `v[lo + k..hi]`
        (reads and writes go to `v`, exactly as for `let x = &mut v[a..b];`)"""
        vnode, lo, hi, k = parts
        if s.ty is not None or len(s.names) != 2: self.bad('`.split_at_mut` bound to something other than an untyped pair', s.line)
        target = self.lookup(vnode.path[0], s.line)
        if not target.mutable: self.bad(f'`&mut` borrow of `{target.name}`, which is not mutable', s.line)
        frozen = {target.name: target}
        for node in (lo, hi, k):
            for name in (B.free_vars(node) if node is not None else []):
                var = self.lookup_opt(name)
                if var is None:
                    frozen[name] = None; continue
                if var.mutable or var.kind == 'alias':
                    self.bad(f'`{target.name}[..].split_at_mut(..)` with a bound that mentions the mutable variable `{name}`', s.line)
                frozen[name] = var
        mid = k if lo is None else Node('bin', s.line, op='+', l=lo, r=k)
        ranges = [Node('range', s.line, lo=lo, hi=mid), Node('range', s.line, lo=mid, hi=hi)]
        for name, rng in zip(s.names, ranges):
            if name == '_': continue
            v = self.declare(name, ('list', resolve(target.ty)[1], 'mutref'), True, 'alias', s.line)
            v.alias = (Node('index', s.line, e=vnode, ix=rng), frozen)
            self.alias_place(v, s.line)                                 # type-checks the bounds now

    def swap_args(self, e):
        """the two variables when `e` is `std::mem::swap(&mut a, &mut b)` (the path is resolved through the `use`s), else None"""
        if not (e.kind == 'call' and e.f.kind == 'path'): return None
        if self.crate.resolve(self.mod, self.local_uses, e.f.path) != ('std', 'mem', 'swap'): return None
        if len(e.f.path) == 1 and self.lookup_opt(e.f.path[0]) is not None: return None
        if len(e.args) != 2: self.bad('`std::mem::swap` arity', e.line)
        out = []
        for a in e.args:
            x = a
            while x.kind == 'paren': x = x.e
            if not (x.kind == 'ref' and x.mut): self.bad('`std::mem::swap`: the arguments must be `&mut variable`', e.line)
            x = x.e
            while x.kind == 'paren': x = x.e
            if not (x.kind == 'path' and len(x.path) == 1): self.bad('`std::mem::swap`: the arguments must be `&mut variable`', e.line)
            v = self.lookup(x.path[0], e.line)
            if v.kind != 'local' or not v.mutable or resolve(v.ty) in ('reader', 'writer'):
                self.bad(f'`std::mem::swap` of `{v.name}`, which is not a `let mut` variable', e.line)
            out.append(v)
        if out[0] is out[1]: self.bad('`std::mem::swap` of a variable with itself', e.line)
        return out

    def lettuple_stmt(self, s):
        parts = self.split_mut_parts(s.init)
        if parts is not None: return self.split_mut_stmt(s, parts)
        want = self.sem(s.ty, s.line) if s.ty is not None else None
        r = self.spine(s.init, want)
        ty = resolve(r[1])
        if want is not None: ty = resolve(self.unify(r[1], want, s.line, '`let (..)`'))
        if not (isinstance(ty, tuple) and ty[0] == 'tuple' and len(ty[1]) == len(s.names)):
            self.bad(f'`let ({", ".join(s.names)})` of a value of type {self.show(ty)}', s.line)
        vs = []
        for n, t in zip(s.names, ty[1]):
            if resolve(t) in ('reader', 'writer'): self.bad('binding a reader / writer to a new name', s.line)
            vs.append('_' if n == '_' else lname(self.declare(n, t, False, 'local', s.line).name))
        self.emit(f'let ({", ".join(vs)}) : {self.lt(ty)} := {r[0]}')

    def let_stmt(self, s):
        if s.name == '_': self.bad('`let _`', s.line)
        node = self.alias_target(s.init) if s.ty is None and not s.mut else None
        if node is not None:
            base = node.e if node.kind == 'index' else node
            target = self.lookup(base.path[0], s.line)
            if not target.mutable: self.bad(f'`&mut` borrow of `{target.name}`, which is not mutable', s.line)
            frozen = {target.name: target}
            for name in (B.free_vars(node.ix) if node.kind == 'index' else []):
                var = self.lookup_opt(name)
                if var is None:                                         # a `const` item: must not get hidden by a local later
                    frozen[name] = None; continue
                if var.mutable or var.kind == 'alias':
                    self.bad(f'`&mut {target.name}[..]` with a bound that mentions the mutable variable `{name}`', s.line)
                frozen[name] = var
            v = self.declare(s.name, ('list', resolve(target.ty)[1], 'mutref'), True, 'alias', s.line)
            v.alias = (node, frozen)
            self.alias_place(v, s.line)                                 # type-checks the bounds now
            return
        want = self.sem(s.ty, s.line) if s.ty is not None else None
        r = self.spine(s.init, want)
        ty = r[1]
        if want is not None:
            ty = self.unify(r[1], want, s.line, f'`let {s.name}`')
        tv = resolve(ty)
        if tv in ('reader', 'writer'): self.bad('binding a reader / writer to a new name', s.line)
        v = self.declare(s.name, ty, s.mut, 'local', s.line)
        asc = '' if isinstance(tv, IntVar) else f' : {self.lt(tv)}'
        self.emit(f'let {lname(v.name)}{asc} := {r[0]}')

    def world_call_node(self, e):
        if e.kind == 'call' and e.f.kind == 'path':
            it = self.crate.item(self.crate.resolve(self.mod, self.local_uses, e.f.path))
            if it and it[0] == 'fn' and not it[3] and it[1] == self.mod and it[2].body is not None:
                info = getattr(it[2], 'info', None)
                return info is not None and bool(info['fuel'] or info['world'])
        return False

    def effectful(self, e):
        if e is None: return False
        if e.kind == 'try' or (e.kind == 'mcall' and e.name in IO_METHODS) or self.world_call_node(e): return True
        return any(self.effectful(c) for c in children(e))

    def ret_any(self, e, line):
        """the value of `return e;` / of the final expression `e` of the function; `e` may have effects at its root
        (`f(..)` for a translated function that does I/O, `x.read(..).map_err(g)`, `…?`)"""
        if not self.effectful(e): return self.ret_value(e, line)
        r = self.spine(e, self.ret_ty)
        rt, fr = resolve(r[1]), resolve(self.ret_ty)
        if isinstance(rt, tuple) and rt[0] == 'resres':
            if self.res_encoded(fr) and resolve(fr[2]) == resolve(rt[1]): return r[0]
            self.bad('returned value: the result of a translated function with another error type', line)
        if self.res_encoded(fr): self.bad('returned value: a `Result<(), E>` that is not `Ok(())`, `Err(e)` or the result of a translated function', line)
        self.unify(rt, fr, line, 'returned value')
        return r[0]

    def ret_value(self, e, line):
        if e is None:
            if resolve(self.ret_ty) != 'unit': self.bad('`return;` in a function with a result', line)
            return '()'
        if contains(e, ('try',)) or self.io_inside(e): self.bad('`return` of an expression with effects', line)
        if self.res_encoded(self.ret_ty):
            fr = resolve(self.ret_ty)
            x = e
            while x.kind == 'paren': x = x.e
            if x.kind == 'call' and x.f.kind == 'path' and x.f.path in (['Ok'], ['Err']) and len(x.args) == 1:
                w = fr[1] if x.f.path == ['Ok'] else fr[2]
                r = self.expr(x.args[0], w)
                self.unify(r[1], w, line, f'argument of `{x.f.path[0]}`')
                return 'Res.ok' if x.f.path == ['Ok'] else self.expr(x.args[0], w)[0]
            r = self.expr(e)
            rt = resolve(r[1])
            if isinstance(rt, tuple) and rt[0] == 'resres' and rt[1] == fr[2]: return r[0]
            self.bad('returned value: only `Ok(())`, `Err(e)` or the result of a translated function', line)
        r = self.expr(e, self.ret_ty)
        self.unify(r[1], self.ret_ty, line, 'returned value')
        return self.expr(e, self.ret_ty)[0]

    def block(self, blk, ctx, fn_level=False):
        """emit the statements of `blk` followed by the value of the block in context `ctx`"""
        self.scopes.append({})
        state = getattr(ctx, 'state', None)
        if state is not None: self.tracked.append((len(self.scopes) - 1, state))
        if fn_level: self.tracked.append((len(self.scopes) - 1, self.world()))
        self.ctxs.append(ctx)
        stmts, tail = list(blk.stmts), blk.tail
        if tail is not None and (tail.kind in ('if', 'loop') or (tail.kind == 'match' and contains(tail, ('block',)))) \
                and (ctx.stmt_tail or resolve(self.ret_ty) == 'unit'):
            stmts.append(Node('expr', tail.line, e=tail)); tail = None
        if tail is not None and not fn_level: self.bad('block ending in an expression', tail.line)
        closers, terminated = 0, False
        depth0 = self.depth
        for i, s in enumerate(stmts):
            last = i == len(stmts) - 1 and tail is None
            if terminated: self.bad('statement after `return` / `break` / `continue`', s.line)
            self.comment(s.line)
            inner = s.e if s.kind == 'expr' else None
            while inner is not None and inner.kind == 'paren': inner = inner.e
            if inner is not None and inner.kind == 'match': inner = self.match_to_if(inner)
            if s.kind == 'return':
                val = self.ret_any(s.e, s.line)
                self.emit(ctx.ret_packed(self, self.pack(val))); terminated = True
            elif s.kind == 'break':
                self.emit(ctx.brk(self, s.line)); terminated = True
            elif s.kind == 'continue':
                self.emit(ctx.cont(self, s.line)); terminated = True
            elif inner is not None and inner.kind == 'if':
                if not contains(inner, EXIT_KINDS): self.if_pure(inner)
                elif last and not fn_level:
                    self.if_chain(inner, ctx); terminated = True
                else:
                    self.if_step(inner, ctx); closers += 1
            elif inner is not None and inner.kind == 'loop':
                self.loop_stmt(inner, ctx)
            else:
                self.stmt(s)
        if not terminated:
            if fn_level:
                if tail is not None:
                    self.comment(tail.line)
                    val = self.ret_any(tail, tail.line)
                    self.emit(ctx.ret_packed(self, self.pack(val)))
                elif resolve(self.ret_ty) == 'unit':
                    self.emit(ctx.ret_packed(self, self.pack('()')))
                else: self.bad('missing result expression', blk.line)
            else:
                self.emit(ctx.fall(self))
        if closers:
            self.depth = depth0
            self.emit(')' * closers)
        self.depth = depth0
        self.ctxs.pop()
        if fn_level: self.tracked.pop()
        if state is not None: self.tracked.pop()
        self.scopes.pop()

    def match_to_if(self, e):
        """normalisation of a `match` statement on a field-less enum (its value, if any, is not used):
               match s { P1 => b1, …, Pn => bn }     (exhaustive, or closed by `_`; checked here)
           is  if s == P1 { b1 } else if … else { bn };   `s` is evaluated once: when it is not a variable it is bound first
           (`let m'k = s;`, effects at its root allowed as in any `let`).  Returns the `if` node."""
        sc = e.scrut
        while sc.kind == 'paren': sc = sc.e
        v = self.lookup_opt(sc.path[0]) if sc.kind == 'path' and len(sc.path) == 1 else None
        if v is None or v.kind == 'alias':
            name = self.fresh('m')
            self.let_stmt(Node('let', e.line, name=name, mut=False, ty=None, init=e.scrut))
            v = self.lookup(name, e.line)
        st = resolve(v.ty)
        names = self.match_variants(st, e.line)
        if len(e.arms) < 2: self.bad('`match` statement with fewer than two arms', e.line)
        covered, conds = [], []
        for i, (pat, body) in enumerate(e.arms):
            if pat is None:
                if i != len(e.arms) - 1: self.bad('`match` arm after `_`', e.line)
                conds.append(None); continue
            if not isinstance(pat, list): self.bad(f'`match` on {self.show(st)} with a `Some(..)` pattern', e.line)
            pv = self.path_expr(Node('path', e.line, path=pat))
            if resolve(pv[1]) != st or pat[-1] not in names: self.bad('`match` pattern that is not a variant of the matched type', e.line)
            if pat[-1] in covered: self.bad(f'`match` with two arms for `{pat[-1]}`', e.line)
            covered.append(pat[-1])
            conds.append(Node('bin', e.line, op='==', l=Node('path', e.line, path=[v.name]), r=Node('path', e.line, path=pat)))
        if conds[-1] is not None and set(covered) != set(names):
            self.bad('`match` that is neither exhaustive nor closed by a `_` arm', e.line)

        def blockify(body):
            if body.kind == 'block':
                if body.tail is not None: self.bad('`match` statement whose arm has a value', body.line)
                return body
            return Node('block', body.line, stmts=[Node('expr', body.line, e=body)], tail=None)

        node = blockify(e.arms[-1][1])                                   # the last arm is the final `else`
        for (pat, body), c in reversed(list(zip(e.arms[:-1], conds[:-1]))):
            els = node if node.kind == 'block' else Node('block', node.line, stmts=[], tail=node)
            node = Node('if', body.line, cond=c, then=blockify(body), els=els)
        return node

    def if_chain(self, e, ctx):
        """`if c { A } else if d { B } else { C }` as a Lean term of the type of `ctx`"""
        c = self.expr(e.cond)
        if resolve(c[1]) != 'bool': self.bad('`if` condition is not a boolean', e.line)
        self.emit(f'if {c[0]} then (')
        self.depth += 1
        self.block(e.then, ctx)
        self.depth -= 1
        self.emit(') else (')
        self.depth += 1
        if e.els is None:
            self.emit(ctx.fall(self))
        elif not e.els.stmts and e.els.tail is not None and e.els.tail.kind == 'if':
            self.comment(e.els.tail.line)
            self.if_chain(e.els.tail, ctx)
        else:
            self.block(e.els, ctx)
        self.depth -= 1
        self.emit(')')

    def if_pure(self, e):
        state = self.assigned(self.branches(e))
        if not state: self.bad('`if` statement that assigns nothing and never leaves the block', e.line)
        self.emit(f'let {self.state_text(state)} : {self.state_ty(state)} :=')
        self.depth += 1
        self.if_chain(e, PureCtx(self, state))
        self.depth -= 1

    def branches(self, e):
        out = [e.then]
        if e.els is not None:
            if not e.els.stmts and e.els.tail is not None and e.els.tail.kind == 'if': out += self.branches(e.els.tail)
            else: out.append(e.els)
        return out

    def if_step(self, e, ctx):
        state = self.assigned(self.branches(e))
        sctx = StepCtx(self, ctx, state)
        self.emit(f'Rs.Step.andThen (α := {self.state_ty(state)}) (τ := {ctx.ty}) (')
        self.depth += 2
        self.if_chain(e, sctx)
        self.depth -= 1
        self.emit(f') (fun {self.state_text(state)} =>')

    def loop_stmt(self, e, ctx):
        body = e.body
        state = self.assigned([body])
        captured = [v for v in self.referenced(body) if v not in state]
        self.loops += 1
        k = self.loops
        fuel = self.take_fuel(1)[0]
        name = f'{self.lean_name}.loop{k}'
        rho = self.rho()
        lctx = LoopCtx(self, state, rho)
        saved = (self.lines, self.depth, self.last_comment_line)
        self.lines, self.depth, self.last_comment_line = [], 1, None
        self.emit(f'fun {self.state_text(state)} =>')
        imp_before = set(self.implicit_used)
        self.implicit_used = set()
        self.block(body, lctx)
        imp = [i for i in IMPLICIT if i in self.implicit_used]
        self.implicit_used |= imp_before
        body_lines = self.lines
        self.lines, self.depth, self.last_comment_line = saved
        params = ''.join(f' ({i} : {IMPLICIT[i]})' for i in imp) + ''.join(f' ({lname(v.name)} : {self.lt(v.ty)})' for v in captured)
        sty = self.state_ty(state)
        head = [f'/-- body of the `loop` at {self.module.label.rsplit("/", 1)[1]} line {e.line} of `{self.fn.name}`; its argument is the tuple of the outer',
                f'    variables the body assigns ({", ".join(v.name for v in state)}) -/',
                f'def {name}{params} :',
                f'    {sty} → Rs.Flow ({sty}) ({rho}) :=']
        self.lifted.append('\n'.join(head + body_lines))
        args = ''.join(f' {i}' for i in imp) + ''.join(f' {lname(v.name)}' for v in captured)
        fn_text = f'({name}{args})' if args else name
        r = self.fresh('r')
        self.emit(f'match Rs.loop {fn_text} {fuel} {self.state_text(state)} with')
        self.emit(f'| .ret {r} => {ctx.ret_packed(self, r)}')
        self.emit(f'| .outOfFuel => {ctx.out_of_fuel(self, e.line)}')
        self.emit(f'| .brk {self.state_text(state)} =>')

    # ---- whole function
    def run(self):
        fn = self.fn
        if fn.sig_error is not None: raise fn.sig_error
        if fn.body_error is not None: raise fn.body_error
        if fn.body is None: self.bad('function without a parsed body', fn.line)
        self.lines, self.depth, self.depth_loops, self.last_comment_line = [], 1, 0, None
        self.scopes, self.tracked, self.ctxs, self.lifted = [{}], [], [], []
        self.counter = self.temps = self.loops = 0
        self.implicit_used, self.io_used = set(), False
        self.local_uses = {}
        self.ghost = None
        n_fuel = self.count_fuel(fn.body)
        self.fuel_names = ['fuel'] if n_fuel == 1 else [f'fuel{i + 1}' for i in range(n_fuel)]
        self.fuel_i = 0
        self.has_fuel = n_fuel > 0
        self.ret_ty = self.sem(fn.ret, fn.line)
        self.params_v, ptexts = [], []
        resolve_deferred(fn.body)
        for cn, ct, cl in getattr(fn, 'const_generics', None) or []:      # `const N: usize` is an explicit parameter
            if self.sem(ct, cl) != 'usize': self.bad(f'const parameter `{cn}` of a type other than usize', cl)
            ptexts.append(f'({lname(self.declare(cn, "usize", False, "param", cl).name)} : Nat)')
        for pn, pt, pl in fn.params:
            t = self.sem(pt, pl)
            if isinstance(t, tuple) and t[0] == 'mutref':
                if t[1] not in ('reader', 'writer'): self.bad(f'parameter `{pn}`: `&mut` of {self.show(t[1])}', pl)
                v = self.declare(pn, t[1], True, 'mutref', pl)
            elif t in ('reader', 'writer'): self.bad(f'parameter `{pn}`: reader / writer passed by value', pl)
            else:
                mutable = is_list(t) and t[2] == 'mutref'
                v = self.declare(pn, t, mutable, 'mutref' if mutable else 'param', pl)
            self.params_v.append(v)
            ptexts.append(f'({lname(pn)} : {self.lt(v.ty)})')
        fuels = self.fuel_names
        n_explicit = len(ptexts)
        ptexts += [f'({f} : Nat)' for f in fuels]
        self.block(fn.body, FnCtx(self), fn_level=True)
        if self.ghost is not None: ptexts.insert(n_explicit, f'({GHOST_READER} : Src)')
        imp = [i for i in IMPLICIT if i in self.implicit_used]
        ptexts = [f'({i} : {IMPLICIT[i]})' for i in imp] + ptexts
        sig_src = ' '.join(x.strip() for x in self.src_lines[fn.line - 1:fn.body.line]).rstrip('{').strip()
        fname = self.module.label.rsplit('/', 1)[1]
        doc = f'/-- `{sig_src}` ({fname} line {fn.line}) -/'
        head = (f'{self.attr}def {self.lean_name} {" ".join(ptexts)} : {self.block_ty()} :=' if ptexts
                else f'{self.attr}def {self.lean_name} : {self.block_ty()} :=')
        fn.info = dict(fuel=fuels, implicit=imp, world=bool(self.world()), ghost=self.ghost is not None)
        return self.lifted + [doc + '\n' + head + '\n' + '\n'.join(self.lines)]


def count_kind(node, kind):
    if node is None: return 0
    return (1 if node.kind == kind else 0) + sum(count_kind(c, kind) for c in children(node))


def contains_map_err(node):
    if node.kind == 'mcall' and node.name == 'map_err': return True
    return any(contains_map_err(c) for c in children(node))


def from_name(fnode):
    def nm(t): return t[1][-1] if isinstance(t, tuple) and t[0] == 'named' else str(t)
    return f'From_{nm(fnode.src)}_for_{nm(fnode.dst)}'


# ------------------------------------------------------------------------------------------------ driver

HEADER = '''/-
  GENERATED by tools/rs2lean_stream.py -- do not edit.
{sources}
  functions : {functions}
  Shallow embedding, one `def` per Rust `fn` (plus one per `loop` body), statement by statement: each group of lines is
  preceded by the Rust line it comes from.  The combinators and the I/O glue are hand-written in KestrelModel/RsPrelude.lean
  and KestrelModel/RsIO.lean (read their headers first).
  * usize, u64, u32 are `Nat`.  This is faithful as long as no value leaves its range, which holds under these side
    conditions: `chunk_size : u32` (so chunk_size < 2^32 and `chunk_size + TAG_SIZE`, `aad.len() + 8` do not overflow a 64-bit
    usize), fewer than 2^64 chunks (`chunk_number += 1` on a u64), and no subtraction below zero (there is none).
    `x as u32` is `Rs.truncU32 x = x % 2^32` (lossless for `prev_read as u32` because prev_read <= chunk_size < 2^32).
    `to_be_bytes` is `be64` on a u64 and `be32` on a u32 (both reduce modulo the width); `u32::from_be_bytes` is `beVal`.
  * u8 is UInt8, bool is Bool (comparisons are Bool-valued: `==`, `!=`, `decide (a < b)`), slices / arrays / `Vec`s are `List`s
    with the slice and `copy_from_slice` readings of rs2lean_scrypt.py; `.clone()`, `.as_slice()`, `&`, `*` and
    `.try_into().unwrap()` (widening, or slice to array) are the identity; `a.clone_from(&b)` is `a := b`.
    Rust panics (slice out of range, length mismatch, `unwrap` of an error, a key that is not 32 bytes inside the AEAD) are
    totalised as described in RsPrelude.lean.
  * `T: Read` is a scripted `Kestrel.Src`, `U: Write` a scripted `Kestrel.Snk`, `std::io::Error` is `RsIO.IoError`; the four
    methods read / read_exact / write_all / flush are `RsIO.read` / `readExact` / `writeAll` / `flush`.  A write also gets the
    reader that is in scope (the sink's write log records where the source stood: ghost state).
  * A function returns (Rust result, final values of its `&mut` parameters in parameter order).  `Result<(), E>` for the error
    enums EncryptError / DecryptError is `Kestrel.Res` (`Ok(())` = `Res.ok`, `Err(E::V(..))` = the constructor assigned to `V`
    by the table RES_VARIANT of the translator; payloads are not modelled); any other `Result<T, E>` is `Except E T`.
    `e?` is `match e with | .error x => return Err(From::from(x)) | .ok v => …`, `From::from` being the identity or the
    `impl From` found in errors.rs; `.map_err(f)` is `Except.mapError f`.
  * `loop` is `Rs.loop body fuel state`: the body is the definition `<fn>.loop<k>` over the tuple of outer variables it
    assigns, the function has a parameter `fuel` and returns `Option`: `none` = the iteration budget ran out.
    An `if` that can leave its block and is not last in it is `Rs.Step.andThen (if …) (fun assigned-variables => rest)`.
  * A `const` item and a helper function (translated only because one of the functions listed above calls it) are `@[simp]`:
    proofs see through them (`rs_unfold`), so naming a literal or extracting a helper changes nothing for them.  A helper that
    writes but has no reader gets the reader whose position the write log records as a ghost parameter `reader'`.
    `let x = &mut v[a..b];` makes `x` another name for that part of `v`; `(a, b)` is a pair; `u32::from(b)` for a bool is
    `if b then 1 else 0`.
  * External crate functions (argument and result types read from lib.rs): `chapoly_encrypt_noise` / `chapoly_decrypt_noise`
    are `A.enc` / `A.dec` of a parameter `A : Kestrel.Aead`; `scrypt`, `hkdf_sha256`, `noise_encrypt`, `noise_decrypt` are
    `RsIO.scrypt` / `hkdfSha256` / `noiseEncrypt` / `noiseDecrypt` over a parameter `P : Kestrel.Prims`; `secure_random(n)` is
    `rand n` for a parameter `rand : Nat → List UInt8`.  `PrivateKey` / `PublicKey` / `PayloadKey` are their bytes
    (`X::new`, `.as_bytes()` = identity; the 32-byte check of `PayloadKey::new` is a panic, not modelled); `Zeroizing::new` is
    the identity; `NoiseEncryptMsg` / `NoiseDecryptMsg` are the structures of RsIO.lean; `Option` is `Option`,
    `if let Some(x) = o {{ a }} else {{ b }}` is `match o with | some x => a | none => b`; a closure `|x| e` is `fun x => e`.
    A call of a translated function that does I/O or loops is `match f … fuel with | none => none | some (r, …) => …`.
-/
import KestrelModel.RsIO
import KestrelModel.Chunks
set_option linter.unusedVariables false
namespace Kestrel.StreamSrc
open Kestrel
'''


def call_graph(mod, fn):
    names = set()

    def go(x):
        if isinstance(x, Node):
            if x.kind == 'path' and len(x.path) == 1 and x.path[0] in mod.items['fns'] and x.path[0] != fn.name:
                names.add(x.path[0])
            for c in children(x): go(c)
    if fn.body is not None: go(fn.body)
    return [n for n in mod.items['order'] if n in names]


def translate_fn(crate, modname, fn, lean_name=None, attr=''):
    try:
        first = SFn(crate, modname, fn, lean_name)           # first pass fixes the types of untyped literals
        first.ghost_ok = True
        first.run()
        tr = SFn(crate, modname, fn, lean_name)
        tr.attr, tr.ghost_ok = attr, True
        return tr.run(), tr.deps
    except Unsupported as u:
        if not getattr(u, 'fn', None): u.fn = f'{qual(modname, fn.name)}'
        raise


def translate(crate, targets):
    deps_all = set()
    mod_chunks = {}
    done = set()

    def visit(modname, name, stack):
        if (modname, name) in done: return
        mod = crate.mods[modname]
        fn = mod.items['fns'].get(name)
        if fn is None:
            u = Unsupported(f'function `{name}` not found in {mod.label}'); u.fn = qual(modname, name); raise u
        if name in stack:
            u = Unsupported(f'recursion through `{name}`'); u.fn = qual(modname, name); raise u
        for callee in call_graph(mod, fn):
            visit(modname, callee, stack + [name])
        # a function that is translated only because a target calls it is a helper: `@[simp]`, so that `simp` sees through
        # it and extracting a helper from a target does not change what a proof about the target sees
        helper = name not in dict(targets).get(modname, [])
        chunks, deps = translate_fn(crate, modname, fn, attr='@[simp] ' if helper else '')
        mod_chunks.setdefault(modname, []).extend(chunks)
        deps_all.update(deps)
        done.add((modname, name))

    for modname, names in targets:
        for name in names:
            visit(modname, name, [])

    root, errs = [], []
    # `impl From` bodies (errors.rs)
    froms = crate.mods['errors'].items['froms']
    for i in sorted(j for k, j in [d for d in deps_all if d[0] == 'from']):
        fnode = froms[i]
        chunks, deps = translate_fn(crate, 'errors', fnode.fn, from_name(fnode))
        deps_all.update(deps)
        errs.extend(chunks)
    # constants
    consts = {}
    for d in sorted(x for x in deps_all if x[0] == 'const'):
        _, modname, name = d
        node = crate.mods[modname].items['consts'][name]
        holder = Node('fn', node.line, name=f'const {name}', generics={}, params=[], ret=node.ty, body=None, sig_error=None,
                      body_error=None)
        try:
            tr = SFn(crate, modname, holder)
            tr.scopes, tr.tracked, tr.deps = [{}], [], set()
            ty = tr.sem(node.ty, node.line)
            r = tr.expr(node.e, ty); tr.unify(r[1], ty, node.line, f'const {name}'); r = tr.expr(node.e, ty)
            text = (f'/-- `const {name}` ({crate.mods[modname].label.rsplit("/", 1)[1]} line {node.line}) -/\n'
                    f'@[simp] def {lname(name)} : {tr.lt(ty)} := {r[0]}')
        except Unsupported as u:
            u.fn = f'const {qual(modname, name)}'; raise
        consts.setdefault(modname, []).append(text)
    # field-less enums
    for d in sorted(x for x in deps_all if x[0] == 'enum'):
        modname, _, name = d[1].rpartition('::')
        node = crate.mods[modname].items['enums'][name]
        text = (f'/-- `enum {name}` ({crate.mods[modname].label.rsplit("/", 1)[1]} line {node.line}) -/\n'
                f'inductive {name} where\n' + '\n'.join(f'  | {v}' for v, _ in node.variants) + '\nderiving DecidableEq, Repr')
        if modname == '': root.append(text)
        else: consts.setdefault(modname, []).insert(0, text)
    root.extend(consts.get('', []))
    out = []
    if root: out.append('\n\n'.join(root))
    for modname in ['errors', 'encrypt', 'decrypt']:
        body = consts.get(modname, []) + (errs if modname == 'errors' else []) + mod_chunks.get(modname, [])
        if body:
            out.append(f'namespace {modname}\n\n' + '\n\n'.join(body) + f'\n\nend {modname}')
    used = ['', 'errors'] + [m for m, _ in targets]
    sources = '\n'.join(
        f'  source : {crate.mods[m].label}  (the part before `#[cfg(test)]`, {len(crate.mods[m].region.encode())} bytes)\n'
        f'  sha256 : {crate.mods[m].digest}' for m in dict.fromkeys(used))
    functions = ', '.join(f'{m}::{n}' for m, names in targets for n in names)
    return HEADER.format(sources=sources, functions=functions) + '\n' + '\n\n'.join(out) + '\n\nend Kestrel.StreamSrc\n'


def crate_fn_names(repo, mod):
    import re
    try:
        with open(os.path.join(repo, 'src', 'crypto', 'src', mod + '.rs'), encoding='utf-8') as f:
            return set(re.findall(r'\bfn\s+(\w+)', f.read()))
    except OSError:
        return set()


def main(argv):
    here = os.path.dirname(os.path.abspath(__file__))
    repo = os.environ.get('KESTREL_REPO', '/repo')
    out = os.path.join(here, '..', 'lean', 'KestrelModel', 'GeneratedStream.lean')
    targets = TARGETS
    args = argv[1:]
    while args:
        a = args.pop(0)
        if a == '--repo' and args: repo = args.pop(0)
        elif a == '--out' and args: out = args.pop(0)
        elif a == '--stretch': targets = [(m, n + dict(STRETCH)[m]) for m, n in TARGETS]
        elif a == '--with' and args:
            extra = args.pop(0).split(',')
            targets = [(m, n + [x for x in extra if x in crate_fn_names(repo, m)]) for m, n in targets]
        else:
            print(f'usage: {argv[0]} [--repo DIR] [--out GeneratedStream.lean] [--stretch]', file=sys.stderr); return 2
    srcdir = os.path.join(repo, 'src', 'crypto', 'src')
    try:
        crate = Crate(srcdir)
    except OSError as ex:
        print(f'rs2lean_stream: cannot read sources under {srcdir}: {ex}', file=sys.stderr); return 2
    except Unsupported as u:
        print(f'rs2lean_stream: unsupported construct in {getattr(u, "fn", "?")} (line {u.line}): {u.what}', file=sys.stderr)
        return 3
    try:
        result = translate(crate, targets)
    except Unsupported as u:
        where = f'in fn `{u.fn}`' if getattr(u, 'fn', None) else 'at top level'
        line = f' (line {u.line})' if u.line else ''
        print(f'rs2lean_stream: unsupported construct {where}{line}: {u.what}', file=sys.stderr)
        return 3
    old = None
    try:
        with open(out, encoding='utf-8') as f: old = f.read()
    except OSError:
        pass
    if old != result:
        tmp = out + '.tmp'
        with open(tmp, 'w', encoding='utf-8') as f: f.write(result)
        os.replace(tmp, out)
        print(f'rs2lean_stream: wrote {os.path.normpath(out)} ({len(result)} bytes)')
    else:
        print(f'rs2lean_stream: {os.path.normpath(out)} is up to date')
    return 0


if __name__ == '__main__':
    sys.exit(main(sys.argv))
