#!/usr/bin/env python3
"""regenerate /verif/seeded/INDEX.md from seeded/*/meta.json"""
import glob, json, os
rows = []
for f in sorted(glob.glob("/verif/seeded/*/meta.json")):
    m = json.load(open(f))
    tgt = m["breaks_property"]
    r = m["results"].get(tgt, {})
    v = (r.get("violations") or [{}])[0]
    how = "-"
    if r.get("exit"):
        how = (v.get("kind") or "?") + (": " + (v.get("oracle") or "") if v.get("oracle") else "") 
    others = [p for p in m["caught_by"] if p != tgt]
    hist = m.get("history", [])
    rows.append((m["id"], tgt, "yes" if m["target_check_caught_it"] else "**NO**", how, ", ".join(others) or "-", "; ".join(hist) or "-", (m.get("summary") or m.get("needs_to_manifest") or "").replace("\n", " ")[:160]))
out = ["# Seeded changes", "", "Each directory holds `patch.diff`, the demonstration, `NOTES.md` (the author's description) and `meta.json` (what was run, what every check reported).",
       "All were produced by sub-agents that saw only the property text and a scratch worktree; each was confirmed (patch applies, 33 baseline tests pass with it, demonstration fails with it and passes without it).", "",
       "| id | breaks | caught by its own check | how (first violation) | also caught by | history | what it needs |", "|---|---|---|---|---|---|---|"]
for r in rows:
    out.append("| " + " | ".join(r) + " |")
open("/verif/seeded/INDEX.md", "w").write("\n".join(out) + "\n")
print(f"{len(rows)} seeded changes; missed by own check: {[r[0] for r in rows if r[2] != 'yes']}")
