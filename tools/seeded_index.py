#!/usr/bin/env python3
"""regenerate /verif/seeded/INDEX.md from seeded/*/meta.json"""
import glob, json, os, re

rows, benign = [], []
for f in sorted(glob.glob("/verif/seeded/*/meta.json")):
    m = json.load(open(f))
    if m.get("benign"):
        alarms = m.get("caught_by") or []
        details = []
        for p in alarms:
            v = ((m.get("results") or {}).get(p, {}).get("violations") or [{}])[0]
            details.append(f"{p}: {v.get('kind', '?')}" + (" (no failing input)" if v.get("kind") != "oracle" else f" oracle {v.get('oracle')}"))
        notes = ""
        np = os.path.join(os.path.dirname(f), "NOTES.md")
        if os.path.exists(np):
            txt = open(np).read()
            mm = re.search(r"(?m)^(?!#)(\S.{20,})$", txt)
            notes = (mm.group(1) if mm else "").strip()[:170]
        files = re.findall(r"^\+\+\+ b/(\S+)", open(os.path.join(os.path.dirname(f), "patch.diff")).read(), re.M)
        benign.append((m["id"], ", ".join(x.split("/")[-1] for x in files), str(len(m.get("results") or {})), ", ".join(details) or "none", m.get("round", "-"), notes))
        continue
    tgt = m["breaks_property"]
    r = (m.get("results") or {}).get(tgt, {})
    v = (r.get("violations") or [{}])[0]
    how = "-"
    if r.get("exit"):
        how = (v.get("kind") or "?") + (": " + (v.get("oracle") or "") if v.get("oracle") else "")
    others = [p for p in (m.get("caught_by") or []) if p != tgt]
    hist = m.get("history", [])
    rows.append((m["id"], tgt, "yes" if m.get("target_check_caught_it") else "**NO**", how, ", ".join(others) or "-", m.get("round", "-"),
                 "; ".join(hist) or "-", (m.get("summary") or m.get("needs_to_manifest") or "").replace("\n", " ").replace("|", "/")[:160]))

out = ["# Seeded changes", "",
       "Each directory holds `patch.diff`, the demonstration (breaking changes), `NOTES.md` (the author's description) and `meta.json` (what was run, what every check reported).",
       "All were produced by sub-agents that saw only property text and a scratch worktree — nothing from `/verif`; each breaking change was confirmed (patch applies, 33 baseline tests pass with it, "
       "demonstration fails with it and passes without it). `m1, m2` = wave 1, `m3, m4` = wave 2, `m5, m6` = wave 3, `m7` = wave 4, `m8` = wave 5, `m9` = wave 6 (run once against the final checks, no strengthening afterwards); `B<k>-b<i>` = harmless maintenance changes (every property still holds): `b1..b3` first batch, `b4..b6` second batch (control-flow / data-flow rewrites).", "",
       "## Breaking changes", "",
       "| id | breaks | caught by its own check | how (first violation) | also caught by (checks run in the latest round) | latest round | history | what it needs |", "|---|---|---|---|---|---|---|---|"]
for r in rows:
    out.append("| " + " | ".join(r) + " |")
missed = [r[0] for r in rows if r[2] != "yes"]
with_input = sum(1 for r in rows if r[3].startswith("oracle"))
out += ["", f"{len(rows)} breaking changes; caught by the property's own check: {len(rows) - len(missed)}; of those with a concrete failing input: {with_input}; missed: {missed or 'none'}", ""]
out += ["## Harmless changes", "",
        "Every one of the twenty quick checks is run against each harmless change; an alarm here is a false alarm (or, for `no failing input`, the prescribed report of an obligation that no longer checks although the property holds).", "",
        "| id | file | checks run | alarms | round | what the change is |", "|---|---|---|---|---|---|"]
for b in benign:
    out.append("| " + " | ".join(b) + " |")
na = sum(1 for b in benign if b[3] != "none")
out += ["", f"{len(benign)} harmless changes; with at least one alarm: {na}", ""]
open("/verif/seeded/INDEX.md", "w").write("\n".join(out) + "\n")
print(f"{len(rows)} breaking changes; missed by own check: {missed}; harmless: {len(benign)}, with alarms: {na}")
