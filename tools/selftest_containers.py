#!/usr/bin/env python3
"""
selftest_containers.py -- robustness / sensitivity regression test of the translation of the secret containers
(tools/rs2lean_containers.py: PrivateKey / PayloadKey in src/crypto/src/lib.rs, ZeroedString in src/cli/src/commands.rs).

Rows are seeded patches (seeded/<name>/patch.diff, applied with `patch -p1`) or hand-made text substitutions, applied to a scratch
copy of src/crypto/src and src/cli/src (taken from repo-src/, $KESTREL_REPO or /repo, which are only read), translated with
--repo <scratch> into a scratch copy of the lake project and built there (first KestrelProofs.ContainersSrc: the wipe is
field-complete, clone, clone_from; then KestrelProps.C20src: the link to the table and to the life-cycle model).  Kinds:

  harmless    the translator must translate and both modules must build;
  extension   a harmless change that gives a container a second field: the field-complete wipe must still be PROVED
              (KestrelProofs.ContainersSrc builds), while the link to `Lifecycle.lean` (one buffer per container) cannot be stated any
              more (KestrelProps.C20src must fail: the model has to be extended by hand);
  breaking    the translator must refuse (exit 3) or a module must fail to build;
  unreachable a breaking change of the seeded set that a source-level model of the struct cannot see (how the wipe is compiled; the
              capacity of a Vec; copies outside the struct): recorded as NOT NOTICED, which is the expected outcome.

Takes no arguments; standard library only.  Exit status 0 iff every row is as expected.  Row `base` is the unchanged source (it must
reproduce the committed GeneratedContainers.lean).  Environment: SELFTEST_JOBS=<n> (default 3), SELFTEST_KEEP=1,
SELFTEST_ONLY=<substring,substring>.
"""
import os, re, shutil, subprocess, sys, tempfile, time, queue
from concurrent.futures import ThreadPoolExecutor

ROOT = os.path.dirname(os.path.dirname(os.path.abspath(__file__)))
PRISTINE = os.path.join(ROOT, 'repo-src') if os.path.isdir(os.path.join(ROOT, 'repo-src')) else os.environ.get('KESTREL_REPO', '/repo')
LIB, CMD = 'src/crypto/src/lib.rs', 'src/cli/src/commands.rs'
TRANSLATOR = os.path.join(ROOT, 'tools', 'rs2lean_containers.py')
GENERATED = os.path.join('KestrelModel', 'GeneratedContainers.lean')
PROOFS, PROPS = 'KestrelProofs.ContainersSrc', 'KestrelProps.C20src'

SK_STRUCT = 'pub struct PrivateKey {\n    key: Vec<u8>,\n}'
SK_DROP = 'impl Drop for PrivateKey {\n    fn drop(&mut self) {\n        self.zeroize();\n    }\n}\n'
SK_ZERO = 'impl Zeroize for PrivateKey {\n    fn zeroize(&mut self) {\n        self.key.as_mut_slice().zeroize();\n    }\n}\n'
SK_WIPE = 'self.key.as_mut_slice().zeroize();'
PK_DROP = 'impl Drop for PayloadKey {\n    fn drop(&mut self) {\n        self.zeroize();\n    }\n}\n\n'
PK_ZERO = 'impl Zeroize for PayloadKey {\n    fn zeroize(&mut self) {\n        self.key.zeroize();\n    }\n}\n\n'
PK_MARK = 'impl ZeroizeOnDrop for PayloadKey {}\n\n'
SK_DERIVE = '/// X25519 Private Key\n#[derive(Clone)]\n'
ZS_DROP = 'impl Drop for ZeroedString {\n    fn drop(&mut self) {\n        self.zeroize();\n    }\n}\n'

def clone_impl(clone_from_body):
    cf = f'\n    fn clone_from(&mut self, source: &Self) {{\n{clone_from_body}    }}\n' if clone_from_body else ''
    return ('impl Clone for PrivateKey {\n    fn clone(&self) -> Self {\n        PrivateKey {\n            key: self.key.clone(),\n        }\n    }\n'
            + cf + '}\n\n')

# (name, kind, 'patch' | [(file, old, new, occurrences expected)], what it is)
ROWS = [
    # ---- the harmless seeded changes of lib.rs
    ('B3-b1', 'harmless', 'patch', 'seeded: helper `noise_nonce` extracted'),
    ('B3-b2', 'harmless', 'patch', 'seeded: `const KEY_SIZE`, `key: [u8; KEY_SIZE]` in PayloadKey'),
    ('B3-b3', 'harmless', 'patch', 'seeded: noise_decrypt / chapoly_decrypt / hkdf rewritten'),
    ('B3-b4', 'harmless', 'patch', 'seeded: struct patterns in noise_encrypt / noise_decrypt'),
    ('B3-b5', 'harmless', 'patch', 'seeded: chapoly wrappers reformatted'),
    ('B3-b6', 'harmless', 'patch', 'seeded: constructors of PublicKey / PrivateKey rewritten (`PrivateKey { key: raw_key.to_vec() }`)'),
    # ---- hand-made harmless
    ('H1-rename-field', 'harmless',
     [(LIB, SK_STRUCT, 'pub struct PrivateKey {\n    secret: Vec<u8>,\n}', 1), (LIB, 'PrivateKey { key }', 'PrivateKey { secret: key }', 1),
      (LIB, 'x25519_derive_public(&self.key)', 'x25519_derive_public(&self.secret)', 1),
      (LIB, '/// Expose the raw 32 byte private key\n    pub fn as_bytes(&self) -> &[u8] {\n        self.key.as_ref()',
       '/// Expose the raw 32 byte private key\n    pub fn as_bytes(&self) -> &[u8] {\n        self.secret.as_ref()', 1),
      (LIB, 'Ok(PrivateKey { key: sk })', 'Ok(PrivateKey { secret: sk })', 1), (LIB, SK_WIPE, 'self.secret.as_mut_slice().zeroize();', 1)],
     'the field of PrivateKey is called `secret`'),
    ('H2-reorder-impls', 'harmless', [(LIB, SK_DROP + '\n' + SK_ZERO, SK_ZERO + '\n' + SK_DROP, 1)], '`impl Zeroize` before `impl Drop`'),
    ('H3-vec-zeroize', 'harmless', [(LIB, SK_WIPE, 'self.key.zeroize();', 1)], 'PrivateKey: `self.key.zeroize()` (Vec::zeroize) for `.as_mut_slice().zeroize()`'),
    ('H4-slice-zeroize', 'harmless', [(LIB, '        self.key.zeroize();\n', '        self.key.as_mut_slice().zeroize();\n', 1)],
     'PayloadKey: `.as_mut_slice().zeroize()` for `self.key.zeroize()`'),
    ('H5-derive-zeroize', 'harmless',
     [(LIB, PK_DROP, '', 1), (LIB, PK_ZERO, '', 1), (LIB, PK_MARK, '', 1),
      (LIB, '#[derive(Clone)]\npub struct PayloadKey', '#[derive(Clone, Zeroize, ZeroizeOnDrop)]\npub struct PayloadKey', 1)],
     'PayloadKey: `#[derive(Zeroize, ZeroizeOnDrop)]` instead of the three hand-written impls'),
    ('H6-named-zeroedstring', 'harmless',
     [(CMD, 'struct ZeroedString(String);', 'struct ZeroedString {\n    inner: String,\n}', 1), (CMD, '        Self(s)\n', '        Self { inner: s }\n', 1),
      (CMD, '        &self.0\n', '        &self.inner\n', 1), (CMD, 'self.0.zeroize();', 'self.inner.zeroize();', 1)],
     'ZeroedString with a named field'),
    ('H7-handwritten-clone', 'harmless', [(LIB, SK_DERIVE, '/// X25519 Private Key\n', 1), (LIB, 'impl PublicKey {\n', clone_impl('') + 'impl PublicKey {\n', 1)],
     'PrivateKey: `impl Clone` written by hand, `clone` only (what the derive generates)'),
    ('H8-clone_from-default-spelled-out', 'harmless',
     [(LIB, SK_DERIVE, '/// X25519 Private Key\n', 1), (LIB, 'impl PublicKey {\n', clone_impl('        *self = source.clone();\n') + 'impl PublicKey {\n', 1)],
     'PrivateKey: hand-written `clone_from` that is the default `*self = source.clone()`'),
    ('H9-clone_from-wipes-first', 'harmless',
     [(LIB, SK_DERIVE, '/// X25519 Private Key\n', 1),
      (LIB, 'impl PublicKey {\n', clone_impl('        self.zeroize();\n        self.key = source.key.clone();\n') + 'impl PublicKey {\n', 1)],
     'PrivateKey: hand-written `clone_from` that zeroizes, then assigns the field'),
    ('H10-mut-ref-alias', 'harmless', [(LIB, SK_WIPE, 'let k = &mut self.key;\n        k.zeroize();', 1)], 'PrivateKey: the wipe through `let k = &mut self.key`'),
    # ---- extensions: a second field, covered (or not byte-carrying)
    ('E1-m7-repaired', 'extension',
     [(LIB, SK_STRUCT, 'pub struct PrivateKey {\n    key: Vec<u8>,\n    scalar: OnceLock<Vec<u8>>,\n}', 1), (LIB, 'use zeroize::', 'use std::sync::OnceLock;\nuse zeroize::', 1),
      (LIB, SK_WIPE, SK_WIPE + '\n        if let Some(s) = self.scalar.get_mut() {\n            s.zeroize();\n        }', 1)],
     'the struct of C20-m7 (`scalar: OnceLock<Vec<u8>>`) with a `zeroize` that covers the new field'),
    ('E2-option-cache-covered', 'extension',
     [(LIB, SK_STRUCT, 'pub struct PrivateKey {\n    key: Vec<u8>,\n    cache: Option<Vec<u8>>,\n}', 1), (LIB, SK_WIPE, SK_WIPE + '\n        self.cache.zeroize();', 1)],
     'a new `cache: Option<Vec<u8>>` that `zeroize` covers (`Option::zeroize`)'),
    ('E3-zeroizing-field', 'extension',
     [(LIB, SK_STRUCT, 'pub struct PrivateKey {\n    key: Vec<u8>,\n    backup: zeroize::Zeroizing<Vec<u8>>,\n}', 1)],
     'a new `backup: Zeroizing<Vec<u8>>` that `zeroize` does not mention: it wipes itself in the drop glue'),
    ('E4-counter-field', 'extension', [(LIB, SK_STRUCT, 'pub struct PrivateKey {\n    key: Vec<u8>,\n    uses: u32,\n}', 1)],
     'a new integer field (not byte-carrying) that `zeroize` does not cover'),
    # ---- the breaking seeded changes
    ('C20-m1', 'breaking', 'patch', 'seeded: `fill(0)` instead of zeroize (the optimiser deletes the wipe)  [seen as DATA only: nonVolatileWrites]'),
    ('C20-m2', 'breaking', 'patch', 'seeded: `if thread::panicking() { return; }` in drop  [refused, not modelled]'),
    ('C20-m3', 'breaking', 'patch', 'seeded: hand-written clone_from assigns the field only'),
    ('C20-m4', 'breaking', 'patch', 'seeded: word-wise wipe through align_to_mut  [refused, alignment not modelled]'),
    ('C20-m5', 'breaking', 'patch', 'seeded: Arc<Vec<u8>>, last owner wipes (racy)  [refused, threads not modelled]'),
    ('C20-m6', 'unreachable', 'patch', 'seeded: hex constructor truncates the Vec, wipe covers `len` only  [capacity is not in the model]'),
    ('C20-m7', 'breaking', 'patch', 'seeded: second field `scalar: OnceLock<Vec<u8>>` that zeroize does not cover'),
    # ---- hand-made breaking
    ('X1-drop-removed', 'breaking', [(LIB, SK_DROP, '', 1)], 'PrivateKey: `impl Drop` removed'),
    ('X2-drop-removed-cli', 'breaking', [(CMD, ZS_DROP, '', 1)], 'ZeroedString: `impl Drop` removed'),
    ('X3-drop-empty', 'breaking', [(LIB, SK_DROP, 'impl Drop for PrivateKey {\n    fn drop(&mut self) {}\n}\n', 1)], 'PrivateKey: `drop` with an empty body'),
    ('X4-partial-wipe', 'breaking', [(LIB, SK_WIPE, 'self.key[..16].zeroize();', 1)], 'PrivateKey: only the first 16 bytes are wiped'),
    ('X5-partial-wipe-array', 'breaking', [(LIB, '        self.key.zeroize();\n', '        self.key[16..].zeroize();\n', 1)], 'PayloadKey: only bytes 16.. are wiped'),
    ('X6-new-vec-field', 'breaking', [(LIB, SK_STRUCT, 'pub struct PrivateKey {\n    key: Vec<u8>,\n    backup: Vec<u8>,\n}', 1)], 'a new `backup: Vec<u8>` not covered'),
    ('X7-new-option-cache', 'breaking', [(LIB, SK_STRUCT, 'pub struct PrivateKey {\n    key: Vec<u8>,\n    cache: Option<Vec<u8>>,\n}', 1)],
     'a new `cache: Option<Vec<u8>>` not covered'),
    ('X8-new-array-field-payloadkey', 'breaking', [(LIB, 'pub struct PayloadKey {\n    key: [u8; 32],\n}', 'pub struct PayloadKey {\n    key: [u8; 32],\n    prev: [u8; 32],\n}', 1)],
     'PayloadKey: a new `prev: [u8; 32]` not covered'),
    ('X9-clone_from-no-wipe', 'breaking',
     [(LIB, SK_DERIVE, '/// X25519 Private Key\n', 1), (LIB, 'impl PublicKey {\n', clone_impl('        self.key = source.key.to_vec();\n') + 'impl PublicKey {\n', 1)],
     'hand-written clone_from: `self.key = source.key.to_vec()` (the old Vec is freed as it is)'),
    ('X10-wipe-a-clone', 'breaking', [(LIB, SK_WIPE, 'self.key.clone().zeroize();', 1)], 'zeroize on a clone of the field'),
    ('X11-wipe-a-local-copy', 'breaking', [(LIB, SK_WIPE, 'let mut k = self.key.clone();\n        k.zeroize();', 1)], 'zeroize on a local copy of the field'),
    ('X12-wipe-array-copy', 'breaking', [(LIB, '        self.key.zeroize();\n', '        let mut k = self.key;\n        k.zeroize();\n', 1)],
     'PayloadKey: `let mut k = self.key;` copies the array; the copy is wiped'),
    ('X13-derive-skip', 'breaking',
     [(LIB, PK_DROP, '', 1), (LIB, PK_ZERO, '', 1), (LIB, PK_MARK, '', 1),
      (LIB, '#[derive(Clone)]\npub struct PayloadKey {\n    key', '#[derive(Clone, Zeroize, ZeroizeOnDrop)]\npub struct PayloadKey {\n    #[zeroize(skip)]\n    key', 1)],
     'PayloadKey: derives with `#[zeroize(skip)]` on the key'),
    ('X14-derive-zeroize-only', 'breaking',
     [(LIB, PK_DROP, '', 1), (LIB, PK_ZERO, '', 1), (LIB, PK_MARK, '', 1),
      (LIB, '#[derive(Clone)]\npub struct PayloadKey', '#[derive(Clone, Zeroize)]\npub struct PayloadKey', 1)],
     'PayloadKey: `#[derive(Zeroize)]` without ZeroizeOnDrop and without a Drop'),
    ('X15-wipe-other-type', 'breaking', [(LIB, SK_DROP, '', 1), (LIB, SK_ZERO, '', 1), (LIB, 'impl ZeroizeOnDrop for PrivateKey {}\n', '', 1)],
     'PrivateKey: all three impls removed (it is no longer found as a container)'),
    ('X16-new-container', 'breaking',
     [(LIB, '/// X25519 Public Key\n', 'pub struct SessionKey {\n    k: Vec<u8>,\n}\n\nimpl Drop for SessionKey {\n    fn drop(&mut self) {\n        self.k.zeroize();\n    }\n}\n\n/// X25519 Public Key\n', 1)],
     'a NEW container `SessionKey` that the regex table does not know'),
    ('X17-clone-not-deep', 'breaking',
     [(LIB, SK_DERIVE, '/// X25519 Private Key\n', 1),
      (LIB, 'impl PublicKey {\n', clone_impl('').replace('key: self.key.clone(),', 'key: Vec::new(),') + 'impl PublicKey {\n', 1)],
     'hand-written clone that does not copy the key (not a C20 violation: the clone theorem notices it)'),
]


def sh(cmd, cwd, env=None, timeout=3600, stdin=None):
    p = subprocess.run(cmd, cwd=cwd, env=env, stdout=subprocess.PIPE, stderr=subprocess.STDOUT, timeout=timeout, stdin=stdin)
    return p.returncode, p.stdout.decode('utf-8', 'replace')


def first_error(out, w):
    for l in out.splitlines():
        m = re.match(r'^error: (\S+\.lean):(\d+):(\d+): (.*)$', l)
        if m:
            d = decl_at(os.path.join(w, m.group(1)), int(m.group(2)))
            return f'[{d}] {"/".join(m.group(1).split("/")[-2:])}:{m.group(2)}: {m.group(4)[:60]}'
    for l in out.splitlines():
        if 'error' in l: return l.strip()[:110]
    return '?'


def decl_at(lean_file, lineno):
    try:
        with open(lean_file, encoding='utf-8') as f: ls = f.read().split('\n')
    except OSError:
        return ''
    pat = re.compile(r'^(theorem|lemma|def|example)\b\s*(\S*)')
    if 0 < lineno <= len(ls) and ls[lineno - 1].startswith('/--'):       # the error is reported at the doc comment of the declaration
        for j in range(lineno - 1, min(lineno + 12, len(ls))):
            m = pat.match(ls[j])
            if m: return 'example' if m.group(1) == 'example' else m.group(2)
    for j in range(min(lineno, len(ls)) - 1, -1, -1):
        m = pat.match(ls[j])
        if m: return 'example' if m.group(1) == 'example' else m.group(2)
    return ''


class Case:
    def __init__(self, name, kind, edits, what):
        self.name, self.kind, self.edits, self.what = name, kind, edits, what
        self.translate = self.proofs = self.props = self.verdict = ''
        self.ok = False


def run_case(case, tmp, workers):
    tree = os.path.join(tmp, 'repo-' + case.name)
    try:
        for rel in (LIB, CMD):
            os.makedirs(os.path.dirname(os.path.join(tree, rel)), exist_ok=True)
            shutil.copy(os.path.join(PRISTINE, rel), os.path.join(tree, rel))
        if case.edits == 'patch':
            with open(os.path.join(ROOT, 'seeded', case.name, 'patch.diff'), 'rb') as f:
                rc, out = sh(['patch', '-s', '-p1'], tree, stdin=f)
            if rc != 0: raise RuntimeError('patch: ' + out.strip()[:100])
        else:
            for rel, old, new, count in case.edits:
                path = os.path.join(tree, rel)
                with open(path, encoding='utf-8') as f: text = f.read()
                if text.count(old) != count:
                    raise RuntimeError(f'edit `{old.strip()[:40]}` matches {text.count(old)} times, expected {count}')
                with open(path, 'w', encoding='utf-8') as f: f.write(text.replace(old, new))
    except Exception as ex:
        case.translate, case.verdict = f'SETUP ERROR: {ex}', 'ERROR'
        return case
    w = workers.get()
    try:
        gen = os.path.join(w, GENERATED)
        shutil.copy(os.path.join(ROOT, 'lean', GENERATED), gen)
        rc, out = sh([sys.executable, TRANSLATOR, '--repo', tree, '--out', gen], ROOT)
        if rc == 3:
            case.translate, case.proofs, case.props = 'refused(3): ' + out.strip().split('unsupported construct', 1)[-1].strip()[:150], '-', '-'
        elif rc != 0:
            case.translate, case.proofs, case.props = f'EXIT {rc}: {out.strip()[-100:]}', '-', '-'
        else:
            case.translate = 'ok'
            if case.name == 'base':
                with open(gen, 'rb') as f1, open(os.path.join(ROOT, 'lean', GENERATED), 'rb') as f2:
                    case.translate = 'ok, = committed file' if f1.read() == f2.read() else 'ok, DIFFERS from the committed file'
            rc2, out2 = sh(['lake', 'build', PROOFS], w)
            case.proofs = 'ok' if rc2 == 0 else 'FAILS ' + first_error(out2, w)
            rc3, out3 = sh(['lake', 'build', PROPS], w)
            case.props = 'ok' if rc3 == 0 else 'FAILS ' + first_error(out3, w)
    finally:
        workers.put(w)
    tr_ok, refused = case.translate.startswith('ok'), case.translate.startswith('refused(3)')
    p_ok, q_ok = case.proofs == 'ok', case.props == 'ok'
    if case.kind == 'harmless':
        case.ok = tr_ok and p_ok and q_ok and 'DIFFERS' not in case.translate
        case.verdict = 'ok (accepted)' if case.ok else 'FALSE ALARM'
    elif case.kind == 'extension':
        case.ok = tr_ok and p_ok and case.props.startswith('FAILS')
        case.verdict = 'ok (wipe proved; model link n/a)' if case.ok else ('FALSE ALARM' if not p_ok else 'UNEXPECTED')
    elif case.kind == 'breaking':
        if refused: case.ok, case.verdict = True, 'noticed (refused)'
        elif tr_ok and not p_ok: case.ok, case.verdict = True, 'noticed (proof fails)'
        elif tr_ok and not q_ok: case.ok, case.verdict = True, 'noticed (link fails)'
        else: case.verdict = 'NOT NOTICED' if tr_ok else 'ERROR'
    else:
        case.ok = tr_ok and p_ok and q_ok
        case.verdict = 'not noticed (as expected: out of reach)' if case.ok else 'UNEXPECTED'
    return case


def main():
    if len(sys.argv) > 1:
        print(__doc__); return 2
    jobs = max(1, int(os.environ.get('SELFTEST_JOBS', '3')))
    only = [s for s in os.environ.get('SELFTEST_ONLY', '').split(',') if s]
    cases = [Case('base', 'harmless', [], 'unchanged source')] + [Case(*h) for h in ROWS]
    if only: cases = [c for c in cases if c.name == 'base' or any(s in c.name for s in only)]
    tmp = tempfile.mkdtemp(prefix='.selftest_containers_', dir=ROOT)
    t0 = time.time()
    try:
        workers = queue.Queue()
        for i in range(min(jobs, len(cases))):
            w = os.path.join(tmp, f'lean-{i}')
            shutil.copytree(os.path.join(ROOT, 'lean'), w, symlinks=True)
            workers.put(w)
        with ThreadPoolExecutor(max_workers=jobs) as ex:
            done = list(ex.map(lambda c: run_case(c, tmp, workers), cases))
    finally:
        if os.environ.get('SELFTEST_KEEP'): print(f'scratch directory kept: {tmp}')
        else: shutil.rmtree(tmp, ignore_errors=True)
    wn = max(len(c.name) for c in done)
    print(f'{"row".ljust(wn)} | kind        | verdict                                 | translate / {PROOFS} / {PROPS}')
    print('-' * (wn + 140))
    for c in done:
        detail = c.translate if c.proofs in ('-', '') else f'{c.translate}; proofs {c.proofs}; props {c.props}'
        print(f'{c.name.ljust(wn)} | {c.kind.ljust(11)} | {c.verdict.ljust(39)} | {detail}')
        print(f'{"".ljust(wn)} | {"".ljust(11)} | {"".ljust(39)} |   ({c.what})')
    print('-' * (wn + 140))
    bad = [c for c in done if not c.ok]
    def cnt(k): return f'{sum(c.ok for c in done if c.kind == k)}/{sum(1 for c in done if c.kind == k)}'
    print(f'harmless accepted: {cnt("harmless")}   extensions (wipe proved, link n/a): {cnt("extension")}   breaking noticed: {cnt("breaking")}   '
          f'out of reach, not noticed as expected: {cnt("unreachable")}   ({time.time() - t0:.0f} s, {jobs} workers)')
    if bad:
        print('NOT AS EXPECTED: ' + ', '.join(c.name for c in bad))
        return 1
    print('all rows as expected')
    return 0


if __name__ == '__main__':
    sys.exit(main())
