#!/usr/bin/env python3
"""
cli_src_run_compare.py -- run the GENERATED program (kmodel op `cli_run_src`: CliSrc.main over the translated commands of
commands.rs, tools/rs2lean_cli.py) and the hand-written model (op `cli_run`: Cli.main) on the same worlds and command lines and
compare exit code, standard output and the final files.

Covered: everything that does not reach a streaming library call -- `key generate` (to standard output, to a new file, appended to
an existing file; names that are refused; missing password), `key change-pass`, `key extract-pub` (good / wrong password, malformed
key, no password), help, version, usage errors, and the early failures of encrypt / decrypt / password (same file, missing input,
keyring trouble, unknown key, no password ...).  A case in which the generated program reaches the library call (`libcall=1`)
is only counted: the translation gives those calls no meaning.  Scrypt makes the key cases slow (a few seconds each).

  usage: cli_src_run_compare.py [--kmodel PATH] [--quick]
  exit : 0 = all equal, 1 = a difference (printed)
"""
import sys, os, subprocess

ALICE_PK = 'D7ZZstGYF6okKKEV2rwoUza/tK3iUa8IMY+l5tuirmzzkEog'
ALICE_SK = 'ZWdrMPEp09tKN3rAutCDQTshrNqoh0MLPnEERRCm5KFxvXcTo+s/Sf2ze0fKebVsQilImvLzfIHRcJuX8kGetyAQL1VchvzHR28vFhdKeq+NY2KT'
BOB_PK = 'CT/e0R9tbBjTYUhDNnNxltT3LLWZLHwW4DCY/WHxBA8am9vP'
KEYRING = f'[Key]\nName = alice\nPublicKey = {ALICE_PK}\nPrivateKey = {ALICE_SK}\n\n[Key]\nName = bob\nPublicKey = {BOB_PK}\n'


def hx(b):
    if isinstance(b, str): b = b.encode()
    return b.hex() if b else '-'


def pairs(d):
    return ','.join(f'{k.encode().hex()}:{hx(v)}' for k, v in d.items()) if d else '-'


def argv_enc(argv):
    return ','.join(a.encode().hex() for a in argv) if argv else '-'


def main():
    here = os.path.dirname(os.path.abspath(__file__))
    kmodel = os.path.join(here, '..', 'lean', '.lake', 'build', 'bin', 'kmodel')
    quick = False
    args = sys.argv[1:]
    while args:
        a = args.pop(0)
        if a == '--kmodel': kmodel = args.pop(0)
        elif a == '--quick': quick = True
        else:
            print(__doc__); return 2
    ra, rb = bytes(range(1, 33)), bytes(range(101, 133))
    pw = {'KESTREL_PASSWORD': 'alice'}
    files = {'ring': KEYRING, 'in.txt': 'hello', 'bad.ring': 'junk', 'kr2': '[Key]\nName = x\nPublicKey = AAAA\n'}
    cases = []           # (label, files, env, stdin, argv)

    def add(label, argv, f=None, e=None, stdin=b''):
        cases.append((label, files if f is None else f, {} if e is None else e, stdin, ['kestrel'] + argv))

    # no cryptography needed
    add('help', ['--help']); add('no args', []); add('version', ['-v']); add('bogus', ['frobnicate'])
    add('usage enc', ['enc', '-t', 'a']); add('usage key', ['key']); add('usage key cp', ['key', 'change-pass'])
    for cmd in (['enc', '-t', 'bob', '-f', 'alice'], ['dec', '-t', 'alice'], ['pass', 'enc'], ['pass', 'dec']):
        add('same file ' + cmd[0], cmd + ['in.txt', '-o', 'in.txt'])
        add('missing input ' + cmd[0], cmd + ['nope.txt', '-o', 'out'])
    for cmd in (['enc', '-t', 'bob', '-f', 'alice'], ['dec', '-t', 'alice']):
        add('no keyring ' + cmd[0], cmd + ['in.txt', '-o', 'out'])
        add('keyring missing ' + cmd[0], cmd + ['in.txt', '-o', 'out', '-k', 'nope'])
        add('keyring junk ' + cmd[0], cmd + ['in.txt', '-o', 'out', '-k', 'bad.ring'])
        add('keyring via env ' + cmd[0], cmd + ['in.txt', '-o', 'out'], e={'KESTREL_KEYRING': 'bad.ring'})
        add('no password ' + cmd[0], cmd + ['in.txt', '-o', 'out', '-k', 'ring'])
        add('env-pass unset ' + cmd[0], cmd + ['in.txt', '-o', 'out', '-k', 'ring', '--env-pass'])
    add('unknown recipient', ['enc', '-t', 'carol', '-f', 'alice', 'in.txt', '-o', 'out', '-k', 'ring', '--env-pass'], e=pw)
    add('unknown sender', ['enc', '-t', 'bob', '-f', 'carol', 'in.txt', '-o', 'out', '-k', 'ring', '--env-pass'], e=pw)
    add('sender without private key', ['enc', '-t', 'alice', '-f', 'bob', 'in.txt', '-o', 'out', '-k', 'ring', '--env-pass'], e=pw)
    add('recipient without private key', ['dec', '-t', 'bob', 'in.txt', '-o', 'out', '-k', 'ring', '--env-pass'], e=pw)
    add('unknown key dec', ['dec', '-t', 'carol', 'in.txt', '-o', 'out', '-k', 'ring', '--env-pass'], e=pw)
    add('pass no password', ['pass', 'enc', 'in.txt', '-o', 'out']); add('pass dec no password', ['pass', 'dec', 'in.txt'])
    add('gen no password', ['key', 'gen'], stdin=b'alice\n'); add('gen empty name', ['key', 'gen', '--env-pass'], e=pw, stdin=b'\n')
    add('gen no stdin', ['key', 'gen', '--env-pass'], e=pw); add('gen tab in name', ['key', 'gen', '--env-pass'], e=pw, stdin=b'a\tb\n')
    add('gen long name', ['key', 'gen', '--env-pass'], e=pw, stdin=b'x' * 129 + b'\n')
    # read_line decodes the first line only: a bad byte within it is an error (nothing written) ...
    add('gen bad UTF-8 in first line', ['key', 'gen', '-o', 'f', '--env-pass'], e=pw, stdin=b'al\xffice\nzz')
    add('gen bad UTF-8 in unterminated line', ['key', 'gen', '-o', 'f', '--env-pass'], e=pw, stdin=b'al\xffice')
    add('change-pass no password', ['key', 'change-pass', ALICE_SK]); add('extract-pub no password', ['key', 'extract-pub', ALICE_SK])
    add('change-pass malformed', ['key', 'change-pass', 'AAAA', '--env-pass'], e={'KESTREL_PASSWORD': 'a', 'KESTREL_NEW_PASSWORD': 'b'})
    add('change-pass no new password', ['key', 'change-pass', ALICE_SK, '--env-pass'], e=pw)
    add('extract-pub malformed', ['key', 'extract-pub', '!!', '--env-pass'], e=pw)
    slow = []
    if not quick:
        # these run scrypt (once or twice each)
        slow = [('wrong password enc', ['enc', '-t', 'bob', '-f', 'alice', 'in.txt', '-o', 'out', '-k', 'ring', '--env-pass'], None, {'KESTREL_PASSWORD': 'wrong'}, b''),
                ('wrong password dec', ['dec', '-t', 'alice', 'in.txt', '-o', 'out', '-k', 'ring', '--env-pass'], None, {'KESTREL_PASSWORD': 'wrong'}, b''),
                ('gen to stdout', ['key', 'gen', '--env-pass'], None, pw, b'  carol  \nrest'),
                ('gen to new file', ['key', 'generate', '-o', 'new.ring', '--env-pass'], None, pw, b'carol'),
                ('gen appended', ['key', 'gen', '-o', 'ring', '--env-pass'], None, pw, 'zoë\n'.encode()),
                # ... a bad byte after the first line is never looked at (the hand model used to decode all of standard input)
                ('gen bad UTF-8 after first line', ['key', 'gen', '-o', 'f', '--env-pass'], None, pw, b'alice\n\xff'),
                ('gen bad UTF-8 after first line, CRLF', ['key', 'gen', '--env-pass'], None, pw, b'alice\r\n\xff\xfe'),
                ('change-pass', ['key', 'change-pass', ALICE_SK, '--env-pass'], None, {'KESTREL_PASSWORD': 'alice', 'KESTREL_NEW_PASSWORD': 'n3w'}, b''),
                ('change-pass wrong', ['key', 'change-pass', ALICE_SK, '--env-pass'], None, {'KESTREL_PASSWORD': 'nope', 'KESTREL_NEW_PASSWORD': 'n3w'}, b''),
                ('extract-pub', ['key', 'extract-pub', ALICE_SK, '--env-pass'], None, pw, b''),
                ('extract-pub wrong', ['key', 'extract-pub', ALICE_SK, '--env-pass'], None, {'KESTREL_PASSWORD': 'nope'}, b''),
                ('reaches library: dec', ['dec', '-t', 'alice', 'in.txt', '-o', 'out', '-k', 'ring', '--env-pass'], None, pw, b''),
                ('reaches library: pass enc', ['pass', 'enc', 'in.txt', '-o', 'out', '--env-pass'], None, pw, b'')]
        for label, argv, f, e, stdin in slow: add(label, argv, f, e, stdin)
    lines = []
    for label, f, e, stdin, argv in cases:
        rest = f'{pairs(f)} {pairs(e)} {hx(stdin)} {hx(ra)} {hx(rb)} {argv_enc(argv)}'
        lines.append('cli_run ' + rest); lines.append('cli_run_src ' + rest)
    p = subprocess.run([kmodel], input='\n'.join(lines) + '\n', capture_output=True, text=True)
    out = p.stdout.split('\n')
    if len(out) < len(lines):
        print(f'kmodel produced {len(out)} lines for {len(lines)} requests'); print(p.stderr); return 1

    def fields(s):
        return dict(x.split('=', 1) for x in s.split() if '=' in x)
    bad = lib = 0
    for i, (label, f, e, stdin, argv) in enumerate(cases):
        a, b = fields(out[2 * i]), fields(out[2 * i + 1])
        if b.get('libcall') == '1':
            lib += 1
            continue
        same = all(a.get(k) == b.get(k) for k in ('exit', 'stdout', 'files')) and b.get('outoffuel') == '0'
        if label in ('help', 'no args', 'version'):      # the model does not carry the help / version text
            same = a.get('exit') == b.get('exit') and a.get('files') == b.get('files')
        if not same:
            bad += 1
            print(f'DIFFERENCE in "{label}" {argv[1:]}:\n  model : {out[2 * i][:300]}\n  source: {out[2 * i + 1][:300]}')
    print(f'{len(cases)} runs, {lib} reached a streaming library call (not compared), {len(cases) - lib} compared, {bad} differences')
    return 1 if bad else 0


if __name__ == '__main__':
    sys.exit(main())
