#!/usr/bin/env python3
"""
cli_src_run_compare.py -- run the GENERATED program (kmodel op `cli_run_src`: CliSrc.main over the translated commands of
commands.rs, tools/rs2lean_cli.py, over the translated streaming functions of encrypt.rs / decrypt.rs, tools/rs2lean_stream.py,
glued by CliSrc.streamLib) and the hand-written model (op `cli_run`: Cli.main) on the same worlds and command lines and compare
exit code, standard output and the final files.

Covered: ALL commands.  Not streaming -- `key generate` (to standard output, to a new file, appended to an existing file; names
that are refused; missing password), `key change-pass`, `key extract-pub` (good / wrong password, malformed key, no password),
help, version, usage errors, and the early failures of encrypt / decrypt / password (same file, missing input, keyring trouble,
unknown key, no password ...).  Streaming (phase 1 produces ciphertexts, phase 2 consumes the model's) -- encrypt / decrypt round
trips with a keyring, password encrypt / decrypt, to a file and to standard output (-o absent), from a file and from standard
input, empty input, more than one chunk, wrong password / wrong key, corrupted / truncated / extended file, wrong file kind,
an existing output file (overwritten on success, left alone when nothing is written).  `libcall=1` marks a run of the generated
program that reached a streaming library call; such runs are compared like all others.  Scrypt makes the key and password cases
slow (a few seconds each).

  usage: cli_src_run_compare.py [--kmodel PATH] [--quick]
  exit : 0 = all equal, 1 = a difference (printed)
"""
import sys, os, subprocess

ALICE_PK = 'D7ZZstGYF6okKKEV2rwoUza/tK3iUa8IMY+l5tuirmzzkEog'
ALICE_SK = 'ZWdrMPEp09tKN3rAutCDQTshrNqoh0MLPnEERRCm5KFxvXcTo+s/Sf2ze0fKebVsQilImvLzfIHRcJuX8kGetyAQL1VchvzHR28vFhdKeq+NY2KT'
BOB_PK = 'CT/e0R9tbBjTYUhDNnNxltT3LLWZLHwW4DCY/WHxBA8am9vP'
KEYRING = f'[Key]\nName = alice\nPublicKey = {ALICE_PK}\nPrivateKey = {ALICE_SK}\n\n[Key]\nName = bob\nPublicKey = {BOB_PK}\n'


def hx(b):
    if isinstance(b, str): b = b.encode()
    return b.hex() if b else '-'


def pairs(d):
    return ','.join(f'{k.encode().hex()}:{hx(v)}' for k, v in d.items()) if d else '-'


def argv_enc(argv):
    return ','.join(a.encode().hex() for a in argv) if argv else '-'


def main():
    here = os.path.dirname(os.path.abspath(__file__))
    kmodel = os.path.join(here, '..', 'lean', '.lake', 'build', 'bin', 'kmodel')
    quick = False
    args = sys.argv[1:]
    while args:
        a = args.pop(0)
        if a == '--kmodel': kmodel = args.pop(0)
        elif a == '--quick': quick = True
        else:
            print(__doc__); return 2
    ra, rb = bytes(range(1, 33)), bytes(range(101, 133))
    pw = {'KESTREL_PASSWORD': 'alice'}
    files = {'ring': KEYRING, 'in.txt': 'hello', 'bad.ring': 'junk', 'kr2': '[Key]\nName = x\nPublicKey = AAAA\n'}
    cases = []           # (label, files, env, stdin, argv)

    def add(label, argv, f=None, e=None, stdin=b''):
        cases.append((label, files if f is None else f, {} if e is None else e, stdin, ['kestrel'] + argv))

    # no cryptography needed
    add('help', ['--help']); add('no args', []); add('version', ['-v']); add('bogus', ['frobnicate'])
    add('usage enc', ['enc', '-t', 'a']); add('usage key', ['key']); add('usage key cp', ['key', 'change-pass'])
    for cmd in (['enc', '-t', 'bob', '-f', 'alice'], ['dec', '-t', 'alice'], ['pass', 'enc'], ['pass', 'dec']):
        add('same file ' + cmd[0], cmd + ['in.txt', '-o', 'in.txt'])
        add('missing input ' + cmd[0], cmd + ['nope.txt', '-o', 'out'])
    for cmd in (['enc', '-t', 'bob', '-f', 'alice'], ['dec', '-t', 'alice']):
        add('no keyring ' + cmd[0], cmd + ['in.txt', '-o', 'out'])
        add('keyring missing ' + cmd[0], cmd + ['in.txt', '-o', 'out', '-k', 'nope'])
        add('keyring junk ' + cmd[0], cmd + ['in.txt', '-o', 'out', '-k', 'bad.ring'])
        add('keyring via env ' + cmd[0], cmd + ['in.txt', '-o', 'out'], e={'KESTREL_KEYRING': 'bad.ring'})
        add('no password ' + cmd[0], cmd + ['in.txt', '-o', 'out', '-k', 'ring'])
        add('env-pass unset ' + cmd[0], cmd + ['in.txt', '-o', 'out', '-k', 'ring', '--env-pass'])
    add('unknown recipient', ['enc', '-t', 'carol', '-f', 'alice', 'in.txt', '-o', 'out', '-k', 'ring', '--env-pass'], e=pw)
    add('unknown sender', ['enc', '-t', 'bob', '-f', 'carol', 'in.txt', '-o', 'out', '-k', 'ring', '--env-pass'], e=pw)
    add('sender without private key', ['enc', '-t', 'alice', '-f', 'bob', 'in.txt', '-o', 'out', '-k', 'ring', '--env-pass'], e=pw)
    add('recipient without private key', ['dec', '-t', 'bob', 'in.txt', '-o', 'out', '-k', 'ring', '--env-pass'], e=pw)
    add('unknown key dec', ['dec', '-t', 'carol', 'in.txt', '-o', 'out', '-k', 'ring', '--env-pass'], e=pw)
    add('pass no password', ['pass', 'enc', 'in.txt', '-o', 'out']); add('pass dec no password', ['pass', 'dec', 'in.txt'])
    add('gen no password', ['key', 'gen'], stdin=b'alice\n'); add('gen empty name', ['key', 'gen', '--env-pass'], e=pw, stdin=b'\n')
    add('gen no stdin', ['key', 'gen', '--env-pass'], e=pw); add('gen tab in name', ['key', 'gen', '--env-pass'], e=pw, stdin=b'a\tb\n')
    add('gen long name', ['key', 'gen', '--env-pass'], e=pw, stdin=b'x' * 129 + b'\n')
    # read_line decodes the first line only: a bad byte within it is an error (nothing written) ...
    add('gen bad UTF-8 in first line', ['key', 'gen', '-o', 'f', '--env-pass'], e=pw, stdin=b'al\xffice\nzz')
    add('gen bad UTF-8 in unterminated line', ['key', 'gen', '-o', 'f', '--env-pass'], e=pw, stdin=b'al\xffice')
    add('change-pass no password', ['key', 'change-pass', ALICE_SK]); add('extract-pub no password', ['key', 'extract-pub', ALICE_SK])
    add('change-pass malformed', ['key', 'change-pass', 'AAAA', '--env-pass'], e={'KESTREL_PASSWORD': 'a', 'KESTREL_NEW_PASSWORD': 'b'})
    add('change-pass no new password', ['key', 'change-pass', ALICE_SK, '--env-pass'], e=pw)
    add('extract-pub malformed', ['key', 'extract-pub', '!!', '--env-pass'], e=pw)
    slow = []
    if not quick:
        # these run scrypt (once or twice each)
        slow = [('wrong password enc', ['enc', '-t', 'bob', '-f', 'alice', 'in.txt', '-o', 'out', '-k', 'ring', '--env-pass'], None, {'KESTREL_PASSWORD': 'wrong'}, b''),
                ('wrong password dec', ['dec', '-t', 'alice', 'in.txt', '-o', 'out', '-k', 'ring', '--env-pass'], None, {'KESTREL_PASSWORD': 'wrong'}, b''),
                ('gen to stdout', ['key', 'gen', '--env-pass'], None, pw, b'  carol  \nrest'),
                ('gen to new file', ['key', 'generate', '-o', 'new.ring', '--env-pass'], None, pw, b'carol'),
                ('gen appended', ['key', 'gen', '-o', 'ring', '--env-pass'], None, pw, 'zoë\n'.encode()),
                # ... a bad byte after the first line is never looked at (the hand model used to decode all of standard input)
                ('gen bad UTF-8 after first line', ['key', 'gen', '-o', 'f', '--env-pass'], None, pw, b'alice\n\xff'),
                ('gen bad UTF-8 after first line, CRLF', ['key', 'gen', '--env-pass'], None, pw, b'alice\r\n\xff\xfe'),
                ('change-pass', ['key', 'change-pass', ALICE_SK, '--env-pass'], None, {'KESTREL_PASSWORD': 'alice', 'KESTREL_NEW_PASSWORD': 'n3w'}, b''),
                ('change-pass wrong', ['key', 'change-pass', ALICE_SK, '--env-pass'], None, {'KESTREL_PASSWORD': 'nope', 'KESTREL_NEW_PASSWORD': 'n3w'}, b''),
                ('extract-pub', ['key', 'extract-pub', ALICE_SK, '--env-pass'], None, pw, b''),
                ('extract-pub wrong', ['key', 'extract-pub', ALICE_SK, '--env-pass'], None, {'KESTREL_PASSWORD': 'nope'}, b''),
                # decrypting something that is not a kestrel file reaches the library and fails there
                ('dec of a plain file', ['dec', '-t', 'alice', 'in.txt', '-o', 'out', '-k', 'ring', '--env-pass'], None, pw, b'')]
        for label, argv, f, e, stdin in slow: add(label, argv, f, e, stdin)
    def fields(s):
        return dict(x.split('=', 1) for x in s.split() if '=' in x)

    def run(cs):
        lines = []
        for label, f, e, stdin, argv in cs:
            rest = f'{pairs(f)} {pairs(e)} {hx(stdin)} {hx(ra)} {hx(rb)} {argv_enc(argv)}'
            lines.append('cli_run ' + rest); lines.append('cli_run_src ' + rest)
        p = subprocess.run([kmodel], input='\n'.join(lines) + '\n', capture_output=True, text=True)
        out = p.stdout.split('\n')
        if len(out) < len(lines):
            print(f'kmodel produced {len(out)} lines for {len(lines)} requests'); print(p.stderr); sys.exit(1)
        return out

    def file_of(line, name):
        """the content of file `name` in the files= field of an output line (None if absent)"""
        fl = fields(line).get('files', '-')
        if fl == '-': return None
        for kv in fl.split(','):
            k, v = kv.split(':')
            if bytes.fromhex(k).decode() == name: return b'' if v == '-' else bytes.fromhex(v)
        return None

    def stdout_of(line):
        v = fields(line).get('stdout', '-')
        return b'' if v == '-' else bytes.fromhex(v)

    stats = {'bad': 0, 'lib': 0, 'n': 0}

    def compare(cs, out):
        for i, (label, f, e, stdin, argv) in enumerate(cs):
            a, b = fields(out[2 * i]), fields(out[2 * i + 1])
            stats['n'] += 1
            if b.get('libcall') == '1': stats['lib'] += 1
            same = all(a.get(k) == b.get(k) for k in ('exit', 'stdout', 'files')) and b.get('outoffuel') == '0'
            if label in ('help', 'no args', 'version'):      # the model does not carry the help / version text
                same = a.get('exit') == b.get('exit') and a.get('files') == b.get('files')
            if not same:
                stats['bad'] += 1
                print(f'DIFFERENCE in "{label}" {argv[1:]}:\n  model : {out[2 * i][:300]}\n  source: {out[2 * i + 1][:300]}')

    out = run(cases)
    compare(cases, out)
    nstream = 0
    if not quick:
        # ---- streaming, phase 1: encrypt (the model's ciphertexts feed phase 2) ----
        big = bytes((i * 7 + 3) % 251 for i in range(70000))          # two chunks
        f1 = dict(files); f1['empty'] = ''; f1['big'] = big; f1['old'] = 'previous content'
        kr = ['-k', 'ring', '--env-pass']
        enc = [('enc to self -> file', ['enc', '-t', 'alice', '-f', 'alice', 'in.txt', '-o', 'out'] + kr, f1, pw, b''),
               ('enc to bob -> file', ['enc', '-t', 'bob', '-f', 'alice', 'in.txt', '-o', 'out'] + kr, f1, pw, b''),
               ('enc -> stdout', ['enc', '-t', 'alice', '-f', 'alice', 'in.txt'] + kr, f1, pw, b''),
               ('enc stdin -> file', ['enc', '-t', 'alice', '-f', 'alice', '-o', 'out'] + kr, f1, pw, b'from stdin'),
               ('enc stdin -> stdout, keyring via env', ['enc', '-t', 'alice', '-f', 'alice', '--env-pass'], f1,
                dict(pw, KESTREL_KEYRING='ring'), b'x'),
               ('enc empty file', ['enc', '-t', 'alice', '-f', 'alice', 'empty', '-o', 'out'] + kr, f1, pw, b''),
               ('enc over an existing file', ['enc', '-t', 'alice', '-f', 'alice', 'in.txt', '-o', 'old'] + kr, f1, pw, b''),
               ('pass enc -> file', ['pass', 'enc', 'in.txt', '-o', 'out', '--env-pass'], f1, pw, b''),
               ('pass enc -> stdout', ['password', 'encrypt', 'in.txt', '--env-pass'], f1, pw, b''),
               ('pass enc stdin -> stdout', ['pass', 'enc', '--env-pass'], f1, pw, b'piped'),
               ('pass enc empty stdin -> file', ['pass', 'enc', '-o', 'out', '--env-pass'], f1, pw, b''),
               ('pass enc two chunks', ['pass', 'enc', 'big', '-o', 'out', '--env-pass'], f1, pw, b''),
               ('pass enc over an existing file', ['pass', 'enc', 'in.txt', '-o', 'old', '--env-pass'], f1, pw, b'')]
        p1 = [(l, f, e, si, ['kestrel'] + a) for (l, a, f, e, si) in enc]
        o1 = run(p1)
        compare(p1, o1)
        idx = {c[0]: i for i, c in enumerate(p1)}
        kct = file_of(o1[2 * idx['enc to self -> file']], 'out')
        kct_bob = file_of(o1[2 * idx['enc to bob -> file']], 'out')
        kct_stdout = stdout_of(o1[2 * idx['enc -> stdout']])
        kct_empty = file_of(o1[2 * idx['enc empty file']], 'out')
        pct = file_of(o1[2 * idx['pass enc -> file']], 'out')
        pct_stdin = stdout_of(o1[2 * idx['pass enc stdin -> stdout']])
        pct_big = file_of(o1[2 * idx['pass enc two chunks']], 'out')
        for nm, v in (('kct', kct), ('kct_bob', kct_bob), ('kct_empty', kct_empty), ('pct', pct), ('pct_big', pct_big)):
            if not v:
                print(f'phase 1 produced no ciphertext for {nm}'); return 1
        if not kct_stdout or not pct_stdin:
            print('phase 1 produced no ciphertext on standard output'); return 1
        # ---- streaming, phase 2: decrypt ----
        flip = lambda b, i: b[:i] + bytes([b[i] ^ 1]) + b[i + 1:]
        f2 = dict(files)
        f2.update({'k.ct': kct, 'kbob.ct': kct_bob, 'kempty.ct': kct_empty, 'p.ct': pct, 'pbig.ct': pct_big, 'old': 'previous content',
                   'k.hdr': flip(kct, 40), 'k.body': flip(kct, len(kct) - 20), 'k.tag': flip(kct, len(kct) - 1), 'k.magic': flip(kct, 3),
                   'k.trunc': kct[:-5], 'k.short': kct[:100], 'k.extra': kct + b'\0', 'k.len': flip(kct, 4 + 128 + 15),
                   'p.salt': flip(pct, 10), 'p.body': flip(pct, len(pct) - 20), 'p.trunc': pct[:-1], 'p.extra': pct + b'junk',
                   'p.last': flip(pct, 4 + 32 + 11), 'three': 'egk'})
        dec = [('dec round trip -> file', ['dec', '-t', 'alice', 'k.ct', '-o', 'out'] + kr, pw, b''),
               ('dec round trip -> stdout', ['dec', '-t', 'alice', 'k.ct'] + kr, pw, b''),
               ('dec stdin -> file', ['decrypt', '-t', 'alice', '-o', 'out'] + kr, pw, kct_stdout),
               ('dec stdin -> stdout', ['dec', '-t', 'alice'] + kr, pw, kct),
               ('dec empty plaintext', ['dec', '-t', 'alice', 'kempty.ct', '-o', 'out'] + kr, pw, b''),
               ('dec over an existing file', ['dec', '-t', 'alice', 'k.ct', '-o', 'old'] + kr, pw, b''),
               ('dec for another recipient', ['dec', '-t', 'alice', 'kbob.ct', '-o', 'out'] + kr, pw, b''),
               ('dec for another recipient, existing output', ['dec', '-t', 'alice', 'kbob.ct', '-o', 'old'] + kr, pw, b''),
               ('dec corrupted handshake', ['dec', '-t', 'alice', 'k.hdr', '-o', 'out'] + kr, pw, b''),
               ('dec corrupted chunk', ['dec', '-t', 'alice', 'k.body', '-o', 'out'] + kr, pw, b''),
               ('dec corrupted tag -> stdout', ['dec', '-t', 'alice', 'k.tag'] + kr, pw, b''),
               ('dec corrupted magic', ['dec', '-t', 'alice', 'k.magic', '-o', 'out'] + kr, pw, b''),
               ('dec corrupted length field', ['dec', '-t', 'alice', 'k.len', '-o', 'out'] + kr, pw, b''),
               ('dec truncated', ['dec', '-t', 'alice', 'k.trunc', '-o', 'out'] + kr, pw, b''),
               ('dec header only', ['dec', '-t', 'alice', 'k.short', '-o', 'out'] + kr, pw, b''),
               ('dec trailing byte', ['dec', '-t', 'alice', 'k.extra', '-o', 'out'] + kr, pw, b''),
               ('dec of a password file', ['dec', '-t', 'alice', 'p.ct', '-o', 'out'] + kr, pw, b''),
               ('dec three bytes', ['dec', '-t', 'alice', 'three', '-o', 'out'] + kr, pw, b''),
               ('dec empty stdin', ['dec', '-t', 'alice', '-o', 'out'] + kr, pw, b''),
               ('pass dec round trip -> file', ['pass', 'dec', 'p.ct', '-o', 'out', '--env-pass'], pw, b''),
               ('pass dec round trip -> stdout', ['password', 'decrypt', 'p.ct', '--env-pass'], pw, b''),
               ('pass dec stdin -> stdout', ['pass', 'dec', '--env-pass'], pw, pct_stdin),
               ('pass dec stdin -> file', ['pass', 'dec', '-o', 'out', '--env-pass'], pw, pct),
               ('pass dec two chunks', ['pass', 'dec', 'pbig.ct', '-o', 'out', '--env-pass'], pw, b''),
               ('pass dec over an existing file', ['pass', 'dec', 'p.ct', '-o', 'old', '--env-pass'], pw, b''),
               ('pass dec wrong password', ['pass', 'dec', 'p.ct', '-o', 'out', '--env-pass'], {'KESTREL_PASSWORD': 'wrong'}, b''),
               ('pass dec wrong password, existing output', ['pass', 'dec', 'p.ct', '-o', 'old', '--env-pass'], {'KESTREL_PASSWORD': 'wrong'}, b''),
               ('pass dec wrong password -> stdout', ['pass', 'dec', 'p.ct', '--env-pass'], {'KESTREL_PASSWORD': 'wrong'}, b''),
               ('pass dec corrupted salt', ['pass', 'dec', 'p.salt', '-o', 'out', '--env-pass'], pw, b''),
               ('pass dec corrupted chunk', ['pass', 'dec', 'p.body', '-o', 'out', '--env-pass'], pw, b''),
               ('pass dec last flag cleared', ['pass', 'dec', 'p.last', '-o', 'out', '--env-pass'], pw, b''),
               ('pass dec truncated', ['pass', 'dec', 'p.trunc', '-o', 'out', '--env-pass'], pw, b''),
               ('pass dec trailing data', ['pass', 'dec', 'p.extra', '-o', 'out', '--env-pass'], pw, b''),
               ('pass dec of a key file', ['pass', 'dec', 'k.ct', '-o', 'out', '--env-pass'], pw, b''),
               ('pass dec of a plain file', ['pass', 'dec', 'in.txt', '-o', 'out', '--env-pass'], pw, b''),
               ('pass dec empty stdin -> stdout', ['pass', 'dec', '--env-pass'], pw, b'')]
        p2 = [(l, f2, e, si, ['kestrel'] + a) for (l, a, e, si) in dec]
        o2 = run(p2)
        compare(p2, o2)
        nstream = len(p1) + len(p2)
        # sanity of the test itself: the round trips did decrypt (otherwise equal failures would hide a broken setup)
        i2 = {c[0]: i for i, c in enumerate(p2)}
        checks = [(file_of(o2[2 * i2['dec round trip -> file'] + 1], 'out'), b'hello'), (stdout_of(o2[2 * i2['dec stdin -> stdout'] + 1]), b'hello'),
                  (stdout_of(o2[2 * i2['pass dec stdin -> stdout'] + 1]), b'piped'), (file_of(o2[2 * i2['pass dec two chunks'] + 1], 'out'), big),
                  (file_of(o2[2 * i2['dec stdin -> file'] + 1], 'out'), b'hello'), (file_of(o2[2 * i2['dec empty plaintext'] + 1], 'out'), b''),
                  (file_of(o2[2 * i2['pass dec wrong password, existing output'] + 1], 'old'), b'previous content'),
                  (file_of(o2[2 * i2['pass dec wrong password'] + 1], 'out'), None)]
        for n, (got, want) in enumerate(checks):
            if got != want:
                stats['bad'] += 1
                print(f'SANITY check {n} failed: the generated program produced {got!r:.80}, expected {want!r:.80}')
    print(f"{stats['n']} runs ({nstream} streaming cases), all compared; {stats['lib']} reached a streaming library call; "
          f"{stats['bad']} differences")
    return 1 if stats['bad'] else 0


if __name__ == '__main__':
    sys.exit(main())
