#!/usr/bin/env python3
"""tools/manifest_add.py <Cxx> <design_ref> <text> <note>  — add/replace a check entry in MANIFEST.json"""
import json, sys
pid, design, text, note = sys.argv[1:5]
p = '/verif/MANIFEST.json'
m = json.load(open(p))
m['checks'] = [c for c in m['checks'] if c['property_id'] != pid]
m['checks'].append({"property_id": pid, "quick_cmd": f"./check {pid} quick", "thorough_cmd": f"./check {pid} thorough",
    "evidence_file": f"/verif/evidence/{pid}.json", "replay_cmd_template": "./check " + pid + " --replay {path}",
    "engine": "lean4-model+correspondence", "level_claimed": {"category": "proof", "text": text, "design_ref": design},
    "level_note": note,
    "technique": "Lean 4 theorem over an executable model; model tied to the code by a source translator and a differential correspondence check"})
m['checks'].sort(key=lambda c: c['property_id'])
m['not_applicable'] = [x for x in m.get('not_applicable', []) if x['property_id'] != pid]
m['engines'][0]['serves_properties'] = sorted(set(m['engines'][0]['serves_properties']) | {pid})
json.dump(m, open(p, 'w'), indent=1)
print("manifest:", len(m['checks']), "checks;", len(m['not_applicable']), "not applicable")
