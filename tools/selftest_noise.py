#!/usr/bin/env python3
"""
selftest_noise.py -- regression test for the robustness / sensitivity of tools/rs2lean_noise.py and the proofs about its output
(lean/KestrelProofs/NoiseSrc.lean, lean/KestrelProps/NoiseSrc.lean, and the composition lean/KestrelProps/NoiseStreamSrc.lean).

  usage : python3 tools/selftest_noise.py          (no arguments; standard library only; needs `lake` on PATH)
  exit  : 0 iff every row is as expected

For every case a scratch copy of repo-src/src/crypto/src is changed, tools/rs2lean_noise.py is run on it (KESTREL_REPO=<scratch>)
writing into a scratch copy of the lean project, and `lake build` of the proof modules is run there.  Nothing outside a temporary
directory (created inside this working copy, removed at the end) is written: not repo-src/, not the committed generated files.

  HARMLESS  seeded/B3-b1..b6, seeded/B4-b1..b6    expected: the translator exits 0 AND the proof modules build
  BREAKING  every seeded/C*-m*/patch.diff that touches src/crypto/src/{lib,noise,errors}.rs
            expected: the translator refuses (exit 3) OR the proof modules do not build
            `n/a` (skipped): none of the items (fn / const / struct / enum, found from the hunks of the diff) the patch touches is
            one the translator translates (e.g. `secure_random`, the `Drop` / `Zeroize` impls, a new function nobody translated calls)
  HAND      the hand-made breaking edits of the original robustness test (H1 - H8, see HAND below); expected as for BREAKING
  X1 - X16  further hand-made HARMLESS rewrites, one per kind of maintenance change (renamed locals, helper extraction with and
            without `?`, named constants, iterator forms, early return <-> if / else, `?` <-> `match`, slice forms, moved statements,
            hoisted loop invariants, `&`-noise); expected as for HARMLESS
  K1 - K14  BREAKING edits on top of a harmless patch (they go through the constructs that make the harmless patches pass);
            expected as for BREAKING
  X17 - X22 hand-made HARMLESS variants of the constructs of the second batch of seeded patches (struct pattern without `..`,
            `match` on a `&mut self` call as the value of a function with a statement arm, `Option::map`, `let x = if let .. else
            { ..?; .. }`, a deferred `let x;`, `?` on a `&mut self` call written as a `match`); K30 - K34 break them
  K15 - K29 BREAKING edits that misuse exactly the constructs the second batch of harmless patches (B3-b4 .. B4-b6) needs: wrong
            destructured field, swapped `match` arms, wrong `.map` closure, wrong split point / swapped halves, wrong block value,
            a dropped call that is no longer redundant, `insert` into the wrong place; expected: translated AND a proof fails
            (a refusal is reported as `refused **UNEXPECTED**`)
  (SELFTEST_ONLY=id,id,.. in the environment runs only those cases: a development aid.)

A row `PASSES` for a breaking case whose generated definitions differ from the pristine ones is a REGRESSION (exit 1).  A breaking
case whose generated definitions are the pristine ones modulo comments is reported as `invisible` (no proof can tell) and fails too:
it has to be looked at by hand (none today).
"""
import os, re, shutil, subprocess, sys, tempfile, time

HERE = os.path.dirname(os.path.abspath(__file__))
ROOT = os.path.dirname(HERE)
# the pristine Rust sources: repo-src/ inside a development copy, otherwise $KESTREL_REPO, otherwise /repo (only read, copied to a scratch directory)
PRISTINE = os.path.join(ROOT, 'repo-src') if os.path.isdir(os.path.join(ROOT, 'repo-src')) else os.environ.get('KESTREL_REPO', '/repo')
SRC_REL = os.path.join('src', 'crypto', 'src')
FILES = ('lib.rs', 'noise.rs', 'errors.rs')
TRANSLATOR = os.path.join(HERE, 'rs2lean_noise.py')
GENERATED_REL = os.path.join('KestrelModel', 'GeneratedNoise.lean')
MODULES = ['KestrelProofs.NoiseSrc', 'KestrelProps.NoiseSrc', 'KestrelProps.NoiseStreamSrc']
PROOF_FILES = [os.path.join('KestrelProofs', 'NoiseSrc.lean'), os.path.join('KestrelProps', 'NoiseSrc.lean'),
               os.path.join('KestrelProps', 'NoiseStreamSrc.lean')]

HARMLESS = ['B3-b1', 'B3-b2', 'B3-b3', 'B4-b1', 'B4-b2', 'B4-b3',
            # second batch (control-flow / data-flow rewrites nobody tuned against): struct pattern in `let`; `match` on a call that
            # fills a buffer, `Ok(())` pattern, `&mut x` for `as_mut_slice()`; `Result::map`, single `if` / `else` in the TryFrom
            # impls; `split_at` instead of a running index; `let x = if .. { stmts; v } else { .. }`, a redundant call dropped;
            # `let x = match o { Some(ref p) => p, None => { ..?; o.insert(..) } }`
            'B3-b4', 'B3-b5', 'B3-b6', 'B4-b4', 'B4-b5', 'B4-b6']
# known refusals / known false alarms among the harmless rows (id -> why); such a row is reported as `known` and does not fail the run
KNOWN_HARMLESS_FAILURES = {}

# hand-made breaking edits: (id, what, [(file, line, text that line must contain, replacement for that text or None = delete the line)])
HAND = [
    ('H1', 'ss DH error ignored in read_message',
     [('noise.rs', 402, 's.private_key.diffie_hellman(rs)?;', 's.private_key.diffie_hellman(rs).unwrap_or_default();')]),
    ('H2', 'es / ss key pairs swapped in write_message',
     [('noise.rs', 310, 'let e = self.e.as_ref().unwrap();', 'let e = self.s.as_ref().unwrap();'),
      ('noise.rs', 320, 'let s = self.s.as_ref().unwrap();', 'let s = self.e.as_ref().unwrap();')]),
    ('H3', 'mix_hash(re) dropped in read_message',
     [('noise.rs', 365, 'self.symmetric_state.mix_hash(re.as_bytes());', None)]),
    ('H4a', 'nonce big-endian (chapoly_encrypt_noise)',
     [('lib.rs', 320, 'nonce.to_le_bytes()', 'nonce.to_be_bytes()')]),
    ('H4b', 'nonce big-endian (chapoly_decrypt_noise)',
     [('lib.rs', 363, 'nonce.to_le_bytes()', 'nonce.to_be_bytes()')]),
    ('H5a', 'nonce offset 4 -> 0 (chapoly_encrypt_noise)',
     [('lib.rs', 322, 'final_nonce_bytes[4..]', 'final_nonce_bytes[..8]')]),
    ('H5b', 'nonce offset 4 -> 0 (chapoly_decrypt_noise)',
     [('lib.rs', 365, 'final_nonce_bytes[4..]', 'final_nonce_bytes[..8]')]),
    ('H6', 'payload-length check removed in noise_decrypt',
     [('lib.rs', 289, 'if noise_handshake.message.len() != 32 {', None),
      ('lib.rs', 290, 'return Err(NoiseError::Other(', None),
      ('lib.rs', 291, '"Expected payload key to be 32 bytes.".to_string(),', None),
      ('lib.rs', 292, '));', None),
      ('lib.rs', 293, '}', None)]),
    ('H7', '`< 96` -> `< 80` in read_message',
     [('noise.rs', 352, 'message.len() < 96', 'message.len() < 80')]),
    ('H8', 'second hkdf_noise output from 0x01',
     [('lib.rs', 445, 'copy_from_slice(&[0x02]);', 'copy_from_slice(&[0x01]);')]),
]


# further HARMLESS rewrites (hand-made, one per "means" of the task): (id, what, seeded patch applied first or None,
#   [(file, old text, new text, which occurrence (1-based; 0 = all))])
GET_PUBKEY_OLD = """        if self.initiator {
            return None;
        }

        if let Some(pk) = &self.rs {
            return Some(pk.clone());
        }

        None
"""
GET_PUBKEY_NEW = """        if self.initiator {
            None
        } else {
            self.rs.clone()
        }
"""
INDEX_LEN_OLD = """                    let index_len: usize = if self.symmetric_state.cipher_state.has_key() {
                        DH_LEN + 16
                    } else {
                        DH_LEN
                    };
"""
INDEX_LEN_NEW = """                    let index_len: usize = self.symmetric_state.static_key_len();
"""
STATIC_KEY_LEN = """    /// Length of the (possibly encrypted) static key in a handshake message.
    fn static_key_len(&self) -> usize {
        if self.cipher_state.has_key() {
            DH_LEN + 16
        } else {
            DH_LEN
        }
    }

    fn mix_hash(&mut self, data: &[u8]) {"""
LEN_CHECK_OLD = """    if noise_handshake.message.len() != 32 {
        return Err(NoiseError::Other(
            "Expected payload key to be 32 bytes.".to_string(),
        ));
    }
"""
LEN_CHECK_NEW = """    check_payload_key_len(&noise_handshake.message)?;
"""
LEN_CHECK_FN = """/// The payload of the handshake message is the 32 byte payload key.
fn check_payload_key_len(payload: &[u8]) -> Result<(), NoiseError> {
    if payload.len() != 32 {
        return Err(NoiseError::Other(
            "Expected payload key to be 32 bytes.".to_string(),
        ));
    }
    Ok(())
}

/// ChaCha20-Poly1305 encrypt function as specified by the noise protocol."""
NEW_OLD = """        if protocol_name.len() <= HASH_LEN {
            hash_output[..protocol_name.len()].copy_from_slice(protocol_name);
        } else {
            hash_output = sha256(protocol_name).try_into().unwrap();
        }
"""
NEW_NEW = """        if protocol_name.len() > HASH_LEN {
            hash_output = sha256(protocol_name).try_into().unwrap();
        } else {
            hash_output[..protocol_name.len()].copy_from_slice(protocol_name);
        }
"""
MORE_HARMLESS = [
    ('X1', 'locals renamed (msgidx, temp_key, counter2, final_nonce_bytes)', None,
     [('noise.rs', 'msgidx', 'offset', 0), ('lib.rs', 'temp_key', 'prk', 0), ('lib.rs', 'counter2', 'block', 0),
      ('lib.rs', 'final_nonce_bytes', 'iv', 0)]),
    ('X2', '`for x in v.iter()` / `match *x`', None,
     [('noise.rs', 'for pattern in message_pattern {', 'for pattern in message_pattern.iter() {', 0),
      ('noise.rs', 'match pattern {', 'match *pattern {', 0)]),
    ('X3', 'helper extracted: SymmetricState::static_key_len', None,
     [('noise.rs', INDEX_LEN_OLD, INDEX_LEN_NEW, 1), ('noise.rs', '    fn mix_hash(&mut self, data: &[u8]) {', STATIC_KEY_LEN, 1)]),
    ('X4', 'early returns -> if / else with tail expressions (get_pubkey)', None, [('noise.rs', GET_PUBKEY_OLD, GET_PUBKEY_NEW, 1)]),
    ('X5', 'helper with `?` extracted: check_payload_key_len', None,
     [('lib.rs', LEN_CHECK_OLD, LEN_CHECK_NEW, 1),
      ('lib.rs', '/// ChaCha20-Poly1305 encrypt function as specified by the noise protocol.', LEN_CHECK_FN, 1)]),
    ('X6', 'branches swapped under the negated condition (SymmetricState::new)', None, [('noise.rs', NEW_OLD, NEW_NEW, 1)]),
    ('X7', 'slice forms: `&m[i..][..n]`, `&m[i..i + n]`', None,
     [('noise.rs', '&message[msgidx..(msgidx + DH_LEN)]', '&message[msgidx..][..DH_LEN]', 1),
      ('noise.rs', '&message[msgidx..msgidx + index_len]', '&message[msgidx..][..index_len]', 1)]),
    ('X8', 'condition reordered; explicit `return` for tail expressions', None,
     [('noise.rs', 'message.len() < 96 || message.len() > 65535', 'message.len() > 65535 || message.len() < 96', 1),
      ('lib.rs', '    Ok(plaintext)\n', '    return Ok(plaintext);\n', 1),
      ('lib.rs', '    (output1, output2)\n', '    return (output1, output2);\n', 1)]),
    ('X9', 'B3-b3 with `ok_or_else(|| ..)?`', 'B3-b3', [('lib.rs', '.ok_or(ChaPolyDecryptError)?', '.ok_or_else(|| ChaPolyDecryptError)?', 1)]),
    ('X10', 'named constants for 12, 4, 33 and 96 / 65535 in lib.rs and noise.rs', None,
     [('lib.rs', 'const TAG_SIZE: usize = 16;', 'const TAG_SIZE: usize = 16;\nconst NONCE_SIZE: usize = 12;\nconst NONCE_PAD: usize = NONCE_SIZE - 8;', 1),
      ('lib.rs', '[0u8; 12]', '[0u8; NONCE_SIZE]', 0), ('lib.rs', 'final_nonce_bytes[4..]', 'final_nonce_bytes[NONCE_PAD..]', 0),
      ('noise.rs', 'DH_LEN + 16', 'DH_LEN + TAG_LEN', 1), ('noise.rs', 'const DH_LEN: usize = 32;', 'const DH_LEN: usize = 32;\nconst TAG_LEN: usize = 16;', 1)]),
]

MORE_HARMLESS += [
    ('X11', 'helper extracted: HandshakeState::x_pattern (associated function, `Self::`)', None,
     [('noise.rs', '        let pattern = vec![Token::E, Token::ES, Token::S, Token::SS];\n', '        let pattern = Self::x_pattern();\n', 1),
      ('noise.rs', '    /// Return the sender\'s public key after a noise read_message\n',
       '    fn x_pattern() -> Vec<Token> {\n        vec![Token::E, Token::ES, Token::S, Token::SS]\n    }\n\n'
       '    /// Return the sender\'s public key after a noise read_message\n', 1)]),
    ('X12', 'temporaries inlined into the struct literal (noise_encrypt); `&self.key` -> `self.as_bytes()` (to_public)', None,
     [('lib.rs', '    let handshake_hash = noise_handshake.handshake_hash;\n    let ciphertext = noise_handshake.message;\n\n'
                 '    Ok(NoiseEncryptMsg {\n        ciphertext,\n        handshake_hash,\n    })',
       '    Ok(NoiseEncryptMsg {\n        ciphertext: noise_handshake.message,\n        handshake_hash: noise_handshake.handshake_hash,\n    })', 1),
      ('lib.rs', 'x25519_derive_public(&self.key)?', 'x25519_derive_public(self.as_bytes())?', 1)]),
    ('X13', '`.as_ref().expect(..)` -> `.clone().unwrap()`; `let nonce` inlined (CipherState)', None,
     [('noise.rs', '            .as_ref()\n            .expect("X pattern must have a key initialized");\n        let nonce = self.nonce;\n'
                   '        let plaintext = chapoly_decrypt_noise(key.as_bytes(), nonce, ad, ciphertext)?;\n        self.set_nonce(nonce + 1);',
       '            .clone()\n            .unwrap();\n'
       '        let plaintext = chapoly_decrypt_noise(key.as_bytes(), self.nonce, ad, ciphertext)?;\n        self.set_nonce(self.nonce + 1);', 1)]),
    ('X14', 'statement moved: `let mut msgidx` after the length check; `message_buffer` declared after the pop', None,
     [('noise.rs', '        let mut msgidx: usize = 0;\n', '', 1),
      ('noise.rs', '        for pattern in message_pattern {\n            match pattern {\n                Token::E => {\n                    let remote_ephem_bytes',
       '        let mut msgidx: usize = 0;\n        for pattern in message_pattern {\n            match pattern {\n                Token::E => {\n                    let remote_ephem_bytes', 1),
      ('noise.rs', '        let mut message_buffer = Vec::<u8>::new();\n', '', 1),
      ('noise.rs', '        for pattern in message_pattern {\n            match pattern {\n                Token::E => {\n                    if self.e.is_none()',
       '        let mut message_buffer: Vec<u8> = Vec::new();\n        for pattern in message_pattern {\n            match pattern {\n                Token::E => {\n                    if self.e.is_none()', 1)]),
]

Q_MATCH = [
    ('lib.rs', '    let pk = orion_x25519::PublicKey::try_from(&sk).map_err(|_| DhError)?;\n',
     '    let pk = match orion_x25519::PublicKey::try_from(&sk) {\n        Ok(pk) => pk,\n        Err(_) => return Err(DhError),\n    };\n', 1),
    ('lib.rs', '        let pk = x25519_derive_public(&self.key)?;\n',
     '        let pk = match x25519_derive_public(&self.key) {\n            Ok(pk) => pk,\n            Err(e) => return Err(e),\n        };\n', 1),
    ('noise.rs', '        let plaintext = chapoly_decrypt_noise(key.as_bytes(), nonce, ad, ciphertext)?;\n',
     '        let plaintext = match chapoly_decrypt_noise(key.as_bytes(), nonce, ad, ciphertext) {\n            Ok(plaintext) => plaintext,\n'
     '            Err(_) => {\n                return Err(NoiseError::Decrypt);\n            }\n        };\n', 1),
]
MORE_HARMLESS += [
    ('X16', 'loop invariant hoisted (`let tag_len = 16;` before the loop); `&`-noise (`&x[..]`, `&*x`, `(&x).f()`)', None,
     [('noise.rs', '        let mut msgidx: usize = 0;\n', '        let mut msgidx: usize = 0;\n        let tag_len: usize = 16;\n', 1),
      ('noise.rs', 'DH_LEN + 16', 'DH_LEN + tag_len', 1),
      ('noise.rs', 'self.symmetric_state.mix_hash(re.as_bytes());', 'self.symmetric_state.mix_hash(&re.as_bytes()[..]);', 1),
      ('noise.rs', 'let rs_bytes = self.symmetric_state.decrypt_and_hash(enc_pubkey_and_tag)?;',
       'let rs_bytes = self.symmetric_state.decrypt_and_hash(&*enc_pubkey_and_tag)?;', 1),
      ('noise.rs', 'let dec_payload_buffer = self.symmetric_state.decrypt_and_hash(&message[msgidx..])?;',
       'let dec_payload_buffer = (&mut self.symmetric_state).decrypt_and_hash(&message[msgidx..])?;', 1)]),
]
MORE_HARMLESS += [('X15', '`?` written out as `match r { Ok(v) => v, Err(_) => return Err(..) }`', None, Q_MATCH)]

# hand-made HARMLESS variants of the constructs of the second batch (so that the support is not a fit to six patches)
DAH_OLD = """        let plaintext = self
            .cipher_state
            .decrypt_with_ad(&self.hash_output, ciphertext)?;
        self.mix_hash(ciphertext);
        Ok(plaintext)
"""
DAH_NEW = """        match self.cipher_state.decrypt_with_ad(&self.hash_output, ciphertext) {
            Ok(plaintext) => {
                self.mix_hash(ciphertext);
                Ok(plaintext)
            }
            Err(e) => Err(e),
        }
"""
DAH_BAD = """        match self.cipher_state.decrypt_with_ad(&self.hash_output, ciphertext) {
            Ok(plaintext) => Ok(plaintext),
            Err(e) => {
                self.mix_hash(ciphertext);
                Err(e)
            }
        }
"""
GET_PUBKEY_MAP = """        if self.initiator {
            None
        } else {
            self.rs.as_ref().map(|pk| pk.clone())
        }
"""
EPHEM_OLD = """                    if self.e.is_none() {
                        let ephem_private_key = PrivateKey::generate();
                        let ephem_public_key = ephem_private_key.to_public()?;
                        let ephem_pair = KeyPair {
                            private_key: ephem_private_key,
                            public_key: ephem_public_key,
                        };
                        self.e = Some(ephem_pair);
                    }
                    let ephem_pair = self.e.as_ref().unwrap();
"""
EPHEM_NEW = """                    let ephem_pair: KeyPair = if let Some(pair) = &self.e {
                        pair.clone()
                    } else {
                        let ephem_private_key = PrivateKey::generate();
                        let ephem_public_key = ephem_private_key.to_public()?;
                        let pair = KeyPair {
                            private_key: ephem_private_key,
                            public_key: ephem_public_key,
                        };
                        self.e = Some(pair.clone());
                        pair
                    };
"""
NEW_DEFER_OLD = """        let mut hash_output = [0u8; 32];
        let protocol_name = protocol_name.as_bytes();
        if protocol_name.len() <= HASH_LEN {
            hash_output[..protocol_name.len()].copy_from_slice(protocol_name);
        } else {
"""
NEW_DEFER_NEW = """        let protocol_name = protocol_name.as_bytes();
        let hash_output: [u8; 32];
        if protocol_name.len() <= HASH_LEN {
            let mut padded = [0u8; 32];
            padded[..protocol_name.len()].copy_from_slice(protocol_name);
            hash_output = padded;
        } else {
"""
READ_Q_OLD = '    let noise_handshake = handshake_state.read_message(handshake_message)?;\n'
READ_Q_NEW = ('    let noise_handshake = match handshake_state.read_message(handshake_message) {\n        Ok(nh) => nh,\n'
              '        Err(e) => return Err(e),\n    };\n')
MORE_HARMLESS += [
    ('X17', 'B3-b4 with a struct pattern that names every field (`cipher_state: _`, no `..`)', 'B3-b4',
     [('lib.rs', '        handshake_hash,\n        ..\n    } = handshake_state.write_message', '        handshake_hash,\n        cipher_state: _,\n    } = handshake_state.write_message', 1)]),
    ('X18', 'the value of decrypt_and_hash is a `match` on a `&mut self` call whose `Ok` arm has a statement', None, [('noise.rs', DAH_OLD, DAH_NEW, 1)]),
    ('X19', '`Option::map` with a closure (get_pubkey)', None, [('noise.rs', GET_PUBKEY_OLD, GET_PUBKEY_MAP, 1)]),
    ('X20', '`let p: KeyPair = if let Some(q) = &self.e { q.clone() } else { ..?; self.e = Some(..); p };` (write_message)', None,
     [('noise.rs', EPHEM_OLD, EPHEM_NEW, 1)]),
    ('X21', 'deferred `let hash_output: [u8; 32];` assigned in both branches (SymmetricState::new)', None, [('noise.rs', NEW_DEFER_OLD, NEW_DEFER_NEW, 1)]),
    ('X22', '`?` on a `&mut self` call written out as `match .. { Ok(nh) => nh, Err(e) => return Err(e) }` (noise_decrypt)', None,
     [('lib.rs', READ_Q_OLD, READ_Q_NEW, 1)]),
]

# BREAKING edits on top of a harmless patch (sensitivity through the constructs that make the harmless patches pass)
MORE_BREAKING = [
    ('K1', 'B3-b1 + nonce offset 4 -> 0 in the helper', 'B3-b1', [('lib.rs', 'nonce_bytes[4..]', 'nonce_bytes[..8]', 1)]),
    ('K2', 'B3-b1 + nonce big-endian in the helper', 'B3-b1', [('lib.rs', 'n.to_le_bytes()', 'n.to_be_bytes()', 1)]),
    ('K3', 'B3-b3 + second hkdf_noise output from 0x01', 'B3-b3', [('lib.rs', 'block2[32] = 0x02;', 'block2[32] = 0x01;', 1)]),
    ('K4', 'B3-b3 + checked_sub(TAG_SIZE - 1)', 'B3-b3', [('lib.rs', '.checked_sub(TAG_SIZE)', '.checked_sub(TAG_SIZE - 1)', 1)]),
    ('K5', 'B4-b1 + DH error ignored in the helper mix_dh', 'B4-b1',
     [('noise.rs', 'private_key.diffie_hellman(public_key)?', 'private_key.diffie_hellman(public_key).unwrap_or_default()', 1)]),
    ('K6', 'B4-b1 + es uses the static key pair in write_message', 'B4-b1',
     [('noise.rs', 'let e = self.e.as_ref().unwrap();', 'let e = self.s.as_ref().unwrap();', 1)]),
    ('K7', 'B4-b2 + MIN_MESSAGE_LEN = 80', 'B4-b2',
     [('noise.rs', 'DH_LEN + (DH_LEN + TAG_LEN) + TAG_LEN;', 'DH_LEN + DH_LEN + TAG_LEN;', 1)]),
    ('K8', 'B4-b2 + encrypted static key read without its tag', 'B4-b2', [('noise.rs', '                        DH_LEN + TAG_LEN\n', '                        DH_LEN\n', 1)]),
    ('K9', 'B4-b2 + protocol name changed', 'B4-b2', [('noise.rs', '"Noise_X_25519_ChaChaPoly_SHA256"', '"Noise_X_25519_ChaChaPoly_SHA512"', 1)]),
    ('K10', 'B4-b3 + get_pubkey reports re', 'B4-b3', [('noise.rs', 'self.rs.clone()', 'self.re.clone()', 1)]),
    ('K11', 'B4-b3 + a lone ephemeral half is kept', 'B4-b3', [('noise.rs', '            _ => None,', '            _ => Some(s_pair.clone()),', 1)]),
    ('K12', 'B4-b1 + mix_dh mixes before checking (mix_key on the error path too)', 'B4-b1',
     [('noise.rs', '        let shared_secret = Zeroizing::new(private_key.diffie_hellman(public_key)?);\n        self.mix_key(shared_secret.as_ref());',
       '        let shared_secret = private_key.diffie_hellman(public_key);\n        self.mix_key(&[]);\n        let shared_secret = Zeroizing::new(shared_secret?);\n        self.mix_key(shared_secret.as_ref());', 1)]),
]


# BREAKING edits that misuse exactly the constructs the second batch of harmless patches needs (B3-b4 .. B4-b6): each must be caught
# by a failing proof, not by a refusal (checked below: PROOF_CAUGHT)
MORE_BREAKING += [
    ('K15', 'B3-b4 + struct pattern takes the wrong fields (noise_encrypt: hash as ciphertext)', 'B3-b4',
     [('lib.rs', '        message: ciphertext,\n        handshake_hash,\n', '        handshake_hash: ciphertext,\n        message: handshake_hash,\n', 1)]),
    ('K16', 'B3-b4 + struct pattern takes the wrong fields (noise_decrypt: hash as payload key)', 'B3-b4',
     [('lib.rs', '        message,\n        handshake_hash,\n        ..\n    } = handshake_state.read_message',
       '        message: handshake_hash,\n        handshake_hash: message,\n        ..\n    } = handshake_state.read_message', 1)]),
    ('K17', 'B3-b5 + arms of `match open(..)` swapped', 'B3-b5',
     [('lib.rs', '        Ok(()) => Ok(plaintext),\n        Err(_) => Err(ChaPolyDecryptError),', '        Ok(()) => Err(ChaPolyDecryptError),\n        Err(_) => Ok(plaintext),', 1)]),
    ('K18', 'B3-b5 + a failed tag check hands out the buffer', 'B3-b5',
     [('lib.rs', '        Err(_) => Err(ChaPolyDecryptError),', '        Err(_) => Ok(plaintext),', 1)]),
    ('K19', 'B3-b6 + `.map` closure wraps the private key as the public key (to_public)', 'B3-b6',
     [('lib.rs', '.map(|key| PublicKey { key })', '.map(|_| PublicKey { key: self.key.clone() })', 1)]),
    ('K20', 'B3-b6 + `.map` closure returns the peer public key as the shared secret (x25519)', 'B3-b6',
     [('lib.rs', '.map(|shared_secret| shared_secret.unprotected_as_bytes().to_vec())', '.map(|_| pk.to_vec())', 1)]),
    ('K21', 'B3-b6 + single `if` in TryFrom for PublicKey accepts longer keys', 'B3-b6',
     [('lib.rs', '        if raw_key.len() == 32 {\n            Ok(PublicKey {', '        if raw_key.len() >= 32 {\n            Ok(PublicKey {', 1)]),
    ('K22', 'B4-b4 + wrong split point for the encrypted static key', 'B4-b4',
     [('noise.rs', 'remaining.split_at(index_len)', 'remaining.split_at(DH_LEN)', 1)]),
    ('K23', 'B4-b4 + halves of `split_at` swapped (token E)', 'B4-b4',
     [('noise.rs', 'let (remote_ephem_bytes, rest) = remaining.split_at(DH_LEN);', 'let (rest, remote_ephem_bytes) = remaining.split_at(DH_LEN);', 1)]),
    ('K24', 'B4-b4 + `remaining = rest` dropped after the ephemeral key', 'B4-b4',
     [('noise.rs', '                    remaining = rest;\n                }\n                Token::S => {', '                }\n                Token::S => {', 1)]),
    ('K25', 'B4-b5 + the block expression yields a fresh zero array instead of `padded`', 'B4-b5',
     [('noise.rs', '            padded\n        } else {', '            [0u8; HASH_LEN]\n        } else {', 1)]),
    ('K26', 'B4-b5 + CipherState::new starts at nonce 1 (the dropped `initialize_key(None)` is no longer redundant)', 'B4-b5',
     [('noise.rs', '            key: None,\n            nonce: 0,', '            key: None,\n            nonce: 1,', 1)]),
    ('K27', 'B4-b6 + the fresh ephemeral pair is inserted as the static pair', 'B4-b6',
     [('noise.rs', 'self.e.insert(KeyPair {', 'self.s.insert(KeyPair {', 1)]),
    ('K28', 'B4-b6 + the value of `insert` is dropped, the `None` arm yields the static pair', 'B4-b6',
     [('noise.rs', '                            })\n                        }\n                    };',
       '                            });\n                            self.s.as_ref().unwrap()\n                        }\n                    };', 1)]),
    ('K29', 'B4-b6 + `Some(ref existing_pair)` arm yields the static pair', 'B4-b6',
     [('noise.rs', 'Some(ref existing_pair) => existing_pair,', 'Some(ref existing_pair) => self.s.as_ref().unwrap(),', 1)]),
]
# rows that must be caught by a failing proof (a refusal there would mean the construct is not really supported)
PROOF_CAUGHT = {f'K{i}' for i in range(15, 35)}


MORE_BREAKING_PLAIN = [
    ('K30', 'X18 + `mix_hash` moved to the `Err` arm', [('noise.rs', DAH_OLD, DAH_BAD, 1)]),
    ('K31', 'X19 + the `Option::map` closure reports the own static key',
     [('noise.rs', GET_PUBKEY_OLD, GET_PUBKEY_MAP.replace('|pk| pk.clone()', '|_| self.s.as_ref().unwrap().public_key.clone()'), 1)]),
    ('K32', 'X20 + the fresh pair is not stored', [('noise.rs', EPHEM_OLD, EPHEM_NEW.replace('                        self.e = Some(pair.clone());\n', ''), 1)]),
    ('K33', 'X21 + the long-name branch hashes a suffix of the name',
     [('noise.rs', NEW_DEFER_OLD, NEW_DEFER_NEW, 1), ('noise.rs', 'hash_output = sha256(protocol_name).try_into().unwrap();', 'hash_output = sha256(&protocol_name[1..]).try_into().unwrap();', 1)]),
    ('K34', 'X22 + the error of read_message is replaced by DhError', [('lib.rs', READ_Q_OLD, READ_Q_NEW.replace('return Err(e)', 'return Err(NoiseError::DhError)'), 1)]),
    ('K13', 'X15 + decrypt failure reported as DhError', Q_MATCH + [('noise.rs', 'return Err(NoiseError::Decrypt);', 'return Err(NoiseError::DhError);', 1)]),
    ('K14', 'X15 + failed public key derivation returns the private key', Q_MATCH + [('lib.rs', 'Err(_) => return Err(DhError),', 'Err(_) => return Ok(private_key.to_vec()),', 1)]),
]


# ------------------------------------------------------------------------------------------------ unified diffs

def parse_diff(text):
    """-> {path: [(old_start, new_start, [(tag, line)])]} with tag in ' ', '-', '+'"""
    files, cur, hunk, need = {}, None, None, (0, 0)
    for ln in text.split('\n'):
        if hunk is not None and (need[0] > 0 or need[1] > 0):
            if ln.startswith('\\'): continue                    # "\ No newline at end of file"
            t = ln[:1] or ' '
            hunk[2].append((t, ln[1:]))
            need = (need[0] - (t != '+'), need[1] - (t != '-'))
            continue
        if ln.startswith('+++ '):
            p = ln[4:].split('\t')[0].strip()
            cur = p[2:] if p.startswith('b/') else p
            files[cur] = []
            hunk = None
        elif ln.startswith('@@') and cur is not None:
            m = re.match(r'@@ -(\d+)(?:,(\d+))? \+(\d+)(?:,(\d+))? @@', ln)
            hunk = (int(m.group(1)), int(m.group(3)), [])
            need = (int(m.group(2) or 1), int(m.group(4) or 1))
            files[cur].append(hunk)
    return files


def apply_hunks(lines, hunks):
    """apply the hunks to the list of lines; -> (new lines, touched old line numbers, touched new line numbers)"""
    out, pos = [], 0                      # pos: index into `lines` of the next line not yet copied
    touched_old, touched_new = [], []
    for old_start, _new_start, body in hunks:
        old = [l for t, l in body if t != '+']
        want = old_start - 1
        found = None
        for delta in sorted(range(-200, 201), key=abs):
            at = want + delta
            if at >= pos and lines[at:at + len(old)] == old:
                found = at; break
        if found is None: raise ValueError(f'hunk at line {old_start} does not apply')
        out.extend(lines[pos:found])
        i = found
        for t, l in body:
            if t == ' ':
                out.append(lines[i]); i += 1
            elif t == '-':
                touched_old.append(i + 1); i += 1
            else:
                out.append(l); touched_new.append(len(out))
        pos = i
    out.extend(lines[pos:])
    return out, touched_old, touched_new


# ------------------------------------------------------------------------------------------------ items of a Rust file

def sanitize(line):
    line = re.sub(r'"(?:\\.|[^"\\])*"', '""', line)
    line = re.sub(r"b?'(?:\\.|[^'\\])'", "' '", line)
    i = line.find('//')
    return line if i < 0 else line[:i]


ITEM = re.compile(r'^\s*(?:pub(?:\([^)]*\))?\s+)?(?:unsafe\s+)?(fn|struct|enum|impl|const|static|type|mod|trait)\b\s*(.*)$')


def impl_owner(rest):
    rest = re.sub(r'^<[^>]*>\s*', '', rest)
    rest = rest.split('{')[0].strip()
    if ' for ' in rest: rest = rest.split(' for ', 1)[1].strip()
    rest = re.sub(r'<.*$', '', rest).strip()
    return rest.split('::')[-1]


def items_of(lines):
    """-> [(first line, last line, qualified name)] (1-based, inclusive; doc comments and attributes belong to the item after them)"""
    clean = [sanitize(l) for l in lines]
    found = []

    def scan(lo, hi, owner):
        i, lead = lo, None
        while i < hi:
            s = clean[i].strip()
            raw = lines[i].strip()
            if raw.startswith('//') or raw.startswith('#[') or raw.startswith('#!['):
                if lead is None: lead = i
                i += 1; continue
            m = ITEM.match(clean[i])
            if not m:
                if s: lead = None
                if s == '' and not raw: lead = None
                # skip a brace group that is not an item (a macro invocation)
                depth, j = 0, i
                while j < hi:
                    depth += clean[j].count('{') - clean[j].count('}')
                    if depth <= 0: break
                    j += 1
                i = j + 1; continue
            kind, rest = m.group(1), m.group(2)
            start = i if lead is None else lead
            lead = None
            depth, j, opened = 0, i, False
            while j < hi:
                for ch in clean[j]:
                    if ch == '{': depth += 1; opened = True
                    elif ch == '}': depth -= 1
                    elif ch == ';' and depth == 0 and not opened: opened = 'semi'
                    if opened == 'semi' or (opened is True and depth == 0): break
                if opened == 'semi' or (opened is True and depth == 0): break
                j += 1
            j = min(j, hi - 1)
            if kind == 'impl':
                o = impl_owner(rest)
                found.append((start + 1, j + 1, f'impl {o}'))
                scan(i + 1, j, o)
            else:
                nm = re.match(r'(\w+)', rest)
                name = nm.group(1) if nm else '?'
                found.append((start + 1, j + 1, f'{owner}::{name}' if owner else name))
            i = j + 1

    scan(0, len(lines), None)
    return found


def names_at(items, line):
    hits = [n for a, b, n in items if a <= line <= b and not n.startswith('impl ')]
    if hits: return hits
    hits = [n for a, b, n in items if a <= line <= b]
    return hits or ['<top level>']


DOC = re.compile(r'^/-- `(.*)` \((\w+\.rs) line (\d+)(?:, in `impl ([^`]*)`)?\) -/$')


def translated_names(generated):
    """the Rust items a generated file has a definition for: {(file, qualified name)}"""
    out = set()
    for ln in generated.split('\n'):
        m = DOC.match(ln)
        if not m: continue
        sig, fname, _line, impl = m.groups()
        k = re.search(r'\b(fn|const|struct|enum)\s+(\w+)', sig)
        if not k: continue
        name = k.group(2)
        if impl: name = impl_owner(impl) + '::' + name
        out.add((fname, name))
    return out


def normalise(generated):
    """the definitions without comments, doc comments and the header"""
    body = generated.split('\nimport ', 1)[-1]
    body = re.sub(r'/--.*?-/', '', body, flags=re.S)
    keep = [re.sub(r'\s+', ' ', l).strip() for l in body.split('\n') if not l.strip().startswith('--')]
    return '\n'.join(l for l in keep if l)


# ------------------------------------------------------------------------------------------------ running a case

class Bench:
    def __init__(self):
        self.tmp = tempfile.mkdtemp(prefix='.selftest_noise_', dir=ROOT)
        self.lean = os.path.join(self.tmp, 'lean')
        shutil.copytree(os.path.join(ROOT, 'lean'), self.lean, symlinks=True)
        self.gen = os.path.join(self.lean, GENERATED_REL)
        self.pristine_src = os.path.join(PRISTINE, SRC_REL)
        self.n = 0
        self.theorems = {}
        for rel in PROOF_FILES:
            with open(os.path.join(self.lean, rel), encoding='utf-8') as f:
                self.theorems[rel.replace(os.sep, '/')] = f.read().split('\n')

    def close(self):
        shutil.rmtree(self.tmp, ignore_errors=True)

    def fresh_repo(self):
        self.n += 1
        repo = os.path.join(self.tmp, f'repo{self.n}')
        dst = os.path.join(repo, SRC_REL)
        os.makedirs(dst)
        for fn in os.listdir(self.pristine_src):
            if fn.endswith('.rs'): shutil.copy(os.path.join(self.pristine_src, fn), os.path.join(dst, fn))
        return repo

    def translate(self, repo):
        env = dict(os.environ, KESTREL_REPO=repo)
        p = subprocess.run([sys.executable, TRANSLATOR, '--out', self.gen], env=env, capture_output=True, text=True)
        msg = (p.stderr.strip().split('\n') or [''])[-1]
        return p.returncode, msg

    def lemma_at(self, rel, line):
        lines = self.theorems.get(rel)
        if not lines: return None
        for i in range(min(line, len(lines)) - 1, -1, -1):
            m = re.match(r'\s*(?:@\[[^\]]*\]\s*)?(?:private\s+)?(theorem|lemma|def|example|instance)\s*([^\s:(\[{]*)', lines[i])
            if m: return m.group(2) or m.group(1)
        return None

    def build(self):
        p = subprocess.run(['lake', 'build'] + MODULES, cwd=self.lean, capture_output=True, text=True)
        if p.returncode == 0: return True, ''
        first = ''
        for ln in (p.stdout + '\n' + p.stderr).split('\n'):
            m = re.match(r'error: (?:\./)?(\S+?\.lean):(\d+):(\d+): (.*)', ln)
            if m:
                rel, line = m.group(1), int(m.group(2))
                rel = rel.split('lean/')[-1] if rel.startswith('/') else rel
                lem = self.lemma_at(rel, line)
                first = f'{os.path.basename(rel)}:{line}' + (f' ({lem})' if lem else '')
                break
        return False, first or 'build failed'

    def run(self, repo):
        """-> (translator exit, translator message, built or None, where the build failed, generated text or None)"""
        code, msg = self.translate(repo)
        if code != 0: return code, msg, None, '', None
        with open(self.gen, encoding='utf-8') as f: generated = f.read()
        ok, where = self.build()
        return code, msg, ok, where, generated


def read_lines(path):
    with open(path, encoding='utf-8') as f: return f.read().split('\n')


def write_lines(path, lines):
    with open(path, 'w', encoding='utf-8') as f: f.write('\n'.join(lines))


def apply_patch(repo, diff_path):
    """apply the parts of the diff that concern files present in the scratch copy; -> {file name: (old touched, new touched)}"""
    with open(diff_path, encoding='utf-8') as f: files = parse_diff(f.read())
    touched = {}
    for path, hunks in files.items():
        target = os.path.join(repo, path)
        if not os.path.exists(target): continue
        lines = read_lines(target)
        new, t_old, t_new = apply_hunks(lines, hunks)
        write_lines(target, new)
        touched[path] = (t_old, t_new)
    return touched


def apply_edits(repo, edits, cid):
    for fn, old, new, nth in edits:
        path = os.path.join(repo, SRC_REL, fn)
        with open(path, encoding='utf-8') as f: text = f.read()
        n = text.count(old)
        if n == 0 or (nth and n < nth): raise SystemExit(f'{cid}: `{old.strip()[:40]}` does not occur in {fn} as expected')
        if nth == 0: text = text.replace(old, new)
        else:
            at = -1
            for _ in range(nth): at = text.index(old, at + 1)
            text = text[:at] + new + text[at + len(old):]
        with open(path, 'w', encoding='utf-8') as f: f.write(text)


def main():
    if len(sys.argv) > 1:
        print(__doc__); return 2
    t0 = time.time()
    only = set(x for x in os.environ.get('SELFTEST_ONLY', '').split(',') if x)      # development aid: run only these cases
    global HARMLESS, MORE_HARMLESS, MORE_BREAKING, HAND
    if only:
        HARMLESS = [h for h in HARMLESS if h in only]
        MORE_HARMLESS = [c for c in MORE_HARMLESS if c[0] in only]
        MORE_BREAKING = [c for c in MORE_BREAKING if c[0] in only]
        MORE_BREAKING_PLAIN[:] = [c for c in MORE_BREAKING_PLAIN if c[0] in only]
        HAND = [c for c in HAND if c[0] in only]
    bench = Bench()
    rows, bad = [], 0
    try:
        # ---- the unchanged sources: must translate to the committed file and build
        repo = bench.fresh_repo()
        code, msg, ok, where, pristine = bench.run(repo)
        with open(os.path.join(ROOT, 'lean', GENERATED_REL), encoding='utf-8') as f: committed = f.read()
        good = code == 0 and ok and pristine == committed
        rows.append(('unchanged', 'base', '-', str(code), 'builds' if ok else f'FAILS {where}', 'ok' if good else 'UNEXPECTED',
                     '' if good else (msg or ('generated file differs from the committed one' if pristine != committed else ''))))
        if not good:
            bad += 1
            if pristine is None: raise SystemExit('the unchanged sources do not translate: ' + msg)
        base_names = translated_names(pristine)
        base_norm = normalise(pristine)
        base_items = {fn: items_of(read_lines(os.path.join(bench.pristine_src, fn))) for fn in FILES}

        def breaking_row(cid, what, code, msg, ok, where, generated, touched_desc):
            nonlocal bad
            if code == 3:
                verdict, good = 'refused', cid not in PROOF_CAUGHT
            elif code != 0:
                verdict, good = f'translator exit {code}', False
            elif not ok:
                verdict, good = 'caught', True
            elif normalise(generated) == base_norm:
                verdict, good = 'invisible', False
            else:
                verdict, good = 'PASSES', False
            if not good: bad += 1
            detail = msg if code != 0 else (where if not ok else '')
            rows.append((cid, what, touched_desc, str(code), '-' if ok is None else ('builds' if ok else 'fails'),
                         verdict if good else verdict + ' **UNEXPECTED**', detail))

        # ---- harmless
        for hid in HARMLESS:
            repo = bench.fresh_repo()
            touched = apply_patch(repo, os.path.join(ROOT, 'seeded', hid, 'patch.diff'))
            code, msg, ok, where, generated = bench.run(repo)
            good = code == 0 and ok
            known = hid in KNOWN_HARMLESS_FAILURES and not good
            if not good and not known: bad += 1
            verdict = 'robust' if good else ('FALSE ALARM (translator)' if code != 0 else 'FALSE ALARM (proof)')
            if known: verdict = 'known ' + ('refusal' if code != 0 else 'false alarm') + ': ' + KNOWN_HARMLESS_FAILURES[hid]
            rows.append((hid, 'harmless', ','.join(sorted(os.path.basename(p) for p in touched)), str(code),
                         '-' if ok is None else ('builds' if ok else 'fails'), verdict, msg if code != 0 else where))

        for hid, what, base, edits in MORE_HARMLESS:
            repo = bench.fresh_repo()
            if base: apply_patch(repo, os.path.join(ROOT, 'seeded', base, 'patch.diff'))
            apply_edits(repo, edits, hid)
            code, msg, ok, where, generated = bench.run(repo)
            good = code == 0 and ok
            if not good: bad += 1
            verdict = 'robust' if good else ('FALSE ALARM (translator)' if code != 0 else 'FALSE ALARM (proof)')
            rows.append((hid, 'harmless', what, str(code), '-' if ok is None else ('builds' if ok else 'fails'), verdict,
                         msg if code != 0 else where))

        # ---- breaking (seeded)
        seeded = sorted(d for d in os.listdir(os.path.join(ROOT, 'seeded')) if re.match(r'C\d+-m\d+$', d))
        for cid in seeded:
            if only and cid not in only: continue
            diff_path = os.path.join(ROOT, 'seeded', cid, 'patch.diff')
            with open(diff_path, encoding='utf-8') as f: files = parse_diff(f.read())
            mine = [p for p in files if os.path.dirname(p) == SRC_REL.replace(os.sep, '/') and os.path.basename(p) in FILES]
            if not mine: continue                              # touches none of the translated files: not listed
            repo = bench.fresh_repo()
            touched = apply_patch(repo, diff_path)
            code, msg, ok, where, generated = None, '', None, '', None
            names = set()
            for p in mine:
                fn = os.path.basename(p)
                t_old, t_new = touched[p]
                new_items = items_of(read_lines(os.path.join(repo, p)))
                for ln in t_old: names.update((fn, n) for n in names_at(base_items[fn], ln))
                for ln in t_new: names.update((fn, n) for n in names_at(new_items, ln))
            code, msg, ok, where, generated = bench.run(repo)
            known = set(base_names)
            if generated is not None: known |= translated_names(generated)
            hit = sorted(n for f, n in names if (f, n) in known)
            other = sorted(n for f, n in names if (f, n) not in known and n != '<top level>')
            if not hit:
                extra = ''
                if code == 0 and ok is False: extra = f'(alarm anyway: {where})'
                elif code == 3: extra = f'(refused anyway: {msg})'
                elif code == 0 and normalise(generated) != base_norm: extra = '(definitions differ, proofs build)'
                rows.append((cid, 'breaking', 'not translated: ' + ', '.join(other or ['<top level>']), str(code),
                             '-' if ok is None else ('builds' if ok else 'fails'), 'n/a', extra))
                continue
            breaking_row(cid, 'breaking', code, msg, ok, where, generated, ', '.join(hit))

        # ---- breaking (hand-made)
        for hid, what, edits in HAND:
            repo = bench.fresh_repo()
            by_file = {}
            for fn, line, must, repl in edits: by_file.setdefault(fn, []).append((line, must, repl))
            for fn, es in by_file.items():
                path = os.path.join(repo, SRC_REL, fn)
                lines = read_lines(path)
                for line, must, repl in sorted(es, reverse=True):
                    if must not in lines[line - 1]:
                        raise SystemExit(f'{hid}: {fn} line {line} is not the expected line (repo-src changed?)')
                    if repl is None: del lines[line - 1]
                    else: lines[line - 1] = lines[line - 1].replace(must, repl)
                write_lines(path, lines)
            code, msg, ok, where, generated = bench.run(repo)
            breaking_row(hid, 'hand: ' + what, code, msg, ok, where, generated, '')
        for hid, what, base, edits in MORE_BREAKING + [(a, b, None, c) for a, b, c in MORE_BREAKING_PLAIN]:
            repo = bench.fresh_repo()
            if base: apply_patch(repo, os.path.join(ROOT, 'seeded', base, 'patch.diff'))
            apply_edits(repo, edits, hid)
            code, msg, ok, where, generated = bench.run(repo)
            breaking_row(hid, 'hand: ' + what, code, msg, ok, where, generated, '')
    finally:
        bench.close()

    head = ('case', 'kind', 'translated items touched', 'tr.exit', 'proofs', 'verdict', 'detail')
    widths = [max(len(str(r[i])) for r in rows + [head]) for i in range(6)]
    fmt = ' | '.join('{:<%d}' % w for w in widths) + ' | {}'
    print(fmt.format(*head))
    print('-|-'.join('-' * w for w in widths) + '-|-------')
    for r in rows: print(fmt.format(*r))
    n_h = sum(1 for r in rows if r[1] == 'harmless'); ok_h = sum(1 for r in rows if r[1] == 'harmless' and r[5] == 'robust')
    n_b = sum(1 for r in rows if r[1] != 'harmless' and r[1] != 'base' and r[5] != 'n/a')
    ok_b = sum(1 for r in rows if r[5] in ('refused', 'caught'))
    n_na = sum(1 for r in rows if r[5] == 'n/a')
    print(f'\nharmless robust: {ok_h}/{n_h}; breaking caught or refused: {ok_b}/{n_b} (+ {n_na} not applicable); '
          f'unexpected rows: {bad}; {time.time() - t0:.0f} s')
    return 0 if bad == 0 else 1


if __name__ == '__main__':
    sys.exit(main())
