#!/usr/bin/env python3
"""
rs2lean_keyring.py -- translate src/cli/src/keyring.rs (its non-test part) into Lean 4 definitions.

  input : $KESTREL_REPO/src/cli/src/keyring.rs   (KESTREL_REPO defaults to /repo; --src FILE overrides)
  output: <this dir>/../lean/KestrelModel/GeneratedKeyring.lean   (--out FILE overrides; written only when changed)
  exit  : 0 ok; 3 = a construct outside the supported subset (message names function and construct; output untouched)

Self-contained (tokenizer / Pratt parser / emitter style taken over from rs2lean_scrypt.py and extended).  The translation
is a shallow embedding, one Lean `def` per Rust `fn`, one `structure` per `struct`, one `def` per `const`, built from a
real tokenizer, a parser for the Rust subset the file uses, a small type inference (needed to choose between string and
byte-vector operations, to resolve methods of user structs and the targets of `.into()` / `.try_into()`) and a
statement-by-statement emitter.  Nothing in here looks at function names of the translated file or recognises particular
code: the only file-specific knowledge are the tables EXTERN_* (meaning of items imported from other crates, keyed by their
full path after resolving `use`) and the table of `str` / `Vec` / `Option` / `Result` methods.

Meaning of the Rust constructs (combinators: lean/KestrelModel/RsStr.lean and RsPrelude.lean):
  &str, String          -> Str = List Char; `.len()` is the UTF-8 length; to_string/to_owned/clone/as_str/into(String)/&/* -> identity
  usize                 -> Nat;  u32 / u8 -> UInt32 / UInt8;  bool -> Bool (`&&`, `||`, `!`, `==`, `!=`; `<` etc. via `decide`)
  &[T], Vec<T>, [T; n]  -> List T;  a[lo..hi] -> (a.drop lo).take (hi - lo);  push -> ++ [x];  extend_from_slice -> ++
  Option / Result<T,E>  -> Option / Except E T;  Result<T, &str> keeps the message as a Str;  errors of other crates -> Unit
  the error enum        -> an inductive with one constant constructor per constructor NAMED in the source; payloads
                           (message strings, `format!`) are dropped
  struct                -> structure (tuple struct: field `_0`);  impl fn -> `Type.fn`;  `&self` -> first parameter
  const / helper fn     -> `@[simp] def` (every function that is not in the table TARGETS);  lifetime parameters are erased
  Option methods        -> as_ref / cloned / copied / clone -> identity;  ok_or(e) / ok_or_else(|| e) -> `RsStr.ok_or`
  l.iter().find(|x| p) / l.iter().any(|x| p)  -> `List.find? (fun x => p) l` / `List.any l (fun x => p)`
  `&mut` parameter      -> passed by value, its final value is returned (tuple in parameter order, Rust result last), also
                           at every `return`
  let mut / assignment  -> shadowing `let`;  `let (a, b) = e;` -> `let (a, b) := e`;  `Self` -> the type of the `impl`
  let PAT = e else {..} -> `Flow.bind (match e with | PAT => Flow.next vars | _ => else-block) fun vars =>` (the block must diverge)
  if let PAT = e {A} else {B}  -> the statement `match e { PAT => {A}, _ => {B} }`;  `Zeroizing<T>` -> T;  `Vec::with_capacity(n)` -> []
  l.split_at(n)         -> (l.take n, l.drop n)
  return / ? / continue -> `Flow.ret` / `Flow.propagate` / `Flow.cont` in the three-outcome type `RsStr.Flow`; statements that
                           may leave early are sequenced with `Flow.bind`; a function body containing any is wrapped in `RsStr.run`
  if / match statements -> an expression yielding the tuple of outer variables assigned in their branches
  for x in l            -> `RsStr.forIn l (fun x state => body) state` over the tuple of outer variables the body assigns
                           (both tuples: ordered by the Lean type of the variables, then by first occurrence inside the statement /
                           loop, so that permuting the declarations in front of it, or renaming them, changes nothing)
  let (a, b) = match / if  -> like `let v = match ..` below with the tuple pattern as the binder: `let (a, b) := (match ..)`, or, when an arm
                           leaves the function (`P => { return .. }`), `Flow.bind (match .. | P => Flow.ret .. | Q => Flow.next (x, y)) fun (a, b) =>`
  if / match as a value -> as a `let` initialiser or as the result of the function (`fn f() -> T { ..; match x { A => v, .. } }`):
                           the Lean `if` / `match` whose branches end in the values
  unwrap / expect       -> `RsStr.unwrap_opt` / `RsStr.unwrap_res` (Rust panic totalised with `default`); sites listed in the header
"""
import sys, os, hashlib

LEAN_KEYWORDS = {
    'at', 'open', 'end', 'from', 'then', 'else', 'if', 'do', 'by', 'fun', 'let', 'in', 'have', 'show', 'with', 'match',
    'def', 'theorem', 'namespace', 'section', 'where', 'import', 'instance', 'structure', 'class', 'inductive', 'for',
    'return', 'mut', 'using', 'calc', 'deriving', 'extends', 'example', 'axiom', 'abbrev', 'variable', 'universe',
    'local', 'private', 'protected', 'partial', 'unsafe', 'macro', 'syntax', 'notation', 'prefix', 'infix', 'postfix',
    'Type', 'Prop', 'Sort', 'λ', 'seal', 'unseal', 'export', 'set_option', 'attribute', 'mutual', 'nomatch', 'nofun',
    'suffices', 'obtain', 'try', 'catch', 'finally', 'unless', 'break', 'continue', 'forall', 'exists', 'this', 'default',
    'some', 'none', 'true', 'false',
    'public', 'meta', 'module', 'scoped', 'noncomputable', 'opaque', 'initialize', 'builtin_initialize', 'coinductive', 'infixl',
    'infixr', 'elab', 'declare_syntax_cat', 'omit', 'include', 'nonrec', 'termination_by', 'decreasing_by', 'assert', 'sorry',
}


class Unsupported(Exception):
    def __init__(self, what, line=None):
        super().__init__(what)
        self.what, self.line = what, line


# ------------------------------------------------------------------------------------------------ tokenizer

PUNCT = ['<<=', '>>=', '...', '..=', '::', '->', '=>', '==', '!=', '<=', '>=', '&&', '||', '<<', '>>', '+=', '-=', '*=', '/=',
         '%=', '^=', '&=', '|=', '..', '(', ')', '[', ']', '{', '}', ',', ';', ':', '.', '&', '|', '^', '+', '-', '*', '/',
         '%', '!', '=', '<', '>', '#', '?', '@', '$']
INT_SUFFIXES = ['usize', 'isize', 'u128', 'i128', 'u64', 'i64', 'u32', 'i32', 'u16', 'i16', 'u8', 'i8']
SIMPLE_ESC = {'n': '\n', 't': '\t', 'r': '\r', '\\': '\\', '0': '\0', "'": "'", '"': '"'}


class Tok:
    __slots__ = ('kind', 'text', 'line', 'val', 'suffix')

    def __init__(self, kind, text, line, val=None, suffix=None):
        self.kind, self.text, self.line, self.val, self.suffix = kind, text, line, val, suffix

    def __repr__(self):
        return f'{self.kind}:{self.text!r}@{self.line}'


def read_escape(src, i, line):
    """src[i] is the character after a backslash; returns (char, next index)"""
    c = src[i]
    if c in SIMPLE_ESC: return SIMPLE_ESC[c], i + 1
    if c == 'x':
        try:
            return chr(int(src[i + 1:i + 3], 16)), i + 3
        except ValueError:
            raise Unsupported('malformed \\x escape', line)
    if c == 'u' and src[i + 1:i + 2] == '{':
        j = src.find('}', i)
        try:
            return chr(int(src[i + 2:j].replace('_', ''), 16)), j + 1
        except ValueError:
            raise Unsupported('malformed \\u escape', line)
    raise Unsupported(f'escape sequence \\{c}', line)


def tokenize(src):
    toks, i, line, n = [], 0, 1, len(src)
    while i < n:
        c = src[i]
        if c == '\n':
            line += 1; i += 1; continue
        if c in ' \t\r':
            i += 1; continue
        if src.startswith('//', i):
            while i < n and src[i] != '\n':
                i += 1
            continue
        if src.startswith('/*', i):
            depth, i = 1, i + 2
            while i < n and depth:
                if src.startswith('/*', i): depth += 1; i += 2
                elif src.startswith('*/', i): depth -= 1; i += 2
                else:
                    if src[i] == '\n': line += 1
                    i += 1
            if depth: raise Unsupported('unterminated block comment', line)
            continue
        if c.isalpha() or c == '_':
            j = i
            while j < n and (src[j].isalnum() or src[j] == '_'):
                j += 1
            word = src[i:j]
            if j < n and ((word in ('b', 'r', 'br', 'c') and src[j] == '"') or (word == 'b' and src[j] == "'")
                          or (word in ('r', 'br') and src[j] == '#')):
                raise Unsupported(f'byte / raw string literal ({src[i:i + 12]!r}…)', line)
            toks.append(Tok('id', word, line)); i = j; continue
        if c.isdigit():
            j = i
            base = 10
            if src.startswith(('0x', '0o', '0b'), i):
                base = {'x': 16, 'o': 8, 'b': 2}[src[i + 1]]; j = i + 2
            k = j
            while k < n and (src[k].isalnum() or src[k] == '_'):
                k += 1
            body, suffix = src[j:k], None
            for s in INT_SUFFIXES:
                if body.endswith(s):
                    body, suffix = body[:-len(s)], s; break
            digits = body.replace('_', '')
            try:
                val = int(digits, base)
            except ValueError:
                raise Unsupported(f'numeric literal {src[i:k]!r}', line)
            if k < n and src[k] == '.' and not src.startswith('..', k) and k + 1 < n and src[k + 1].isdigit():
                raise Unsupported(f'floating point literal near {src[i:k + 2]!r}', line)
            toks.append(Tok('int', src[i:k], line, val, suffix)); i = k; continue
        if c == '"':
            start_line, j, out = line, i + 1, []
            while True:
                if j >= n: raise Unsupported('unterminated string literal', start_line)
                d = src[j]
                if d == '"': break
                if d == '\\':
                    if src[j + 1] == '\n':          # line continuation: skip the newline and leading blanks
                        j += 2; line += 1
                        while j < n and src[j] in ' \t\r\n':
                            if src[j] == '\n': line += 1
                            j += 1
                        continue
                    ch, j = read_escape(src, j + 1, line)
                    out.append(ch); continue
                if d == '\n': line += 1
                out.append(d); j += 1
            toks.append(Tok('str', src[i:j + 1], start_line, ''.join(out))); i = j + 1; continue
        if c == "'":
            if i + 1 < n and src[i + 1] == '\\':
                ch, j = read_escape(src, i + 2, line)
                if j >= n or src[j] != "'": raise Unsupported('malformed character literal', line)
                toks.append(Tok('char', src[i:j + 1], line, ch)); i = j + 1; continue
            if i + 2 < n and src[i + 2] == "'" and src[i + 1] != "'":
                toks.append(Tok('char', src[i:i + 3], line, src[i + 1])); i += 3; continue
            j = i + 1
            while j < n and (src[j].isalnum() or src[j] == '_'):
                j += 1
            if j == i + 1: raise Unsupported('stray quote', line)
            toks.append(Tok('lifetime', src[i:j], line)); i = j; continue
        for p in PUNCT:
            if src.startswith(p, i):
                toks.append(Tok('p', p, line)); i += len(p); break
        else:
            raise Unsupported(f'character {c!r}', line)
    toks.append(Tok('eof', '<eof>', line))
    return toks


# ------------------------------------------------------------------------------------------------ AST

class Node:
    def __init__(self, kind, line, **kw):
        self.kind, self.line = kind, line
        self.__dict__.update(kw)

    def __repr__(self):
        return f'<{self.kind}@{self.line}>'


BIN_PREC = {'*': 11, '/': 11, '%': 11, '+': 10, '-': 10, '<<': 9, '>>': 9, '&': 8, '^': 7, '|': 6,
            '==': 5, '!=': 5, '<': 5, '>': 5, '<=': 5, '>=': 5, '&&': 4, '||': 3}
CMP = {'==', '!=', '<', '>', '<=', '>='}
ASSIGN_OPS = {'=', '+=', '-=', '*=', '/=', '%=', '^=', '&=', '|=', '<<=', '>>='}
PREC_AS, PREC_RANGE, PREC_ASSIGN = 12, 2, 1
INT_TYPES = ('usize', 'u64', 'u32', 'u8')


class Parser:
    def __init__(self, toks):
        self.t, self.i = toks, 0
        self.fn = None          # name of the function being parsed (for messages)
        self.no_struct = False  # inside an `if` / `match` / `for` header: `ident {` is not a struct literal

    def peek(self, k=0):
        return self.t[min(self.i + k, len(self.t) - 1)]

    def next(self):
        tok = self.t[self.i]
        if tok.kind != 'eof': self.i += 1
        return tok

    def at(self, text, k=0):
        tok = self.peek(k)
        return tok.kind in ('p', 'id') and tok.text == text

    def accept(self, text):
        if self.at(text):
            return self.next()
        return None

    def expect(self, text):
        tok = self.next()
        if tok.kind not in ('p', 'id') or tok.text != text:
            raise Unsupported(f'expected `{text}`, found `{tok.text}`', tok.line)
        return tok

    def ident(self):
        tok = self.next()
        if tok.kind != 'id':
            raise Unsupported(f'expected an identifier, found `{tok.text}`', tok.line)
        return tok

    def skip_attribute(self):
        self.expect('#'); self.accept('!'); self.expect('[')
        depth = 1
        while depth:
            tok = self.next()
            if tok.kind == 'eof': raise Unsupported('unterminated attribute', tok.line)
            if tok.text in ('[', '(', '{') and tok.kind == 'p': depth += 1
            elif tok.text in (']', ')', '}') and tok.kind == 'p': depth -= 1

    def skip_vis(self):
        """-> True if the item is `pub` / `pub(..)`"""
        if self.accept('pub'):
            if self.accept('('):
                while not self.accept(')'): self.next()
            return True
        return False

    # ---- items
    def parse_use_tree(self, prefix, uses, line):
        if self.accept('{'):
            while not self.accept('}'):
                self.parse_use_tree(list(prefix), uses, line)
                if not self.at('}'): self.expect(',')
            return
        if self.at('*'): raise Unsupported('glob `use`', line)
        name = self.ident().text
        if name == 'self': raise Unsupported('`self` in a `use` group', line)
        path = prefix + [name]
        if self.accept('::'):
            return self.parse_use_tree(path, uses, line)
        alias = self.ident().text if self.accept('as') else name
        uses[alias] = path

    def parse_file(self):
        uses, items = {}, []
        while self.peek().kind != 'eof':
            if self.at('#'):
                self.skip_attribute(); continue
            if self.at('use'):
                line = self.next().line
                self.parse_use_tree([], uses, line)
                self.expect(';')
                continue
            vis = self.skip_vis()
            tok = self.peek()
            if self.at('fn'):
                items.append(self.parse_fn(None, vis)); continue
            if self.at('const'):
                self.next()
                name = self.ident()
                self.expect(':'); ty = self.parse_type(); self.expect('=')
                init = self.parse_expr(); self.expect(';')
                items.append(Node('const', tok.line, name=name.text, ty=ty, init=init)); continue
            if self.at('struct'):
                items.append(self.parse_struct()); continue
            if self.at('impl'):
                items.append(self.parse_impl()); continue
            raise Unsupported(f'item starting with `{tok.text}` (only use / const / struct / impl / fn items are supported)', tok.line)
        return uses, items

    def parse_struct(self):
        line = self.expect('struct').line
        name = self.ident().text
        if self.at('<'): raise Unsupported('generic struct', line)
        fields = []
        if self.accept('('):
            n = 0
            while not self.accept(')'):
                self.skip_vis()
                fields.append((f'_{n}', self.parse_type())); n += 1
                if not self.at(')'): self.expect(',')
            self.expect(';')
            return Node('struct', line, name=name, fields=fields, tuple=True)
        if self.accept(';'): raise Unsupported('unit struct', line)
        self.expect('{')
        while not self.accept('}'):
            if self.at('#'):
                self.skip_attribute(); continue
            self.skip_vis()
            fname = self.ident().text
            self.expect(':')
            fields.append((fname, self.parse_type()))
            if not self.at('}'): self.expect(',')
        return Node('struct', line, name=name, fields=fields, tuple=False)

    def parse_impl(self):
        line = self.expect('impl').line
        if self.at('<'): raise Unsupported('generic `impl`', line)
        first = self.ident().text
        targs = []
        if self.accept('<'):
            while not self.accept('>'):
                targs.append(self.parse_type())
                if not self.at('>'): self.expect(',')
        trait = None
        if self.accept('for'):
            trait = (first, targs)
            owner = self.ident().text
            if self.at('<'): raise Unsupported('generic `impl` target', line)
        else:
            if targs: raise Unsupported('generic `impl` target', line)
            owner = first
        if self.at('where'): raise Unsupported('`where` clause', line)
        self.expect('{')
        assoc, fns = {}, []
        while not self.accept('}'):
            if self.at('#'):
                self.skip_attribute(); continue
            vis = self.skip_vis()
            if self.at('type'):
                self.next(); an = self.ident().text; self.expect('='); assoc[an] = self.parse_type(); self.expect(';')
                continue
            if self.at('fn'):
                fns.append(self.parse_fn(owner, vis)); continue
            tok = self.peek()
            raise Unsupported(f'`{tok.text}` inside an `impl` (only `type` and `fn`)', tok.line)
        return Node('impl', line, owner=owner, trait=trait, assoc=assoc, fns=fns)

    def parse_type(self):
        tok = self.peek()
        if self.accept('&') or self.accept('&&'):
            if self.peek().kind == 'lifetime': self.next()
            mut = bool(self.accept('mut'))
            inner = self.parse_type()
            return ('mutref', inner) if mut else inner
        if self.accept('['):
            elem = self.parse_type()
            if self.accept(';'): self.parse_expr()
            self.expect(']')
            return ('list', elem)
        if self.accept('('):
            parts = []
            while not self.accept(')'):
                parts.append(self.parse_type())
                if not self.at(')'): self.expect(',')
            if not parts: return 'unit'
            if len(parts) == 1: return parts[0]
            return ('tuple', tuple(parts))
        name = self.ident()
        n = name.text
        if n in ('Vec', 'Option'):
            self.expect('<'); elem = self.parse_type(); self.close_angle()
            return ('list' if n == 'Vec' else 'opt', elem)
        if n == 'Result':
            self.expect('<'); a = self.parse_type(); self.expect(','); b = self.parse_type(); self.close_angle()
            return ('res', a, b)
        if n in INT_TYPES or n in ('bool', 'char'): return n
        if n in ('str', 'String'): return 'str'
        if n in ('isize', 'i8', 'i16', 'i32', 'i64', 'i128', 'u16', 'u128', 'f32', 'f64'):
            raise Unsupported(f'type `{n}`', name.line)
        if n == 'Self' and self.at('::'):
            self.next(); an = self.ident().text
            return ('assoc', an)
        if self.at('::'): raise Unsupported(f'generic or qualified type `{n}…`', name.line)
        if self.accept('<'):
            # `Name<T>`: accepted only if `Name` turns out to be a transparent wrapper (table EXTERN_WRAPPER_TYPES; see norm_type)
            args = []
            while not self.at('>') and not self.at('>>'):
                args.append(self.parse_type())
                if not self.at('>') and not self.at('>>'): self.expect(',')
            self.close_angle()
            return ('wrapper', n, tuple(args), name.line)
        return ('adt', n)

    def close_angle(self):
        # `>>` closing two generic argument lists arrives as one token
        tok = self.peek()
        if tok.kind == 'p' and tok.text == '>>':
            tok.text = '>'; return
        self.expect('>')

    def parse_fn(self, owner, vis=False):
        line = self.expect('fn').line
        name = self.ident().text
        self.fn = f'{owner}::{name}' if owner else name
        if self.accept('<'):
            # lifetime parameters only (`fn f<'a>(x: &'a str) -> &'a str`): lifetimes are erased by the translation
            while not self.accept('>'):
                if self.peek().kind != 'lifetime': raise Unsupported('generic parameters (other than lifetimes)', line)
                self.next()
                if self.at(':'): raise Unsupported('lifetime bound', line)
                if not self.at('>'): self.expect(',')
        self.expect('(')
        params, self_kind = [], None
        while not self.accept(')'):
            if self.at('&') and (self.at('self', 1) or (self.at('mut', 1) and self.at('self', 2)) or
                                 (self.peek(1).kind == 'lifetime')):
                self.next()
                if self.peek().kind == 'lifetime': self.next()
                if self.accept('mut'): raise Unsupported('`&mut self`', line)
                self.expect('self'); self_kind = 'ref'
            elif self.at('self'):
                self.next(); self_kind = 'own'
            else:
                if self.accept('mut'): raise Unsupported('`mut` parameter binding', line)
                pn = self.ident()
                self.expect(':')
                params.append((pn.text, self.parse_type(), pn.line))
            if not self.at(')'): self.expect(',')
        ret = None
        if self.accept('->'): ret = self.parse_type()
        if self.at('where'): raise Unsupported('`where` clause', line)
        body = self.parse_block()
        self.fn = None
        return Node('fn', line, name=name, owner=owner, self_kind=self_kind, params=params, ret=ret, body=body, vis=vis)

    # ---- statements
    def parse_block(self):
        saved, self.no_struct = self.no_struct, False
        line = self.expect('{').line
        stmts, tail = [], None
        while not self.at('}'):
            if self.peek().kind == 'eof': raise Unsupported('unterminated block', line)
            if tail is not None:
                raise Unsupported('expression without `;` in the middle of a block', tail.line)
            if self.at('#'):
                self.skip_attribute(); continue
            if self.at(';'):
                self.next(); continue
            tok = self.peek()
            if self.at('let'):
                self.next()
                mut = bool(self.accept('mut'))
                if not mut and (self.at('(') or (self.peek().kind == 'id' and self.at('(', 1))):
                    # `let (a, b) = e;`   or   `let Some(x) = e else { return .. };`
                    pat = self.parse_pat()
                    if self.at(':'): raise Unsupported('type annotation on a `let` pattern', tok.line)
                    if not self.accept('='): raise Unsupported('`let` without initialiser', tok.line)
                    init = self.parse_expr()
                    els = None
                    if self.accept('else'): els = self.parse_block()
                    self.expect(';')
                    stmts.append(Node('letpat', tok.line, pat=pat, init=init, els=els))
                    continue
                if not (self.peek().kind == 'id') or self.at('(', 1) or self.at('{', 1) or self.at('::', 1) or self.at('ref'):
                    raise Unsupported('pattern in `let`', tok.line)
                name = self.ident()
                ty = self.parse_type() if self.accept(':') else None
                if not self.accept('='): raise Unsupported('`let` without initialiser', tok.line)
                init = self.parse_expr()
                if self.at('else'): raise Unsupported('`let … else`', tok.line)
                self.expect(';')
                stmts.append(Node('let', tok.line, name=name.text, mut=mut, ty=ty, init=init))
            elif self.at('for'):
                self.next()
                pat = self.parse_pattern()
                self.expect('in')
                it = self.parse_header_expr()
                body = self.parse_block()
                stmts.append(Node('for', tok.line, pat=pat, iter=it, body=body))
            elif self.at('if'):
                stmts.append(self.parse_if())
                self.no_postfix_after_block()
            elif self.at('match'):
                m = self.parse_match(); m.kind = 'matchs'
                stmts.append(m)
                self.no_postfix_after_block()
                self.accept(';')
            elif self.at('return'):
                self.next()
                e = None if (self.at(';') or self.at('}')) else self.parse_expr()
                if not self.accept(';') and not self.at('}'): raise Unsupported('`return` inside a larger expression', tok.line)
                stmts.append(Node('return', tok.line, e=e))
            elif self.at('continue'):
                self.next()
                if self.peek().kind == 'lifetime': raise Unsupported('labelled `continue`', tok.line)
                if not self.accept(';') and not self.at('}'): raise Unsupported('`continue` inside a larger expression', tok.line)
                stmts.append(Node('continue', tok.line))
            elif tok.kind == 'id' and tok.text in ('while', 'loop', 'break', 'unsafe', 'fn', 'struct', 'enum', 'impl', 'const',
                                                   'static', 'use', 'mod', 'type', 'trait', 'macro_rules'):
                raise Unsupported(f'`{tok.text}`', tok.line)
            elif self.at('{'):
                raise Unsupported('nested block statement', tok.line)
            else:
                e = self.parse_expr(PREC_ASSIGN)
                if self.accept(';'):
                    stmts.append(Node('expr', tok.line, e=e))
                else:
                    tail = e
        self.expect('}')
        self.no_struct = saved
        return Node('block', line, stmts=stmts, tail=tail)

    def no_postfix_after_block(self):
        tok = self.peek()
        if tok.kind == 'p' and tok.text in ('.', '?'):
            raise Unsupported('method call / `?` applied to an `if` or `match` statement', tok.line)

    def parse_header_expr(self):
        saved, self.no_struct = self.no_struct, True
        e = self.parse_expr()
        self.no_struct = saved
        return e

    def parse_if(self):
        line = self.expect('if').line
        if self.accept('let'):
            # `if let PAT = e { A } else { B }`  ==  `match e { PAT => { A }, _ => { B } }`
            pat = self.parse_pat()
            if self.at('|'): raise Unsupported('or-pattern', line)
            self.expect('=')
            scrut = self.parse_header_expr()
            if self.at('&&'): raise Unsupported('`if let` chain', line)
            then = self.parse_block()
            els = self.parse_else(line)
            if els is None: els = Node('block', line, stmts=[], tail=None)
            elif els.kind != 'block': els = Node('block', els.line, stmts=[els], tail=None)
            return Node('matchs', line, scrut=scrut, iflet=True,
                        arms=[Node('arm', line, pat=pat, body=then), Node('arm', els.line, pat=Node('pwild', els.line), body=els)])
        cond = self.parse_header_expr()
        then = self.parse_block()
        els = self.parse_else(line)
        if els is not None and els.kind == 'matchs': els = Node('block', els.line, stmts=[els], tail=None)
        return Node('if', line, cond=cond, then=then, els=els)

    def parse_else(self, line):
        if not self.accept('else'): return None
        return self.parse_if() if self.at('if') else self.parse_block()

    def parse_match(self):
        line = self.expect('match').line
        scrut = self.parse_header_expr()
        saved, self.no_struct = self.no_struct, False
        self.expect('{')
        arms = []
        while not self.accept('}'):
            if self.at('#'):
                self.skip_attribute(); continue
            self.accept('|')
            pat = self.parse_pat()
            if self.at('|'): raise Unsupported('or-pattern', line)
            if self.at('if'): raise Unsupported('match guard', line)
            aline = self.expect('=>').line
            if self.at('{'):
                body = self.parse_block()
                self.accept(',')
            elif self.at('return'):
                self.next()
                e = None if (self.at(',') or self.at('}')) else self.parse_expr()
                body = Node('block', aline, stmts=[Node('return', aline, e=e)], tail=None)
                if not self.at('}'): self.expect(',')
            elif self.at('continue'):
                self.next()
                body = Node('block', aline, stmts=[Node('continue', aline)], tail=None)
                if not self.at('}'): self.expect(',')
            else:
                body = self.parse_expr()
                if not self.at('}'): self.expect(',')
            arms.append(Node('arm', aline, pat=pat, body=body))
        self.no_struct = saved
        return Node('match', line, scrut=scrut, arms=arms)

    def parse_pattern(self):
        """`for` pattern: an identifier or `_`"""
        tok = self.peek()
        if self.at('(') or self.at('&') or self.at('mut') or self.at('ref'):
            raise Unsupported('`for` pattern other than an identifier', tok.line)
        return self.ident().text

    def parse_pat(self):
        """match / closure pattern: _, name, &p, (p, …), Ctor, Ctor(p, …)"""
        tok = self.peek()
        if self.accept('&') or self.accept('&&'):
            if self.at('mut'): raise Unsupported('`&mut` pattern', tok.line)
            return Node('pref', tok.line, p=self.parse_pat())
        if self.accept('('):
            subs = []
            while not self.accept(')'):
                subs.append(self.parse_pat())
                if not self.at(')'): self.expect(',')
            if len(subs) == 1: return subs[0]
            return Node('ptuple', tok.line, subs=subs)
        if tok.kind in ('int', 'str', 'char') or self.at('-'): raise Unsupported('literal pattern', tok.line)
        if self.at('mut') or self.at('ref') or self.at('box'): raise Unsupported(f'`{tok.text}` pattern', tok.line)
        name = self.ident()
        if name.text == '_': return Node('pwild', tok.line)
        path = [name.text]
        while self.accept('::'): path.append(self.ident().text)
        if self.at('{'): raise Unsupported('struct pattern', tok.line)
        if self.at('@'): raise Unsupported('`@` pattern', tok.line)
        if self.accept('('):
            subs = []
            while not self.accept(')'):
                subs.append(self.parse_pat())
                if not self.at(')'): self.expect(',')
            return Node('pctor', tok.line, path=path, subs=subs)
        if len(path) > 1 or path[0][0].isupper():
            return Node('pctor', tok.line, path=path, subs=None)
        return Node('pid', tok.line, name=path[0])

    # ---- expressions (Pratt)
    def can_start_expr(self):
        tok = self.peek()
        if tok.kind in ('int', 'str', 'char'): return True
        if tok.kind == 'id': return tok.text not in ('as', 'in', 'else')
        return tok.kind == 'p' and tok.text in ('(', '[', '&', '&&', '-', '!', '*', '|')

    def parse_expr(self, min_prec=PREC_RANGE):
        tok = self.peek()
        if self.at('..') or self.at('..='):
            if self.at('..='): raise Unsupported('inclusive range `..=`', tok.line)
            self.next()
            hi = self.parse_expr(PREC_RANGE + 1) if self.can_start_expr() else None
            lhs = Node('range', tok.line, lo=None, hi=hi)
        else:
            lhs = self.parse_unary()
        while True:
            tok = self.peek()
            if tok.kind == 'id' and tok.text == 'as' and PREC_AS >= min_prec:
                self.next()
                lhs = Node('cast', tok.line, e=lhs, ty=self.parse_type())
            elif tok.kind == 'p' and tok.text in BIN_PREC and BIN_PREC[tok.text] >= min_prec:
                op, p = self.next().text, BIN_PREC[tok.text]
                rhs = self.parse_expr(p + 1)
                if op in CMP and self.peek().kind == 'p' and self.peek().text in CMP:
                    raise Unsupported('chained comparison', tok.line)
                lhs = Node('bin', tok.line, op=op, l=lhs, r=rhs)
            elif tok.kind == 'p' and tok.text in ('..', '..=') and PREC_RANGE >= min_prec:
                if tok.text == '..=': raise Unsupported('inclusive range `..=`', tok.line)
                self.next()
                hi = self.parse_expr(PREC_RANGE + 1) if self.can_start_expr() else None
                lhs = Node('range', tok.line, lo=lhs, hi=hi)
            elif tok.kind == 'p' and tok.text in ASSIGN_OPS and PREC_ASSIGN >= min_prec:
                self.next()
                rhs = self.parse_expr(PREC_ASSIGN)
                lhs = Node('assign', tok.line, op=tok.text, place=lhs, e=rhs)
            else:
                return lhs

    def parse_unary(self):
        tok = self.peek()
        if tok.kind == 'p' and tok.text in ('&', '&&'):
            self.next()
            mut = bool(self.accept('mut'))
            inner = Node('ref', tok.line, mut=mut, e=self.parse_unary())
            return Node('ref', tok.line, mut=False, e=inner) if tok.text == '&&' else inner
        if tok.kind == 'p' and tok.text in ('-', '!', '*'):
            self.next()
            return Node('unary', tok.line, op=tok.text, e=self.parse_unary())
        return self.parse_postfix(self.parse_primary())

    def parse_args(self, close):
        saved, self.no_struct = self.no_struct, False
        args = []
        while not self.accept(close):
            args.append(self.parse_expr())
            if not self.at(close): self.expect(',')
        self.no_struct = saved
        return args

    def parse_postfix(self, e):
        while True:
            tok = self.peek()
            if self.accept('('):
                e = Node('call', tok.line, f=e, args=self.parse_args(')'))
            elif self.accept('['):
                saved, self.no_struct = self.no_struct, False
                ix = self.parse_expr(); self.expect(']')
                self.no_struct = saved
                e = Node('index', tok.line, e=e, ix=ix)
            elif self.at('.') and self.peek(1).kind == 'id':
                self.next(); name = self.ident()
                if name.text == 'await': raise Unsupported('`.await`', tok.line)
                if self.at('::'): raise Unsupported('turbofish on a method', tok.line)
                if self.accept('('):
                    e = Node('mcall', tok.line, recv=e, name=name.text, args=self.parse_args(')'))
                else:
                    e = Node('field', tok.line, e=e, name=name.text)
            elif self.at('.') and self.peek(1).kind == 'int':
                self.next(); ix = self.next()
                if ix.suffix is not None or not ix.text.isdigit(): raise Unsupported('tuple field access', tok.line)
                e = Node('field', tok.line, e=e, name=f'_{ix.val}')
            elif self.at('?'):
                self.next()
                e = Node('try', tok.line, e=e)
            else:
                return e

    def parse_closure_body(self, tok):
        """an expression, or a block that consists of one expression (`|| { e }`, as rustfmt writes a long closure)"""
        if self.at('->'): raise Unsupported('closure with a return type', tok.line)
        if self.at('{'):
            b = self.parse_block()
            if b.stmts or b.tail is None: raise Unsupported('closure whose block body is more than one expression', tok.line)
            return b.tail
        return self.parse_expr()

    def parse_primary(self):
        tok = self.next()
        if tok.kind == 'int':
            return Node('lit', tok.line, val=tok.val, suffix=tok.suffix)
        if tok.kind == 'str':
            return Node('str', tok.line, val=tok.val)
        if tok.kind == 'char':
            return Node('char', tok.line, val=tok.val)
        if tok.kind == 'lifetime':
            raise Unsupported('label / lifetime in an expression', tok.line)
        if tok.kind == 'id':
            if tok.text in ('true', 'false'):
                return Node('bool', tok.line, val=(tok.text == 'true'))
            if tok.text == 'match':
                self.i -= 1
                return self.parse_match()
            if tok.text == 'if':
                self.i -= 1
                return self.parse_if()          # as a value: accepted only as a `let` initialiser (see let_stmt / value_lines)
            if tok.text in ('loop', 'while', 'unsafe', 'move', 'return', 'break', 'continue', 'async', 'for'):
                raise Unsupported(f'`{tok.text}` expression', tok.line)
            if self.at('!') and not self.at('=', 1) and self.peek(1).kind == 'p' and self.peek(1).text in ('(', '[', '{'):
                self.next()
                if tok.text == 'vec':
                    self.expect('['); elem = self.parse_expr()
                    if not self.accept(';'): raise Unsupported('`vec![a, b, …]` list form', tok.line)
                    cnt = self.parse_expr(); self.expect(']')
                    return Node('repeat', tok.line, elem=elem, count=cnt, what='vec!')
                if tok.text == 'format':
                    self.expect('('); args = self.parse_args(')')
                    if not args or args[0].kind != 'str': raise Unsupported('`format!` without a literal format string', tok.line)
                    return Node('format', tok.line, fmt=args[0].val, args=args[1:])
                raise Unsupported(f'macro `{tok.text}!`', tok.line)
            path, generics = [tok.text], None
            while self.at('::'):
                self.next()
                if self.accept('<'):
                    if generics is not None: raise Unsupported('two generic argument lists in a path', tok.line)
                    generics = []
                    while not self.at('>') and not self.at('>>'):
                        generics.append(self.parse_type())
                        if not self.at('>') and not self.at('>>'): self.expect(',')
                    self.close_angle()
                    continue
                path.append(self.ident().text)
            if self.at('{') and not self.no_struct:
                self.next()
                fields = []
                while not self.accept('}'):
                    if self.at('..'): raise Unsupported('struct update syntax', tok.line)
                    fname = self.ident()
                    if self.accept(':'):
                        saved, self.no_struct = self.no_struct, False
                        fe = self.parse_expr()
                        self.no_struct = saved
                    else:
                        fe = Node('path', fname.line, path=[fname.text], generics=None)
                    fields.append((fname.text, fe))
                    if not self.at('}'): self.expect(',')
                return Node('structlit', tok.line, path=path, fields=fields)
            return Node('path', tok.line, path=path, generics=generics)
        if tok.kind == 'p' and tok.text == '(':
            saved, self.no_struct = self.no_struct, False
            if self.accept(')'):
                self.no_struct = saved
                return Node('unit', tok.line)
            e = self.parse_expr()
            if self.at(','):
                parts = [e]
                while self.accept(','):
                    if self.at(')'): break
                    parts.append(self.parse_expr())
                self.expect(')')
                self.no_struct = saved
                return Node('tuple', tok.line, parts=parts)
            self.expect(')')
            self.no_struct = saved
            return Node('paren', tok.line, e=e)
        if tok.kind == 'p' and tok.text == '[':
            saved, self.no_struct = self.no_struct, False
            if self.accept(']'):
                self.no_struct = saved
                return Node('array', tok.line, elems=[])
            elem = self.parse_expr()
            if self.accept(';'):
                cnt = self.parse_expr(); self.expect(']')
                self.no_struct = saved
                return Node('repeat', tok.line, elem=elem, count=cnt, what='array')
            elems = [elem]
            while self.accept(','):
                if self.at(']'): break
                elems.append(self.parse_expr())
            self.expect(']')
            self.no_struct = saved
            return Node('array', tok.line, elems=elems)
        if tok.kind == 'p' and tok.text == '|':
            params = []
            while not self.accept('|'):
                params.append(self.parse_pat())
                if self.at(':'): raise Unsupported('closure parameter with a type annotation', tok.line)
                if not self.at('|'): self.expect(',')
            return Node('closure', tok.line, params=params, body=self.parse_closure_body(tok))
        if tok.kind == 'p' and tok.text == '||':
            return Node('closure', tok.line, params=[], body=self.parse_closure_body(tok))
        raise Unsupported(f'expression starting with `{tok.text}`', tok.line)


# ------------------------------------------------------------------------------------------------ types
#   'str' 'bool' 'char' 'unit' 'usize' 'u64' 'u32' 'u8'
#   ('list', T) ('opt', T) ('res', T, E) ('tuple', (T, …)) ('adt', name-or-path)   and unification variables

class TVar:
    """a type not yet known; `int` = the type of an unsuffixed integer literal (Nat if nothing fixes it)"""
    def __init__(self, int_=False): self.bound, self.int = None, int_


def resolve(t):
    while isinstance(t, TVar) and t.bound is not None:
        t = t.bound
    return t


NATLIKE = ('usize', 'u64')
BYTES = ('list', 'u8')


def is_int(t):
    t = resolve(t)
    return (isinstance(t, TVar) and t.int) or t in INT_TYPES


def is_natlike(t):
    t = resolve(t)
    return (isinstance(t, TVar) and t.int) or t in NATLIKE


def head(t):
    t = resolve(t)
    return t[0] if isinstance(t, tuple) else t


def show_type(t):
    t = resolve(t)
    if isinstance(t, TVar): return '{integer}' if t.int else '_'
    if isinstance(t, tuple):
        if t[0] == 'list': return f'[{show_type(t[1])}]'
        if t[0] == 'opt': return f'Option<{show_type(t[1])}>'
        if t[0] == 'res': return f'Result<{show_type(t[1])}, {show_type(t[2])}>'
        if t[0] == 'tuple': return '(' + ', '.join(show_type(x) for x in t[1]) + ')'
        if t[0] == 'adt': return t[1] if isinstance(t[1], str) else '::'.join(t[1])
        if t[0] == 'mutref': return '&mut ' + show_type(t[1])
    return str(t)


def lname(name):
    return f'«{name}»' if name in LEAN_KEYWORDS else name


def lean_str(s):
    out = []
    for ch in s:
        o = ord(ch)
        if ch == '\\': out.append('\\\\')
        elif ch == '"': out.append('\\"')
        elif ch == '\n': out.append('\\n')
        elif ch == '\t': out.append('\\t')
        elif ch == '\r': out.append('\\r')
        elif o < 0x20 or o == 0x7f: out.append('\\x%02x' % o)
        else: out.append(ch)
    return '"' + ''.join(out) + '"'


def lean_char(ch):
    o = ord(ch)
    if ch == '\\': return "'\\\\'"
    if ch == "'": return "'\\''"
    if ch == '\n': return "'\\n'"
    if ch == '\t': return "'\\t'"
    if ch == '\r': return "'\\r'"
    if o < 0x20 or o == 0x7f: return "'\\x%02x'" % o
    return f"'{ch}'"


# Meaning of the items imported from other crates, keyed by the full path after resolving `use` aliases.
SELF = object()
EXTERN_TYPES = {
    ('kestrel_crypto', 'PublicKey'): dict(
        lean='RsStr.PublicKey',
        methods={'as_bytes': ([], BYTES, 'RsStr.PublicKey.as_bytes')},
        assoc={'try_from': ([BYTES], ('res', SELF, 'str'), 'RsStr.PublicKey.try_from')}),
    ('kestrel_crypto', 'PrivateKey'): dict(
        lean='RsStr.PrivateKey',
        methods={'as_bytes': ([], BYTES, 'RsStr.PrivateKey.as_bytes')},
        assoc={'try_from': ([BYTES], ('res', SELF, 'str'), 'RsStr.PrivateKey.try_from')}),
}
#   an enum defined elsewhere whose constructors are error classes (payloads dropped): path -> Lean name of the inductive
EXTERN_ERROR_ENUMS = {('crate', 'errors', 'KeyringError'): 'KeyringError'}
#   functions: (parameter types, result type, Lean name) | 'identity'
EXTERN_FNS = {
    ('kestrel_crypto', 'sha256'): ([BYTES], BYTES, 'RsStr.kc_sha256'),
    ('kestrel_crypto', 'scrypt'): ([BYTES, BYTES, 'u32', 'u32', 'u32', 'usize'], BYTES, 'RsStr.kc_scrypt'),
    ('kestrel_crypto', 'chapoly_encrypt_ietf'): ([BYTES, BYTES, BYTES, BYTES], BYTES, 'RsStr.kc_chapoly_encrypt_ietf'),
    ('kestrel_crypto', 'chapoly_decrypt_ietf'): ([BYTES, BYTES, BYTES, BYTES], ('res', BYTES, 'unit'), 'RsStr.kc_chapoly_decrypt_ietf'),
    ('ct_codecs', 'Base64', 'encode_to_string'): ([BYTES], ('res', 'str', 'unit'), 'RsStr.b64_encode_to_string'),
    ('zeroize', 'Zeroizing', 'new'): 'identity',
}
#   `Name<T>` that is modelled by `T` itself (`Zeroizing::new`, listed above, is the identity)
EXTERN_WRAPPER_TYPES = {('zeroize', 'Zeroizing')}
#   `Base64::decode_to_vec(s, None)`: first argument a string (its UTF-8 bytes are decoded), second literally `None`
EXTERN_B64_DECODE = ('ct_codecs', 'Base64', 'decode_to_vec')

# The functions the equality theorems (lean/KestrelProps/KeyringSrc.lean) are stated about, as (impl type, fn).  They become plain
# `def`s; EVERY OTHER function of the file (accessors, helpers extracted from a target) and every `const` becomes a `@[simp] def`,
# so that a proof about a target sees through a named literal or an extracted helper.  A target missing from the file is refused.
TARGETS = [('EncodedPk', 'try_from'), ('EncodedSk', 'try_from'),
           ('Keyring', 'new'), ('Keyring', 'get_key'), ('Keyring', 'get_name_from_key'), ('Keyring', 'lock_private_key'),
           ('Keyring', 'unlock_private_key'), ('Keyring', 'encode_public_key'), ('Keyring', 'decode_public_key'),
           ('Keyring', 'serialize_key'), ('Keyring', 'parse_config'), ('Keyring', 'add_key'), ('Keyring', 'valid_key_name')]

MUTATING_METHODS = ('retain', 'push', 'extend_from_slice', 'copy_from_slice')
EFFECT_KINDS = ('return', 'continue', 'try')


def walk(x, f):
    """apply f to every Node below x (not descending into closures)"""
    if isinstance(x, Node):
        f(x)
        if x.kind == 'closure': return
        for k, v in x.__dict__.items():
            if k in ('kind', 'line', 'tv'): continue
            walk(v, f)
    elif isinstance(x, (list, tuple)):
        for y in x: walk(y, f)


def has_effects(x):
    found = []
    walk(x, lambda n: found.append(n) if n.kind in EFFECT_KINDS else None)
    return bool(found)


def atom(text):
    """parenthesise a Lean term unless it is a single token or already enclosed in one pair of brackets"""
    if ' ' not in text: return text
    if text[0] in '([{' and text[-1] == {'(': ')', '[': ']', '{': '}'}[text[0]]:
        depth = 0
        for i, ch in enumerate(text):
            if ch in '([{': depth += 1
            elif ch in ')]}':
                depth -= 1
                if depth == 0 and i != len(text) - 1: break
        else:
            return text
    return f'({text})'


def ind(lines, n=1):
    return ['  ' * n + l for l in lines]


class Var:
    def __init__(self, name, ty, mutable, order, kind):
        self.name, self.ty, self.mutable, self.order, self.kind = name, ty, mutable, order, kind


class Sig:
    def __init__(self, fn, params, ret, trait):
        self.owner, self.name, self.self_kind, self.line = fn.owner, fn.name, fn.self_kind, fn.line
        self.params, self.ret, self.trait = params, ret, trait      # params: [(name, type, is_mutref)]
        self.key = (fn.owner, fn.name)
        self.lean = f'{fn.owner}.{lname(fn.name)}' if fn.owner else lname(fn.name)
        self.muts = [p for p in params if p[2]]


class Ctx:
    def __init__(self, flow, loop_state):
        self.flow, self.loop_state = flow, loop_state


class Globals:
    def __init__(self, uses, src_lines):
        self.uses, self.src_lines = uses, src_lines
        self.structs, self.consts, self.fns = {}, {}, {}
        self.err_ctors = {}      # enum path -> [constructor names in order of appearance]
        self.unwraps = []        # descriptions of unwrap / expect sites
        self.calls = {}          # fn key -> set of fn keys it calls
        self.final = False

    def resolve_path(self, path):
        if path[0] in self.uses:
            return tuple(self.uses[path[0]] + list(path[1:]))
        return tuple(path)

    def norm_type(self, t, line, self_ty=None, assoc=None):
        """parsed type -> internal type: user structs stay ('adt', name); imported names become ('adt', full path)"""
        if isinstance(t, tuple):
            if t[0] == 'wrapper':
                if self.resolve_path([t[1]]) in EXTERN_WRAPPER_TYPES and len(t[2]) == 1:
                    return self.norm_type(t[2][0], line, self_ty, assoc)
                raise Unsupported(f'generic or qualified type `{t[1]}…`', t[3])
            if t[0] == 'adt':
                n = t[1]
                if n == 'Self':
                    if self_ty is None: raise Unsupported('`Self` outside an impl', line)
                    return self_ty
                if n in self.structs: return ('adt', n)
                full = self.resolve_path([n])
                if full in EXTERN_TYPES or full in EXTERN_ERROR_ENUMS: return ('adt', full)
                raise Unsupported(f'type `{n}`', line)
            if t[0] == 'assoc':
                if assoc is None or t[1] not in assoc: raise Unsupported(f'associated type `Self::{t[1]}`', line)
                return self.norm_type(assoc[t[1]], line, self_ty, assoc)
            if t[0] == 'tuple':
                return ('tuple', tuple(self.norm_type(x, line, self_ty, assoc) for x in t[1]))
            return (t[0],) + tuple(self.norm_type(x, line, self_ty, assoc) for x in t[1:])
        return t

    def lean_type(self, t, line=None, what='a value'):
        t = resolve(t)
        if isinstance(t, TVar):
            if t.int: return 'Nat'
            raise Unsupported(f'cannot determine the type of {what}', line)
        if t == 'str': return 'Str'
        if t == 'bool': return 'Bool'
        if t == 'char': return 'Char'
        if t == 'unit': return 'Unit'
        if t in NATLIKE: return 'Nat'
        if t == 'u32': return 'UInt32'
        if t == 'u8': return 'UInt8'
        p = lambda s: s if ' ' not in s else f'({s})'
        if t[0] == 'list': return f'List {p(self.lean_type(t[1], line, what))}'
        if t[0] == 'opt': return f'Option {p(self.lean_type(t[1], line, what))}'
        if t[0] == 'res': return f'Except {p(self.lean_type(t[2], line, what))} {p(self.lean_type(t[1], line, what))}'
        if t[0] == 'tuple': return ' × '.join(p(self.lean_type(x, line, what)) for x in t[1])
        if t[0] == 'adt':
            if isinstance(t[1], str): return t[1]
            if t[1] in EXTERN_TYPES: return EXTERN_TYPES[t[1]]['lean']
            if t[1] in EXTERN_ERROR_ENUMS: return EXTERN_ERROR_ENUMS[t[1]]
        raise Unsupported(f'no Lean type for {show_type(t)}', line)


# ------------------------------------------------------------------------------------------------ translation

class FnTr:
    def __init__(self, G, fn, sig):
        self.G, self.fn, self.sig = G, fn, sig
        self.counter = 0
        self.scopes = [{}]
        self.tracked = []            # stack of lists of variables whose values are collected at the end of a construct
        self.last_comment_line = None
        self.ret = sig.ret if sig is not None else None
        self.calls = set()

    def bad(self, what, line):
        raise Unsupported(what, line)

    # ---- environment
    def lookup_opt(self, name):
        for sc in reversed(self.scopes):
            if name in sc: return sc[name]
        return None

    def lookup(self, name, line):
        v = self.lookup_opt(name)
        if v is None: self.bad(f'unknown variable `{name}`', line)
        return v

    def declare(self, name, ty, mutable, kind, line):
        old = self.lookup_opt(name)
        if old is not None:
            for tr in self.tracked:
                if old in tr:
                    self.bad(f'binding `{name}` shadows a variable that is being updated in the enclosing branch/loop/function', line)
        self.counter += 1
        v = Var(name, ty, mutable, self.counter, kind)
        self.scopes[-1][name] = v
        return v

    # ---- types
    def unify(self, a, b, line, what):
        a, b = resolve(a), resolve(b)
        if a is b: return a
        if isinstance(a, TVar) or isinstance(b, TVar):
            if not isinstance(a, TVar): a, b = b, a
            if isinstance(b, TVar):
                if a.int and not b.int: b.bound = a; return a
                a.bound = b; return b
            if a.int and not is_int(b): self.bad(f'{what}: an integer was expected, found {show_type(b)}', line)
            a.bound = b; return b
        if isinstance(a, tuple) and isinstance(b, tuple) and a[0] == b[0]:
            if a[0] == 'adt':
                if a[1] != b[1]: self.bad(f'{what}: types {show_type(a)} and {show_type(b)} differ', line)
                return a
            xs, ys = (a[1], b[1]) if a[0] == 'tuple' else (a[1:], b[1:])
            if len(xs) != len(ys): self.bad(f'{what}: types {show_type(a)} and {show_type(b)} differ', line)
            for x, y in zip(xs, ys): self.unify(x, y, line, what)
            return a
        if a != b: self.bad(f'{what}: types {show_type(a)} and {show_type(b)} differ', line)
        return a

    def node_tv(self, node, int_=False):
        if not hasattr(node, 'tv'): node.tv = TVar(int_)
        return node.tv

    def lt(self, t, line, what='a value'):
        return self.G.lean_type(t, line, what)

    def asc(self, t, line, what):
        """` : T` when the type is known (always in the final pass)"""
        try:
            return ' : ' + self.G.lean_type(t, line, what)
        except Unsupported:
            if self.G.final: raise
            return ''

    # ---- expressions: return (lean text, type, atomic?)
    def paren(self, r):
        text, _, atomic = r
        return text if atomic else f'({text})'

    def expr(self, e, exp=None):
        r = self.expr0(e, exp)
        if exp is not None: self.unify(r[1], exp, e.line, 'expression')
        return r

    def expr0(self, e, exp):
        k = e.kind
        if k == 'lit':
            if e.suffix is not None:
                if e.suffix not in INT_TYPES: self.bad(f'integer suffix `{e.suffix}`', e.line)
                return (f'({e.val} : {self.lt(e.suffix, e.line)})', e.suffix, True)
            return (str(e.val), self.node_tv(e, True), True)
        if k == 'str': return (f'{lean_str(e.val)}.toList', 'str', True)
        if k == 'char': return (lean_char(e.val), 'char', True)
        if k == 'bool': return ('true' if e.val else 'false', 'bool', True)
        if k == 'unit': return ('()', 'unit', True)
        if k == 'paren': return self.expr0(e.e, exp)
        if k == 'tuple':
            parts = [self.expr(p) for p in e.parts]
            return ('(' + ', '.join(p[0] for p in parts) + ')', ('tuple', tuple(p[1] for p in parts)), True)
        if k == 'path': return self.path_value(e, exp)
        if k == 'ref': return self.expr0(e.e, exp)
        if k == 'unary':
            if e.op == '*': return self.expr0(e.e, exp)
            if e.op == '!':
                r = self.expr(e.e)
                if resolve(r[1]) != 'bool': self.bad(f'`!` on {show_type(r[1])} (only on bool)', e.line)
                return (f'!{self.paren(r)}', 'bool', False)
            self.bad(f'unary `{e.op}`', e.line)
        if k == 'cast': self.bad('`as` cast', e.line)
        if k == 'bin': return self.binop(e)
        if k == 'index':
            base = self.expr(e.e)
            if head(base[1]) != 'list': self.bad(f'indexing a value of type {show_type(base[1])}', e.line)
            elem = resolve(base[1])[1]
            if e.ix.kind == 'range':
                return (self.slice_text(self.paren(base), e.ix), ('list', elem), False)
            ix = self.expr(e.ix, 'usize')
            return (f'Rs.idx {self.paren(base)} {self.paren(ix)}', elem, False)
        if k == 'field':
            base = self.expr(e.e)
            bt = resolve(base[1])
            if head(bt) != 'adt' or bt[1] not in self.G.structs:
                self.bad(f'field `.{e.name.lstrip("_")}` of a value of type {show_type(bt)}', e.line)
            for fname, fty in self.G.structs[bt[1]].fields:
                if fname == e.name: return (f'{self.paren(base)}.{lname(fname)}', fty, True)
            self.bad(f'struct `{bt[1]}` has no field `{e.name.lstrip("_")}`', e.line)
        if k == 'range': self.bad('range expression outside an index', e.line)
        if k == 'repeat':
            elem = self.expr(e.elem)
            if isinstance(resolve(elem[1]), TVar): self.bad(f'{e.what} element without a type suffix', e.line)
            cnt = self.expr(e.count, 'usize')
            return (f'List.replicate {self.paren(cnt)} {self.paren(elem)}', ('list', resolve(elem[1])), False)
        if k == 'array':
            ety = TVar()
            if exp is not None and head(exp) == 'list': ety = resolve(exp)[1]
            parts = [self.expr(p, ety) for p in e.elems]
            return ('[' + ', '.join(p[0] for p in parts) + ']', ('list', ety), True)
        if k == 'call': return self.call_expr(e, exp)
        if k == 'mcall': return self.mcall_expr(e, exp)
        if k == 'structlit': return self.struct_lit(e)
        if k == 'format': return self.format_expr(e)
        if k == 'closure': self.bad('closure outside the argument of retain / find / any / map / map_err / ok_or_else', e.line)
        if k in ('match', 'matchs'): self.bad('`match` / `if let` expression other than as a statement, a `let` initialiser or the result of the function', e.line)
        if k == 'if': self.bad('`if` expression other than as a statement, a `let` initialiser or the result of the function', e.line)
        if k == 'try': self.bad('`?` other than at the end of a `let` initialiser or of an expression statement', e.line)
        if k == 'assign': self.bad('assignment used as an expression', e.line)
        self.bad(f'expression {k}', e.line)

    def path_value(self, e, exp):
        path = e.path
        if len(path) == 1:
            n = path[0]
            v = self.lookup_opt(n)
            if v is not None: return (lname(v.name), v.ty, True)
            if n in self.G.consts: return (lname(n), self.G.consts[n], True)
            if n == 'None':
                return ('none', ('opt', self.node_tv(e)), True)
            self.bad(f'unknown variable `{n}`', e.line)
        full = self.G.resolve_path(path)
        if full[:-1] in EXTERN_ERROR_ENUMS:
            return self.err_ctor(full, e.line)
        self.bad(f'path `{"::".join(path)}` used as a value', e.line)

    def err_ctor(self, full, line):
        enum, ctor = full[:-1], full[-1]
        lst = self.G.err_ctors.setdefault(enum, [])
        if ctor not in lst: lst.append(ctor)
        return (f'{EXTERN_ERROR_ENUMS[enum]}.{lname(ctor)}', ('adt', enum), True)

    def slice_bounds(self, rng):
        lo = self.expr(rng.lo, 'usize') if rng.lo is not None else None
        hi = self.expr(rng.hi, 'usize') if rng.hi is not None else None
        return lo, hi

    def slice_text(self, base, rng):
        lo, hi = self.slice_bounds(rng)
        if lo is None and hi is None: return base
        if hi is None: return f'{base}.drop {self.paren(lo)}'
        if lo is None: return f'{base}.take {self.paren(hi)}'
        return f'({base}.drop {self.paren(lo)}).take ({self.paren(hi)} - {self.paren(lo)})'

    def binop(self, e):
        op = e.op
        l = self.expr(e.l)
        r = self.expr(e.r)
        if op in ('&&', '||'):
            if resolve(l[1]) != 'bool' or resolve(r[1]) != 'bool': self.bad(f'`{op}` on non-boolean operands', e.line)
            return (f'{self.paren(l)} {op} {self.paren(r)}', 'bool', False)
        if op in ('==', '!='):
            ty = resolve(self.unify(l[1], r[1], e.line, f'operands of `{op}`'))
            ok = is_int(ty) or ty in ('str', 'char', 'bool') or (head(ty) == 'list' and (is_int(ty[1]) or resolve(ty[1]) in ('str', 'char')))
            if not ok: self.bad(f'`{op}` on values of type {show_type(ty)}', e.line)
            return (f'{self.paren(l)} {op} {self.paren(r)}', 'bool', False)
        if not is_int(l[1]) or not is_int(r[1]):
            self.bad(f'operator `{op}` on {show_type(l[1])} and {show_type(r[1])}', e.line)
        ty = self.unify(l[1], r[1], e.line, f'operands of `{op}`')
        if op in CMP:
            sym = {'<': '<', '>': '>', '<=': '≤', '>=': '≥'}[op]
            return (f'decide ({self.paren(l)} {sym} {self.paren(r)})', 'bool', False)
        if op in ('+', '-', '*', '/', '%'):
            if not is_natlike(ty):
                self.bad(f'plain `{op}` on {show_type(ty)} (may panic on overflow)', e.line)
            return (f'{self.paren(l)} {op} {self.paren(r)}', ty, False)
        self.bad(f'operator `{op}`', e.line)

    def closure(self, c, ptypes, what):
        """-> (lean text, result type)"""
        if c.kind != 'closure': self.bad(f'{what}: a closure literal was expected', c.line)
        if not c.params: self.bad(f'{what}: closure without parameters', c.line)
        if len(c.params) != len(ptypes): self.bad(f'{what}: closure with {len(c.params)} parameters', c.line)
        if has_effects(c.body): self.bad('`return` / `?` / `continue` inside a closure', c.line)
        self.scopes.append({})
        names = [self.pattern(p, t) for p, t in zip(c.params, ptypes)]
        r = self.expr(c.body)
        self.scopes.pop()
        return (f'(fun {" ".join(names)} => {r[0]})', r[1])

    def pattern(self, p, ty):
        """declares the variables of the pattern in the current scope; -> lean pattern text"""
        ty = resolve(ty)
        if p.kind == 'pwild': return '_'
        if p.kind == 'pref': return self.pattern(p.p, ty)
        if p.kind == 'pid':
            v = self.declare(p.name, ty, False, 'patvar', p.line)
            return lname(v.name)
        if p.kind == 'ptuple':
            if head(ty) != 'tuple' or len(ty[1]) != len(p.subs): self.bad(f'tuple pattern for a value of type {show_type(ty)}', p.line)
            return '(' + ', '.join(self.pattern(s, t) for s, t in zip(p.subs, ty[1])) + ')'
        if p.kind == 'pctor':
            if len(p.path) == 1:
                c, n = p.path[0], (len(p.subs) if p.subs is not None else None)
                if c == 'None' and n is None and head(ty) == 'opt': return 'none'
                if c == 'Some' and n == 1 and head(ty) == 'opt': return f'some {self.sub_pattern(p.subs[0], ty[1])}'
                if c == 'Ok' and n == 1 and head(ty) == 'res': return f'.ok {self.sub_pattern(p.subs[0], ty[1])}'
                if c == 'Err' and n == 1 and head(ty) == 'res': return f'.error {self.sub_pattern(p.subs[0], ty[2])}'
            self.bad(f'pattern `{"::".join(p.path)}` for a value of type {show_type(ty)}', p.line)
        self.bad('pattern', p.line)

    def sub_pattern(self, p, ty):
        t = self.pattern(p, ty)
        return t if (' ' not in t or t.startswith('(')) else f'({t})'

    def struct_lit(self, e):
        sname = e.path[0]
        if e.path == ['Self'] and getattr(self.fn, 'owner', None): sname = self.fn.owner
        if len(e.path) != 1 or sname not in self.G.structs: self.bad(f'struct literal `{"::".join(e.path)}`', e.line)
        st = self.G.structs[sname]
        if st.tuple: self.bad('brace literal of a tuple struct', e.line)
        given = dict()
        for fname, fe in e.fields:
            if fname in given: self.bad(f'field `{fname}` given twice', e.line)
            given[fname] = fe
        parts = []
        for fname, fty in st.fields:
            if fname not in given: self.bad(f'struct literal without field `{fname}`', e.line)
            r = self.expr(given.pop(fname), fty)
            parts.append(f'{lname(fname)} := {r[0]}')
        if given: self.bad(f'struct `{st.name}` has no field `{next(iter(given))}`', e.line)
        return ('{ ' + ', '.join(parts) + ' : ' + st.name + ' }', ('adt', st.name), True)

    def format_expr(self, e):
        pieces, cur, i, s = [], [], 0, e.fmt
        fargs, positional = [], list(e.args)
        while i < len(s):
            if s.startswith('{{', i): cur.append('{'); i += 2
            elif s.startswith('}}', i): cur.append('}'); i += 2
            elif s.startswith('{}', i):
                pieces.append(''.join(cur)); cur = []; i += 2
                if not positional: self.bad('`format!`: number of `{}` and of arguments differ', e.line)
                fargs.append(positional.pop(0))
            elif s[i] == '{' and s.find('}', i) > 0 and s[i + 1:s.find('}', i)].isidentifier():
                # inlined argument `{name}`: the variable of that name
                j = s.find('}', i)
                pieces.append(''.join(cur)); cur = []
                fargs.append(Node('path', e.line, path=[s[i + 1:j]], generics=None)); i = j + 1
            elif s[i] in '{}': self.bad('`format!` placeholder other than `{}` / `{name}`', e.line)
            else: cur.append(s[i]); i += 1
        pieces.append(''.join(cur))
        if positional: self.bad('`format!`: number of `{}` and of arguments differ', e.line)
        out = []
        for j, a in enumerate(fargs):
            if pieces[j]: out.append(f'{lean_str(pieces[j])}.toList')
            r = self.expr(a)
            if resolve(r[1]) != 'str': self.bad(f'`format!` argument of type {show_type(r[1])} (only strings)', a.line)
            out.append(self.paren(r))
        if pieces[-1]: out.append(f'{lean_str(pieces[-1])}.toList')
        if not out: return ('([] : Str)', 'str', True)
        return (' ++ '.join(out), 'str', len(out) == 1)

    def check_dropped(self, args):
        """arguments that are not translated (payload of an error constructor) must at least be free of effects"""
        for a in args:
            if has_effects(a): self.bad('`?` / `return` inside the (dropped) payload of an error constructor', a.line)
            bad = []
            walk(a, lambda n: bad.append(n) if n.kind in ('assign',) or (n.kind == 'mcall' and n.name in MUTATING_METHODS) else None)
            if bad: self.bad('assignment inside the (dropped) payload of an error constructor', a.line)

    def call_expr(self, e, exp):
        if e.f.kind != 'path': self.bad('call of a computed function', e.line)
        path, G = e.f.path, self.G
        if len(path) == 1 and self.lookup_opt(path[0]) is None:
            n = path[0]
            if n == 'Self' and getattr(self.fn, 'owner', None): n = self.fn.owner      # `Self(..)` of a tuple struct
            if n in ('Some', 'Ok', 'Err'):
                if len(e.args) != 1: self.bad(f'`{n}` with {len(e.args)} arguments', e.line)
                ex = resolve(exp) if exp is not None else None
                if n == 'Some':
                    r = self.expr(e.args[0], ex[1] if head(ex) == 'opt' else None)
                    return (f'some {self.paren(r)}', ('opt', r[1]), False)
                if n == 'Ok':
                    r = self.expr(e.args[0], ex[1] if head(ex) == 'res' else None)
                    return (f'Except.ok {self.paren(r)}', ('res', r[1], ex[2] if head(ex) == 'res' else self.node_tv(e)), False)
                r = self.expr(e.args[0], ex[2] if head(ex) == 'res' else None)
                return (f'Except.error {self.paren(r)}', ('res', ex[1] if head(ex) == 'res' else self.node_tv(e), r[1]), False)
            if n in G.structs and G.structs[n].tuple:
                st = G.structs[n]
                if len(e.args) != len(st.fields): self.bad(f'`{n}` with {len(e.args)} arguments', e.line)
                args = [self.paren(self.expr(a, fty)) for a, (_, fty) in zip(e.args, st.fields)]
                return (' '.join([f'{n}.mk'] + args), ('adt', n), False)
            if (None, n) in G.fns: return self.user_call_expr(G.fns[(None, n)], None, e)
        if len(path) == 2 and ((path[0] in G.structs) or (path[0] == 'Self' and getattr(self.fn, 'owner', None))):
            owner = self.fn.owner if path[0] == 'Self' else path[0]
            if (owner, path[1]) in G.fns:
                sig = G.fns[(owner, path[1])]
                if sig.self_kind is not None: self.bad(f'method `{owner}::{path[1]}` called as an associated function', e.line)
                return self.user_call_expr(sig, None, e)
            self.bad(f'`{owner}::{path[1]}` is not defined in the file', e.line)
        if path[0] in ('Vec', 'String') and path[1:] == ['new'] and not e.args:
            if path[0] == 'String': return ('([] : Str)', 'str', True)
            ety = self.node_tv(e)      # kept on the node: the second pass knows what the first one found out about the elements
            if e.f.generics:
                if len(e.f.generics) != 1: self.bad('`Vec::<…>` with several type arguments', e.line)
                ety = G.norm_type(e.f.generics[0], e.line)
            return ('[]', ('list', ety), True)
        if path in (['Vec', 'with_capacity'], ['String', 'with_capacity']) and len(e.args) == 1:
            if has_effects(e.args[0]): self.bad('`?` / `return` inside the argument of `with_capacity`', e.line)
            self.expr(e.args[0], 'usize')       # type-checked, then dropped: the capacity is not observable
            if path[0] == 'String': return ('([] : Str)', 'str', True)
            ety = self.node_tv(e)      # kept on the node: the second pass knows what the first one found out about the elements
            if e.f.generics:
                if len(e.f.generics) != 1: self.bad('`Vec::<…>` with several type arguments', e.line)
                ety = G.norm_type(e.f.generics[0], e.line)
            return ('[]', ('list', ety), True)
        if path == ['String', 'from'] and len(e.args) == 1:
            return self.expr(e.args[0], 'str')
        if e.f.generics: self.bad('generic arguments in a path', e.line)
        full = G.resolve_path(path)
        if full[:-1] in EXTERN_ERROR_ENUMS:
            self.check_dropped(e.args)
            return self.err_ctor(full, e.line)
        if full == EXTERN_B64_DECODE:
            if len(e.args) != 2: self.bad('`decode_to_vec` arity', e.line)
            a1 = e.args[1]
            if not (a1.kind == 'path' and a1.path == ['None'] and self.lookup_opt('None') is None):
                self.bad('`Base64::decode_to_vec` with a set of ignored characters (second argument other than `None`)', e.line)
            r = self.expr(e.args[0])
            if resolve(r[1]) != 'str': self.bad(f'`Base64::decode_to_vec` of a value of type {show_type(r[1])} (only strings)', e.line)
            return (f'RsStr.b64_decode_to_vec {self.paren(r)}', ('res', BYTES, 'unit'), False)
        if full in EXTERN_FNS:
            spec = EXTERN_FNS[full]
            if spec == 'identity':
                if len(e.args) != 1: self.bad(f'`{"::".join(path)}` with {len(e.args)} arguments', e.line)
                return self.expr0(e.args[0], exp)
            ptys, rty, lean = spec
            if len(e.args) != len(ptys): self.bad(f'`{"::".join(path)}` with {len(e.args)} arguments', e.line)
            args = [self.paren(self.expr(a, t)) for a, t in zip(e.args, ptys)]
            return (' '.join([lean] + args), rty, False)
        if full[:-1] in EXTERN_TYPES and full[-1] in EXTERN_TYPES[full[:-1]]['assoc']:
            ptys, rty, lean = EXTERN_TYPES[full[:-1]]['assoc'][full[-1]]
            if len(e.args) != len(ptys): self.bad(f'`{"::".join(path)}` with {len(e.args)} arguments', e.line)
            args = [self.paren(self.expr(a, t)) for a, t in zip(e.args, ptys)]
            return (' '.join([lean] + args), self.subst_self(rty, ('adt', full[:-1])), False)
        self.bad(f'call of `{"::".join(full)}`, which is neither defined in the file nor a known library function', e.line)

    def subst_self(self, t, s):
        if t is SELF: return s
        if isinstance(t, tuple) and t[0] in ('list', 'opt', 'res'):
            return (t[0],) + tuple(self.subst_self(x, s) for x in t[1:])
        if isinstance(t, tuple) and t[0] == 'tuple':
            return ('tuple', tuple(self.subst_self(x, s) for x in t[1]))
        return t

    def user_call_expr(self, sig, recv, e):
        if sig.muts: self.bad(f'call of `{sig.lean}` (which has `&mut` parameters) inside an expression', e.line)
        if sig.ret is None: self.bad(f'call of `{sig.lean}` (no result) inside an expression', e.line)
        text, _ = self.user_call_text(sig, recv, e)
        return (text, sig.ret, False)

    def user_call_text(self, sig, recv, e):
        """-> (application text, [(variable, …) for each &mut argument])"""
        if len(e.args) != len(sig.params): self.bad(f'`{sig.lean}` called with {len(e.args)} arguments', e.line)
        self.calls.add(sig.key)
        args, outs = [], []
        if recv is not None: args.append(self.paren(recv))
        for a, (pn, pt, mut) in zip(e.args, sig.params):
            if mut:
                if a.kind != 'ref' or not a.mut: self.bad(f'argument `{pn}` of `{sig.lean}`: `&mut` expected', a.line)
                inner = a.e
                while inner.kind == 'paren': inner = inner.e
                if inner.kind != 'path' or len(inner.path) != 1:
                    self.bad(f'argument `{pn}` of `{sig.lean}`: only a variable can be borrowed mutably', a.line)
                v = self.lookup(inner.path[0], a.line)
                if not v.mutable: self.bad(f'`{v.name}` is not mutable', a.line)
                self.unify(v.ty, pt, a.line, f'argument `{pn}` of `{sig.lean}`')
                if v in outs: self.bad(f'`{v.name}` borrowed mutably twice in one call', a.line)
                outs.append(v); args.append(lname(v.name))
            else:
                args.append(self.paren(self.expr(a, pt)))
        return ' '.join([sig.lean] + args), outs

    def unwrap_site(self, e, what):
        if self.G.final:
            src = self.G.src_lines[e.line - 1].strip() if 1 <= e.line <= len(self.G.src_lines) else ''
            self.G.unwraps.append(f'{self.sig.lean if self.sig else "const"} (line {e.line}) {what}: `{src}`')

    def mcall_expr(self, e, exp):
        name, args, G = e.name, e.args, self.G
        narg = len(args)

        def arity(n):
            if narg != n: self.bad(f'`.{name}` with {narg} arguments', e.line)

        if name == 'find' and e.recv.kind == 'mcall' and e.recv.name == 'iter' and not e.recv.args:
            arity(1)
            l = self.expr(e.recv.recv)
            if head(l[1]) != 'list': self.bad(f'`.iter()` on a value of type {show_type(l[1])}', e.line)
            elem = resolve(l[1])[1]
            clo, rty = self.closure(args[0], [elem], '`.find`')
            if resolve(rty) != 'bool': self.bad('`.find` with a non-boolean closure', e.line)
            return (f'List.find? {clo} {self.paren(l)}', ('opt', elem), False)
        if name == 'any' and e.recv.kind == 'mcall' and e.recv.name == 'iter' and not e.recv.args:
            arity(1)
            l = self.expr(e.recv.recv)
            if head(l[1]) != 'list': self.bad(f'`.iter()` on a value of type {show_type(l[1])}', e.line)
            elem = resolve(l[1])[1]
            clo, rty = self.closure(args[0], [elem], '`.any`')
            if resolve(rty) != 'bool': self.bad('`.any` with a non-boolean closure', e.line)
            return (f'List.any {self.paren(l)} {clo}', 'bool', False)
        recv = self.expr(e.recv)
        rt = resolve(recv[1])
        h = head(rt)
        if isinstance(rt, TVar): self.bad(f'method `.{name}` on a value whose type is not known', e.line)
        ident = (recv[0], rt, recv[2])
        if name == 'try_into':
            arity(0)
            tgt, err = self.node_tv(e), None
            if exp is not None and head(exp) == 'res': self.unify(tgt, resolve(exp)[1], e.line, '`.try_into()`')
            t = resolve(tgt)
            if isinstance(t, TVar):
                if G.final: self.bad('cannot determine the target type of `.try_into()`', e.line)
                if not hasattr(e, 'tv_err'): e.tv_err = TVar()
                return (f'sorry', ('res', tgt, e.tv_err), False)
            if head(t) == 'adt' and isinstance(t[1], str):
                sig = G.fns.get((t[1], 'try_from'))
                if sig is not None and sig.trait is not None and sig.trait[0] == 'TryFrom' and len(sig.params) == 1 and sig.self_kind is None:
                    self.unify(rt, sig.params[0][1], e.line, 'operand of `.try_into()`')
                    self.calls.add(sig.key)
                    if hasattr(e, 'tv_err') and head(sig.ret) == 'res': self.unify(e.tv_err, sig.ret[2], e.line, '`.try_into()`')
                    return (f'{sig.lean} {self.paren(recv)}', sig.ret, False)
            self.bad(f'`.try_into()` from {show_type(rt)} to {show_type(t)}: no `impl TryFrom` in the file', e.line)
        if name == 'into':
            arity(0)
            tgt = self.node_tv(e)
            if exp is not None: self.unify(tgt, exp, e.line, '`.into()`')
            t = resolve(tgt)
            if isinstance(t, TVar):
                if G.final: self.bad('cannot determine the target type of `.into()`', e.line)
                return (recv[0], tgt, recv[2])
            if t == rt and (t == 'str' or h == 'list'): return ident     # &str -> String, &[T] / Vec<T> -> Vec<T>
            self.bad(f'`.into()` from {show_type(rt)} to {show_type(t)}', e.line)
        if rt == 'str':
            if name in ('as_str', 'to_string', 'to_owned', 'clone', 'as_ref'): arity(0); return ident
            if name == 'trim': arity(0); return (f'RsStr.trim {self.paren(recv)}', 'str', False)
            if name == 'is_empty': arity(0); return (f'RsStr.is_empty {self.paren(recv)}', 'bool', False)
            if name == 'len': arity(0); return (f'RsStr.len {self.paren(recv)}', 'usize', False)
            if name in ('starts_with', 'contains', 'split_once'):
                arity(1)
                if args[0].kind == 'closure': self.bad(f'`.{name}` with a closure pattern', e.line)
                a = self.expr(args[0])
                at = resolve(a[1])
                if name == 'starts_with' and at == 'str': return (f'RsStr.starts_with {self.paren(recv)} {self.paren(a)}', 'bool', False)
                if name == 'starts_with' and at == 'char': return (f'RsStr.starts_with_char {self.paren(recv)} {self.paren(a)}', 'bool', False)
                if name == 'contains' and at == 'char': return (f'RsStr.contains_char {self.paren(recv)} {self.paren(a)}', 'bool', False)
                if name == 'split_once' and at == 'char':
                    return (f'RsStr.split_once_char {self.paren(recv)} {self.paren(a)}', ('opt', ('tuple', ('str', 'str'))), False)
                self.bad(f'`.{name}` with a pattern of type {show_type(at)}', e.line)
            if name == 'replace':
                arity(2)
                a = self.expr(args[0])
                if resolve(a[1]) != 'char' or args[1].kind != 'str' or args[1].val != '':
                    self.bad('`.replace` other than (char, "")', e.line)
                return (f'RsStr.remove_char {self.paren(recv)} {self.paren(a)}', 'str', False)
            if name == 'lines': self.bad('`.lines()` outside a `for` header', e.line)
        elif h == 'list':
            if name in ('as_slice', 'to_vec', 'clone', 'as_ref', 'to_owned'): arity(0); return ident
            if name == 'len': arity(0); return (f'{self.paren(recv)}.length', 'usize', False)
            if name == 'is_empty': arity(0); return (f'{self.paren(recv)}.isEmpty', 'bool', False)
            if name == 'split_at':
                arity(1)
                n = self.paren(self.expr(args[0], 'usize'))
                return (f'({self.paren(recv)}.take {n}, {self.paren(recv)}.drop {n})', ('tuple', (rt, rt)), True)
            if name == 'iter': self.bad('`.iter()` outside a `for` header or `.iter().find(..)` / `.iter().any(..)`', e.line)
        elif h == 'opt':
            if name in ('as_ref', 'cloned', 'copied', 'clone'): arity(0); return ident
            if name in ('ok_or', 'ok_or_else'):
                arity(1)
                if name == 'ok_or_else':
                    c = args[0]
                    if c.kind != 'closure' or c.params: self.bad('`.ok_or_else`: a closure without parameters was expected', e.line)
                    if has_effects(c.body): self.bad('`return` / `?` / `continue` inside a closure', c.line)
                    a = c.body
                else:
                    a = args[0]
                ex = resolve(exp) if exp is not None else None
                r = self.expr(a, ex[2] if head(ex) == 'res' else None)
                return (f'RsStr.ok_or {self.paren(recv)} {self.paren(r)}', ('res', rt[1], r[1]), False)
            if name == 'is_some': arity(0); return (f'{self.paren(recv)}.isSome', 'bool', False)
            if name == 'is_none': arity(0); return (f'{self.paren(recv)}.isNone', 'bool', False)
            if name in ('unwrap', 'expect'):
                arity(0 if name == 'unwrap' else 1)
                self.unwrap_site(e, f'`.{name}` of an Option')
                return (f'RsStr.unwrap_opt {self.paren(recv)}', rt[1], False)
            if name == 'map':
                arity(1)
                clo, rty = self.closure(args[0], [rt[1]], '`.map`')
                return (f'Option.map {clo} {self.paren(recv)}', ('opt', rty), False)
        elif h == 'res':
            if name in ('unwrap', 'expect'):
                arity(0 if name == 'unwrap' else 1)
                self.unwrap_site(e, f'`.{name}` of a Result')
                return (f'RsStr.unwrap_res {self.paren(recv)}', rt[1], False)
            if name == 'map_err':
                arity(1)
                clo, ety = self.closure(args[0], [rt[2]], '`.map_err`')
                return (f'RsStr.map_err {self.paren(recv)} {clo}', ('res', rt[1], ety), False)
            if name in ('is_ok', 'is_err'):
                arity(0); return (f'{self.paren(recv)}.isOk' if name == 'is_ok' else f'!{self.paren(recv)}.isOk', 'bool', False)
        elif h == 'adt':
            if isinstance(rt[1], str):
                sig = G.fns.get((rt[1], name))
                if sig is not None and sig.self_kind is not None: return self.user_call_expr(sig, recv, e)
                if name in ('clone', 'to_owned'): arity(0); return ident
            elif rt[1] in EXTERN_TYPES and name in EXTERN_TYPES[rt[1]]['methods']:
                ptys, rty, lean = EXTERN_TYPES[rt[1]]['methods'][name]
                arity(len(ptys))
                a = [self.paren(self.expr(x, t)) for x, t in zip(args, ptys)]
                return (' '.join([lean, self.paren(recv)] + a), rty, False)
        if name in MUTATING_METHODS: self.bad(f'`.{name}` used as an expression', e.line)
        self.bad(f'method `.{name}` on a value of type {show_type(rt)}', e.line)

    # ---- statements.  Every block becomes ONE expression: `seq` translates the first statement and nests the rest.
    def comment(self, line):
        if line != self.last_comment_line and 1 <= line <= len(self.G.src_lines):
            self.last_comment_line = line
            return [f'-- {line}: {self.G.src_lines[line - 1].strip()}']
        return []

    def state_text(self, vars_):
        names = [lname(v.name) for v in vars_]
        if not names: return '()', '_'
        if len(names) == 1: return names[0], names[0]
        t = '(' + ', '.join(names) + ')'
        return t, t

    def val(self, ctx, text):
        if not ctx.flow: return text
        return 'Flow.next ' + atom(text)

    def assigned_outer(self, stmts):
        """the variables declared outside `stmts` that they assign (declaration order)"""
        found = {}

        def note(name, line, local):
            if name in local: return
            v = self.lookup(name, line)
            found[v.order] = v

        def place_var(e):
            while e.kind in ('ref', 'paren', 'index') or (e.kind == 'unary' and e.op == '*'): e = e.e
            if e.kind == 'path' and len(e.path) == 1: return e.path[0]
            self.bad('assignment or mutable borrow of something other than a variable, an element or a range slice of it', e.line)

        def scan_expr(e, local):
            if e.kind == 'try': return scan_expr(e.e, local)
            if e.kind == 'assign': note(place_var(e.place), e.line, local)
            elif e.kind == 'mcall' and e.name in MUTATING_METHODS: note(place_var(e.recv), e.line, local)
            elif e.kind == 'call':
                for a in e.args:
                    if a.kind == 'ref' and a.mut: note(place_var(a.e), a.line, local)
            elif e.kind == 'match': scan_match(e, local)

        def pat_names(p, acc):
            if p.kind == 'pid': acc.add(p.name)
            elif p.kind == 'pref': pat_names(p.p, acc)
            elif p.kind in ('ptuple', 'pctor'):
                for s in (p.subs or []): pat_names(s, acc)
            return acc

        def scan_match(m, local):
            scan_expr(m.scrut, local)
            for arm in m.arms:
                loc = pat_names(arm.pat, set(local))
                if arm.body.kind == 'block': scan_block(arm.body, loc)
                else: scan_expr(arm.body, loc)

        def scan_block(block, local):
            local = set(local)
            for s in block.stmts: scan_stmt(s, local)
            if block.tail is not None: scan_expr(block.tail, local)

        def scan_stmt(s, local):
            if s.kind == 'let':
                scan_expr(s.init, local); local.add(s.name)
            elif s.kind == 'letpat':
                scan_expr(s.init, local)
                if s.els is not None: scan_block(s.els, local)
                pat_names(s.pat, local)
            elif s.kind == 'for':
                scan_block(s.body, local | ({s.pat} if s.pat != '_' else set()))
            elif s.kind == 'if':
                scan_block(s.then, local)
                if s.els is not None:
                    if s.els.kind == 'if': scan_stmt(s.els, local)
                    else: scan_block(s.els, local)
            elif s.kind == 'matchs': scan_match(s, local)
            elif s.kind == 'expr': scan_expr(s.e, local)
            elif s.kind == 'return' and s.e is not None: scan_expr(s.e, local)

        local = set()
        for s in stmts: scan_stmt(s, local)
        # Canonical order of the tuple: by the (Lean) TYPE of the variables, and among variables of one type by their first
        # occurrence (read or write) inside `stmts`, in source order -- NOT by the order of the declarations (which are outside
        # the construct and may be permuted freely), not by name (locals get renamed), and, as long as the types differ, not by
        # the shape of the body either.
        # (No inner binding can hide one of these variables: `declare` refuses to shadow a variable that is being updated.)
        names = {v.name: v for v in found.values()}
        seen = []

        def occ(x):
            if isinstance(x, Node):
                if x.kind == 'path' and len(x.path) == 1 and x.path[0] in names and x.path[0] not in seen: seen.append(x.path[0])
                for k, v in x.__dict__.items():
                    if k in ('kind', 'line', 'tv', 'tv_err'): continue
                    occ(v)
            elif isinstance(x, (list, tuple)):
                for y in x: occ(y)
        occ(stmts)
        rest = [found[k].name for k in sorted(found) if found[k].name not in seen]

        def type_key(v):
            try:
                return self.G.lean_type(v.ty)
            except Unsupported:         # first pass: not yet known (the order of the first pass is never printed)
                return '~'
        order = seen + rest
        return sorted((names[n] for n in order), key=lambda v: (type_key(v), order.index(v.name)))

    def ret_value(self, e, line):
        """text of the function's result for `return e` / the tail expression `e` (preceded by the `&mut` parameters)"""
        muts = [lname(v.name) for v in self.mut_vars]
        for v in self.mut_vars:
            if self.lookup_opt(v.name) is not v: self.bad(f'`{v.name}` is shadowed where the function returns', line)
        if e is None:
            if self.ret not in (None, 'unit'): self.bad('`return` without a value', line)
            parts = muts + (['()'] if self.ret == 'unit' else [])
        else:
            if self.ret is None: self.bad('value returned from a function without result type', line)
            r = self.expr(e, self.ret)
            parts = muts + [r[0]]
        if not parts: self.bad('function without result and without `&mut` parameters', line)
        return parts[0] if len(parts) == 1 else '(' + ', '.join(parts) + ')'

    def err_wrap(self):
        muts = [lname(v.name) for v in self.mut_vars]
        inner = "Except.error err'"
        return "(fun err' => " + (inner if not muts else '(' + ', '.join(muts + [inner]) + ')') + ')'

    def propagate(self, r, line):
        """`r?` -> (lean text of type Flow _ _ T, T)"""
        rt = resolve(r[1])
        if head(rt) != 'res': self.bad(f'`?` on a value of type {show_type(rt)} (only on Result)', line)
        fr = resolve(self.ret) if self.ret is not None else None
        if head(fr) != 'res': self.bad('`?` in a function that does not return a Result', line)
        self.unify(rt[2], fr[2], line, 'error type at `?` (conversions with `From` are not supported)')
        return (f'Flow.propagate {self.paren(r)} {self.err_wrap()}', rt[1])

    def seq(self, stmts, fin, ctx):
        if not stmts: return fin()
        s, rest = stmts[0], stmts[1:]
        out = self.comment(s.line)
        k = s.kind
        if k == 'let': return out + self.let_stmt(s, rest, fin, ctx)
        if k == 'letpat': return out + self.letpat_stmt(s, rest, fin, ctx)
        if k in ('if', 'matchs'): return out + self.branch_stmt(s, rest, fin, ctx)
        if k == 'for': return out + self.for_stmt(s, rest, fin, ctx)
        if k == 'return':
            if rest: self.bad('statements after `return`', rest[0].line)
            return out + ['Flow.ret ' + atom(self.ret_value(s.e, s.line))]
        if k == 'continue':
            if rest: self.bad('statements after `continue`', rest[0].line)
            if ctx.loop_state is None: self.bad('`continue` outside a loop', s.line)
            return out + ['Flow.cont ' + ctx.loop_state]
        if k == 'expr': return out + self.expr_stmt(s.e, s.line, rest, fin, ctx)
        self.bad(f'statement {k}', s.line)

    def block_lines(self, block, ctx, endv, what):
        if block.tail is not None: self.bad(f'{what} ending in an expression whose value is not used', block.tail.line)
        self.scopes.append({})
        lines = self.seq(block.stmts, endv, ctx)
        self.scopes.pop()
        return lines

    def binder(self, name, ty, line):
        a = self.asc(ty, line, f'`{name}`')
        return f'({lname(name)}{a})' if a else lname(name)

    def let_stmt(self, s, rest, fin, ctx):
        init = s.init
        while init.kind == 'paren': init = init.e
        ann = self.G.norm_type(s.ty, s.line, self.self_ty, self.assoc) if s.ty is not None else None
        if s.name == '_': self.bad('`let _`', s.line)
        if init.kind == 'try':
            inner = self.expr(init.e)
            text, ty = self.propagate(inner, s.line)
            if ann is not None: ty = self.unify(ty, ann, s.line, f'`let {s.name}`')
            self.declare(s.name, ty, s.mut, 'local', s.line)
            return [f'Flow.bind ({text}) fun {self.binder(s.name, ty, s.line)} =>'] + self.seq(rest, fin, ctx)
        if init.kind in ('match', 'if', 'matchs'):
            fx = has_effects(init)
            lines, ty = self.value_lines(init, Ctx(fx, ctx.loop_state if fx else None))
            if ann is not None: ty = self.unify(ty, ann, s.line, f'`let {s.name}`')
            self.declare(s.name, ty, s.mut, 'local', s.line)
            if fx:
                return ['Flow.bind ('] + ind(lines) + [f') fun {self.binder(s.name, ty, s.line)} =>'] + self.seq(rest, fin, ctx)
            return [f'let {lname(s.name)}{self.asc(ty, s.line, f"`{s.name}`")} := ('] + ind(lines) + [')'] + self.seq(rest, fin, ctx)
        r = self.expr(init, ann)
        self.declare(s.name, r[1], s.mut, 'local', s.line)
        return [f'let {lname(s.name)}{self.asc(r[1], s.line, f"`{s.name}`")} := {r[0]}'] + self.seq(rest, fin, ctx)

    def irrefutable(self, p):
        if p.kind in ('pid', 'pwild'): return True
        if p.kind == 'pref': return self.irrefutable(p.p)
        if p.kind == 'ptuple': return all(self.irrefutable(x) for x in p.subs)
        return False

    def pat_vars(self, p, acc):
        if p.kind == 'pid': acc.append(p.name)
        elif p.kind == 'pref': self.pat_vars(p.p, acc)
        elif p.kind in ('ptuple', 'pctor'):
            for x in (p.subs or []): self.pat_vars(x, acc)
        return acc

    def letpat_stmt(self, s, rest, fin, ctx):
        """`let (a, b) = e;`  ->  `let (a, b) := e`
           `let PAT = e else { diverges };`  ->  `Flow.bind (match e with | PAT => Flow.next (vars of PAT) | _ => else block) fun vars =>`
           `let (a, b) = match e { P => (x, y), Q => { return .. } };` (also `if`)  ->  as `let v = match ..` (let_stmt) with the
           pattern as the binder: `Flow.bind (match e with | P => Flow.next (x, y) | Q => Flow.ret ..) fun (a, b) =>`"""
        vinit = s.init
        while vinit.kind == 'paren': vinit = vinit.e
        if vinit.kind in ('match', 'if', 'matchs') and s.els is None:
            if not self.irrefutable(s.pat): self.bad('refutable pattern in a `let` without `else`', s.line)
            fx = has_effects(vinit)
            lines, ty = self.value_lines(vinit, Ctx(fx, ctx.loop_state if fx else None))
            if s.pat.kind == 'ptuple' and head(resolve(ty)) != 'tuple':
                self.bad('tuple pattern in a `let` whose `match` / `if` initialiser has no arm yielding a tuple', s.line)
            pat = self.pattern(s.pat, ty)               # declares the variables of the pattern for the rest of the block
            names = self.pat_vars(s.pat, [])
            if len(set(names)) != len(names): self.bad('a variable occurs twice in a pattern', s.line)
            if fx:
                return ['Flow.bind ('] + ind(lines) + [f') fun {pat} =>'] + self.seq(rest, fin, ctx)
            return [f'let {pat} := ('] + ind(lines) + [')'] + self.seq(rest, fin, ctx)
        init = self.expr(s.init)
        if s.els is None:
            if not self.irrefutable(s.pat): self.bad('refutable pattern in a `let` without `else`', s.line)
            pat = self.pattern(s.pat, init[1])
            return [f'let {pat} := {init[0]}'] + self.seq(rest, fin, ctx)
        if self.irrefutable(s.pat): self.bad('`let … else` with a pattern that always matches', s.line)
        if not ctx.flow: self.bad('`let … else` in a context without early exits', s.line)

        def no_fall():
            self.bad('`else` block of `let … else` that does not end in `return` / `continue`', s.els.line)
        els_lines = self.block_lines(s.els, Ctx(True, ctx.loop_state), no_fall, '`else` block of `let … else`')
        pat = self.pattern(s.pat, init[1])          # declares the variables of the pattern for the rest of the block
        names = [lname(n) for n in self.pat_vars(s.pat, [])]
        if len(set(names)) != len(names): self.bad('a variable occurs twice in a pattern', s.line)
        vt = '()' if not names else names[0] if len(names) == 1 else '(' + ', '.join(names) + ')'
        binder = '_' if not names else vt
        return (['Flow.bind (', f'  match {init[0]} with', f'  | {pat} =>', f'    Flow.next {vt}', '  | _ =>'] + ind(els_lines, 2) +
                [f') fun {binder} =>'] + self.seq(rest, fin, ctx))

    def value_lines(self, e, sub, vty=None):
        """a `match` / `if` / `if let` whose branches produce a value -> (lines, value type)"""
        if e.kind == 'if': return self.if_value(e, sub, vty if vty is not None else self.node_tv(e))
        return self.match_value(e, sub, vty)

    def value_block(self, b, sub, vty, what):
        """a block `{ statements; value }` -> lines"""
        stmts, tail = b.stmts, b.tail
        if tail is None and stmts and stmts[-1].kind in ('if', 'matchs'):
            stmts, tail = stmts[:-1], stmts[-1]        # `{ ..; if c { v } else { w } }`: the last statement is the value

        def endv():
            if tail is None: self.bad(f'{what} without a value', b.line)
            t = tail
            while t.kind == 'paren': t = t.e
            if t.kind in ('if', 'match', 'matchs'): return self.value_lines(t, sub, vty)[0]
            r = self.expr(t, vty)
            return [self.val(sub, r[0])]
        self.scopes.append({})
        lines = self.seq(stmts, endv, sub)
        self.scopes.pop()
        return lines

    def if_value(self, s, sub, vty):
        if self.assigned_outer([Node('expr', s.line, e=s)]) or self.assigned_outer([s]):
            self.bad('assignment inside the branches of an `if` that produces a value', s.line)
        c = self.expr(s.cond)
        if resolve(c[1]) != 'bool': self.bad(f'`if` condition of type {show_type(c[1])}', s.line)
        if s.els is None: self.bad('`if` without `else` used as a value', s.line)
        lines = [f'if {c[0]} then'] + ind(self.value_block(s.then, sub, vty, '`if` branch'))
        if s.els.kind == 'if':
            lines += ['else'] + ind(self.comment(s.els.line) + self.if_value(s.els, sub, vty))
        else:
            lines += ['else'] + ind(self.value_block(s.els, sub, vty, '`else` branch'))
        return lines, vty

    def match_value(self, m, sub, vty=None):
        """a `match` whose arms produce a value -> (lines, value type)"""
        if self.assigned_outer([Node('expr', m.line, e=m)]): self.bad('assignment inside the arms of a `match` that produces a value', m.line)
        scrut = self.expr(m.scrut)
        if vty is None: vty = self.node_tv(m)
        if getattr(m, 'iflet', False) and self.irrefutable(m.arms[0].pat): self.bad('`if let` with a pattern that always matches', m.line)
        lines = [f'match {scrut[0]} with']
        for arm in m.arms:
            self.scopes.append({})
            pat = self.pattern(arm.pat, scrut[1])
            lines += self.comment(arm.line)
            if arm.body.kind == 'block':
                body = self.value_block(arm.body, sub, vty, '`match` arm block')
            elif arm.body.kind in ('if', 'match', 'matchs'):
                body = self.value_lines(arm.body, sub, vty)[0]
            else:
                r = self.expr(arm.body, vty)
                body = [self.val(sub, r[0])]
            self.scopes.pop()
            lines += [f'| {pat} =>'] + ind(body)
        return lines, vty

    def branch_stmt(self, s, rest, fin, ctx):
        V = self.assigned_outer([s])
        fx = has_effects(s)
        sub = Ctx(fx, ctx.loop_state if fx else None)
        vt, pat = self.state_text(V)
        endv = lambda: [self.val(sub, vt)]
        if not fx and not V: self.bad('`if` / `match` statement that neither assigns a variable nor leaves the function', s.line)
        self.tracked.append(V)
        lines = self.if_lines(s, sub, endv) if s.kind == 'if' else self.match_stmt_lines(s, sub, endv)
        self.tracked.pop()
        if fx:
            return ['Flow.bind ('] + ind(lines) + [f') fun {pat} =>'] + self.seq(rest, fin, ctx)
        return [f'let {pat} := ('] + ind(lines) + [')'] + self.seq(rest, fin, ctx)

    def if_lines(self, s, sub, endv):
        c = self.expr(s.cond)
        if resolve(c[1]) != 'bool': self.bad(f'`if` condition of type {show_type(c[1])}', s.line)
        lines = [f'if {c[0]} then'] + ind(self.block_lines(s.then, sub, endv, '`if` branch'))
        if s.els is None:
            lines += ['else'] + ind(endv())
        elif s.els.kind == 'if':
            el = self.comment(s.els.line) + self.if_lines(s.els, sub, endv)
            lines += ['else'] + ind(el)
        else:
            lines += ['else'] + ind(self.block_lines(s.els, sub, endv, '`else` branch'))
        return lines

    def match_stmt_lines(self, s, sub, endv):
        scrut = self.expr(s.scrut)
        if getattr(s, 'iflet', False) and self.irrefutable(s.arms[0].pat): self.bad('`if let` with a pattern that always matches', s.line)
        lines = [f'match {scrut[0]} with']
        for arm in s.arms:
            self.scopes.append({})
            pat = self.pattern(arm.pat, scrut[1])
            if arm.body.kind == 'block':
                body = self.block_lines(arm.body, sub, endv, '`match` arm')
            elif arm.body.kind == 'unit':
                body = endv()
            else:
                body = self.expr_stmt(arm.body, arm.line, [], endv, sub)
            self.scopes.pop()
            lines += self.comment(arm.line) + [f'| {pat} =>'] + ind(body)
        return lines

    def for_stmt(self, s, rest, fin, ctx):
        it = s.iter
        while it.kind in ('paren', 'ref'):
            if it.kind == 'ref' and it.mut: self.bad('`for … in &mut …`', s.line)
            it = it.e
        if it.kind == 'mcall' and it.name == 'lines' and not it.args:
            r = self.expr(it.recv)
            if resolve(r[1]) != 'str': self.bad(f'`.lines()` on a value of type {show_type(r[1])}', s.line)
            ltext, elem = f'(RsStr.lines {self.paren(r)})', 'str'
        else:
            if it.kind == 'mcall' and it.name == 'iter' and not it.args: it = it.recv
            r = self.expr(it)
            if head(r[1]) != 'list': self.bad(f'`for` over a value of type {show_type(r[1])} (only slices, Vec, `.iter()`, `.lines()`)', s.line)
            ltext, elem = self.paren(r), resolve(r[1])[1]
        V = self.assigned_outer([s])
        fx = has_effects(s.body)
        vt, pat = self.state_text(V)
        if not fx and not V: self.bad('`for` loop that assigns no outer variable and never leaves', s.line)
        sub = Ctx(fx, vt if fx else None)
        self.scopes.append({})
        x = '_'
        if s.pat != '_': x = lname(self.declare(s.pat, elem, False, 'loopvar', s.line).name)
        self.tracked.append(V)
        body = self.block_lines(s.body, sub, lambda: [self.val(sub, vt)], 'loop body')
        self.tracked.pop()
        self.scopes.pop()
        if fx:
            return ([f'Flow.bind (RsStr.forIn {ltext} (fun {x} {pat} =>'] + ind(body, 2) + [f'  ) {vt}) fun {pat} =>'] +
                    self.seq(rest, fin, ctx))
        return [f'let {pat} := Rs.forIn {ltext} (fun {x} {pat} =>'] + ind(body, 2) + [f'  ) {vt}'] + self.seq(rest, fin, ctx)

    def mutable_var(self, e, what):
        while e.kind in ('paren', 'ref'): e = e.e
        if e.kind != 'path' or len(e.path) != 1: self.bad(f'{what}: only a variable can be changed in place', e.line)
        v = self.lookup(e.path[0], e.line)
        if not v.mutable: self.bad(f'{what}: `{v.name}` is not mutable', e.line)
        return v

    def expr_stmt(self, e, line, rest, fin, ctx):
        while e.kind == 'paren': e = e.e
        nxt = lambda: self.seq(rest, fin, ctx)
        if e.kind == 'assign':
            if e.op != '=': self.bad(f'compound assignment `{e.op}`', e.line)
            v = self.mutable_var(e.place, 'assignment')
            if e.place.kind != 'path': self.bad('assignment to something other than a variable', e.line)
            r = self.expr(e.e, v.ty)
            return [f'let {lname(v.name)}{self.asc(v.ty, e.line, f"`{v.name}`")} := {r[0]}'] + nxt()
        if e.kind == 'try':
            inner = e.e
            while inner.kind == 'paren': inner = inner.e
            sig = self.user_sig_of_call(inner)
            if sig is not None and sig.muts:
                text, outs = self.user_call_text(sig, None, inner)
                if sig.ret is None: self.bad('`?` on a call without result', e.line)
                names = [lname(v.name) for v in outs] + ["res'"]
                ptext, vty = self.propagate(("res'", sig.ret, True), e.line)
                if resolve(vty) != 'unit': self.bad('value of `…?;` discarded', e.line)
                return [f'let ({", ".join(names)}) := {text}', f'Flow.bind ({ptext}) fun _ =>'] + nxt()
            r = self.expr(inner)
            ptext, vty = self.propagate(r, e.line)
            if resolve(vty) != 'unit': self.bad('value of `…?;` discarded', e.line)
            return [f'Flow.bind ({ptext}) fun _ =>'] + nxt()
        if e.kind == 'mcall' and e.name in MUTATING_METHODS:
            if e.name == 'copy_from_slice': return self.copy_from_slice(e) + nxt()
            v = self.mutable_var(e.recv, f'receiver of `.{e.name}`')
            n, t = lname(v.name), resolve(v.ty)
            if len(e.args) != 1: self.bad(f'`.{e.name}` arity', e.line)
            if e.name == 'retain' and t == 'str':
                clo, rty = self.closure(e.args[0], ['char'], '`.retain`')
                if resolve(rty) != 'bool': self.bad('`.retain` with a non-boolean closure', e.line)
                return [f'let {n} : Str := RsStr.retain {n} {clo}'] + nxt()
            if e.name == 'push' and head(t) == 'list':
                r = self.expr(e.args[0], t[1])
                return [f'let {n}{self.asc(t, e.line, n)} := {n} ++ [{r[0]}]'] + nxt()
            if e.name == 'extend_from_slice' and head(t) == 'list':
                r = self.expr(e.args[0], t)
                return [f'let {n}{self.asc(t, e.line, n)} := {n} ++ {self.paren(r)}'] + nxt()
            self.bad(f'`.{e.name}` on a value of type {show_type(t)}', e.line)
        sig = self.user_sig_of_call(e)
        if sig is not None and sig.muts:
            if sig.ret is not None: self.bad(f'result of `{sig.lean}` discarded', e.line)
            text, outs = self.user_call_text(sig, None, e)
            _, pat = self.state_text(outs)
            return [f'let {pat} := {text}'] + nxt()
        self.bad('expression statement that is not an assignment, `…?;`, a call with `&mut` arguments, retain / push / '
                 'extend_from_slice / copy_from_slice', e.line)

    def user_sig_of_call(self, e):
        if e.kind != 'call' or e.f.kind != 'path': return None
        path = e.f.path
        if len(path) == 1: return self.G.fns.get((None, path[0]))
        if len(path) == 2:
            owner = getattr(self.fn, 'owner', None) if path[0] == 'Self' else path[0]
            sig = self.G.fns.get((owner, path[1]))
            if sig is not None and sig.self_kind is None: return sig
        return None

    def copy_from_slice(self, e):
        if len(e.args) != 1: self.bad('`.copy_from_slice` arity', e.line)
        p = e.recv
        while p.kind in ('paren', 'ref'): p = p.e
        src = self.expr(e.args[0])
        if p.kind == 'index' and p.ix.kind == 'range':
            v = self.mutable_var(p.e, 'receiver of copy_from_slice')
            if head(v.ty) != 'list': self.bad(f'slicing `{v.name}` of type {show_type(v.ty)}', e.line)
            self.unify(src[1], v.ty, e.line, 'copy_from_slice')
            n = lname(v.name)
            lo, hi = self.slice_bounds(p.ix)
            new = f'(Rs.copyFromSlice ({self.slice_text(n, p.ix)}) {self.paren(src)})'
            if lo is None and hi is None: text = new
            elif hi is None: text = f'{n}.take {self.paren(lo)} ++ {new}'
            elif lo is None: text = f'{new} ++ {n}.drop {self.paren(hi)}'
            else: text = f'{n}.take {self.paren(lo)} ++ {new} ++ {n}.drop {self.paren(hi)}'
            return [f'let {n}{self.asc(v.ty, e.line, n)} := {text}']
        v = self.mutable_var(p, 'receiver of copy_from_slice')
        if head(v.ty) != 'list': self.bad('`.copy_from_slice` on a non-slice', e.line)
        self.unify(src[1], v.ty, e.line, 'copy_from_slice')
        n = lname(v.name)
        return [f'let {n}{self.asc(v.ty, e.line, n)} := Rs.copyFromSlice {n} {self.paren(src)}']

    # ---- whole function
    def run(self, self_ty, assoc):
        fn, sig = self.fn, self.sig
        self.self_ty, self.assoc = self_ty, assoc
        params, self.mut_vars = [], []
        if sig.self_kind is not None:
            self.declare('self', self_ty, False, 'param', fn.line)
            params.append(f'(self : {self.lt(self_ty, fn.line)})')
        for (pn, pt, mut), (_, _, pl) in zip(sig.params, fn.params):
            v = self.declare(pn, pt, mut, 'mutref' if mut else 'param', pl)
            params.append(f'({lname(pn)} : {self.lt(pt, pl)})')
            if mut: self.mut_vars.append(v)
        self.tracked.append(self.mut_vars)
        rets = [self.lt(v.ty, fn.line) for v in self.mut_vars] + ([self.lt(sig.ret, fn.line)] if sig.ret is not None else [])
        if not rets: self.bad('function without result and without `&mut` parameters', fn.line)
        fx = has_effects(fn.body)
        ctx = Ctx(fx, None)

        body_stmts, tail = fn.body.stmts, fn.body.tail
        if tail is None and sig.ret not in (None, 'unit') and body_stmts and body_stmts[-1].kind in ('if', 'matchs'):
            # `fn f() -> T { ..; match x { A => v, B => w } }`: the last statement IS the result
            body_stmts, tail = body_stmts[:-1], body_stmts[-1]

        def fin():
            out = []
            if tail is not None: out = self.comment(tail.line)
            elif sig.ret is not None: self.bad('missing result expression', fn.line)
            if tail is not None and tail.kind in ('if', 'match', 'matchs'):
                if self.mut_vars: self.bad('`if` / `match` as the result of a function with `&mut` parameters', tail.line)
                return out + self.value_lines(tail, ctx, self.ret)[0]
            return out + [self.val(ctx, self.ret_value(tail, tail.line if tail is not None else fn.line))]

        lines = self.seq(body_stmts, fin, ctx)
        if fx: lines = ['RsStr.run ('] + ind(lines) + [')']
        p = lambda s: s if ' ' not in s else f'({s})'
        rty = rets[0] if len(rets) == 1 else ' × '.join(p(r) for r in rets)
        attr = '' if sig.key in TARGETS else '@[simp] '
        head_ = f'{attr}def {sig.lean} {" ".join(params)} : {rty} :=' if params else f'{attr}def {sig.lean} : {rty} :='
        self.G.calls[sig.key] = self.calls
        return [head_] + ind(lines)


# ------------------------------------------------------------------------------------------------ whole file

def translate(src_text, src_label):
    cut = src_text.find('#[cfg(test)]')
    region = src_text if cut < 0 else src_text[:cut]
    digest = hashlib.sha256(region.encode()).hexdigest()
    src_lines = region.split('\n')
    p = Parser(tokenize(region))
    try:
        uses, items = p.parse_file()
    except Unsupported as u:
        if p.fn and not getattr(u, 'fn', None): u.fn = p.fn
        raise
    G = Globals(uses, src_lines)
    # structs first (types may refer to each other in any order in Rust; Lean needs them in dependency order)
    struct_items = [it for it in items if it.kind == 'struct']
    for it in struct_items:
        if it.name in G.structs: raise Unsupported(f'two structs named `{it.name}`', it.line)
        G.structs[it.name] = it
    for it in struct_items:
        it.fields = [(fn_, G.norm_type(ft, it.line)) for fn_, ft in it.fields]
        for _, ft in it.fields:
            if head(ft) == 'mutref': raise Unsupported('`&mut` field', it.line)
    # constants
    const_chunks = []
    for it in items:
        if it.kind != 'const': continue
        ty = G.norm_type(it.ty, it.line)
        tr = FnTr(G, it, None)
        try:
            r = tr.expr(it.init, ty)
        except Unsupported as u:
            u.fn = f'const {it.name}'; raise
        if it.name in G.consts: raise Unsupported(f'two constants named `{it.name}`', it.line)
        G.consts[it.name] = ty
        const_chunks.append(f'/-- `{src_lines[it.line - 1].strip()}` (line {it.line}) -/\n@[simp] def {lname(it.name)} : {G.lean_type(ty, it.line)} := {r[0]}')
    # signatures
    fns = []   # (fn node, self type, assoc types)
    for it in items:
        group = [(it, None, None)] if it.kind == 'fn' else ([(f, it, it.assoc) for f in it.fns] if it.kind == 'impl' else [])
        for f, imp, assoc in group:
            self_ty = None
            if imp is not None:
                if imp.owner not in G.structs: raise Unsupported(f'`impl` for `{imp.owner}`, which is not a struct of this file', imp.line)
                self_ty = ('adt', imp.owner)
            params = []
            for pn, pt, pl in f.params:
                t = G.norm_type(pt, pl, self_ty, assoc)
                mut = head(t) == 'mutref'
                if mut: t = t[1]
                params.append((pn, t, mut))
            ret = G.norm_type(f.ret, f.line, self_ty, assoc) if f.ret is not None else None
            trait = None
            if imp is not None and imp.trait is not None:
                trait = (imp.trait[0], [G.norm_type(t, imp.line, self_ty, assoc) for t in imp.trait[1]])
            sig = Sig(f, params, ret, trait)
            if sig.key in G.fns: raise Unsupported(f'two functions named `{sig.lean}`', f.line)
            G.fns[sig.key] = sig
            fns.append((f, self_ty, assoc, sig))
    for t in TARGETS:
        if t not in G.fns:
            raise Unsupported(f'function `{"::".join(x for x in t if x)}`, about which an equality theorem is stated (table TARGETS), is not defined in the file', None)
    # bodies: two passes (the first fixes type variables: integer literals, targets of into / try_into)
    bodies = {}
    for final in (False, True):
        G.final = final
        G.unwraps = []
        for f, self_ty, assoc, sig in fns:
            try:
                bodies[sig.key] = FnTr(G, f, sig).run(self_ty, assoc)
            except Unsupported as u:
                u.fn = sig.lean.replace('.', '::')
                raise
    # dependency order (stable)
    order, state = [], {}

    def visit(key, line):
        if state.get(key) == 2: return
        if state.get(key) == 1: raise Unsupported(f'recursion through `{G.fns[key].lean}`', line)
        state[key] = 1
        for k2 in sorted(G.calls.get(key, ()), key=lambda k: G.fns[k].line):
            visit(k2, G.fns[key].line)
        state[key] = 2
        order.append(key)
    for f, _, _, sig in fns: visit(sig.key, f.line)
    chunks = list(const_chunks)
    for enum, lean in EXTERN_ERROR_ENUMS.items():
        ctors = G.err_ctors.get(enum)
        if ctors:
            chunks.append(f'/-- `{"::".join(enum)}`: one class per constructor named in keyring.rs (payloads dropped) -/\n'
                          f'inductive {lean} where\n' + '\n'.join(f'  | {lname(c)}' for c in ctors) + '\nderiving DecidableEq, Repr, Inhabited')
    done = set()

    def emit_struct(it, stack=()):
        if it.name in done: return
        if it.name in stack: raise Unsupported(f'recursive struct `{it.name}`', it.line)

        def deps(t):
            t = resolve(t)
            if isinstance(t, tuple):
                if t[0] == 'adt':
                    if isinstance(t[1], str): emit_struct(G.structs[t[1]], stack + (it.name,))
                elif t[0] == 'tuple':
                    for x in t[1]: deps(x)
                else:
                    for x in t[1:]: deps(x)
        for _, ft in it.fields: deps(ft)
        done.add(it.name)
        sig_src = src_lines[it.line - 1].strip()
        chunks.append(f'/-- `{sig_src}` (line {it.line}) -/\nstructure {it.name} where\n' +
                      '\n'.join(f'  {lname(fn_)} : {G.lean_type(ft, it.line)}' for fn_, ft in it.fields) +
                      '\nderiving Inhabited, DecidableEq, Repr')
    for it in struct_items: emit_struct(it)
    by_key = {sig.key: (f, sig) for f, _, _, sig in fns}
    for key in order:
        f, sig = by_key[key]
        sig_src = ' '.join(x.strip() for x in src_lines[f.line - 1:f.body.line]).rstrip('{').strip()
        chunks.append(f'/-- `{sig_src}` (keyring.rs line {f.line}) -/\n' + '\n'.join(bodies[key]))
    pub = sorted(sig.lean.replace('«', '').replace('»', '') for f, _, _, sig in fns if getattr(f, 'vis', False))
    chunks.append('/-- the functions of keyring.rs declared `pub` / `pub(crate)`, sorted by name: what the rest of the crate can call.\n'
                  '    `keyring_source_api` (KestrelProps/KeyringSrc.lean) compares the list with the functions the theorems cover. -/\n'
                  'def pubFns : List String :=\n  [' + ', '.join(lean_str(x) for x in pub) + ']')
    unwraps = '\n'.join('    ' + u for u in G.unwraps) if G.unwraps else '    (none)'
    header = f'''/-
  GENERATED by tools/rs2lean_keyring.py -- do not edit.
  source : {src_label}  (the part before `#[cfg(test)]`, {len(region.encode())} bytes, {region.count(chr(10))} lines)
  sha256 : {digest}
  Shallow embedding: one `def` per Rust `fn` (`Type.fn` for functions of an `impl`; definitions are in dependency order, not in
  source order), one `structure` per `struct` (tuple struct: field `_0`), one `def` per `const`; statement by statement, each
  group of lines preceded by the Rust line it comes from.  The functions the equality theorems are stated about (table TARGETS
  of the translator) are plain `def`s; every `const` and every other function (accessors, helpers) is a `@[simp] def`, so that a
  proof about a target sees through a named literal or an extracted helper.  The meaning of every library call is in
  KestrelModel/RsStr.lean (and RsPrelude.lean for slices).
  Strings are `Str = List Char` (`len()` = UTF-8 length); `&`, `*`, `as_str`, `as_ref`, `as_slice`, `to_string`, `to_owned`,
  `clone`, `into` (to `String`), `Zeroizing::new` are the identity.  usize is `Nat`, u32/u8 are UInt32/UInt8.
  `Result<T, E>` is `Except E T`.  The error enum `KeyringError` becomes an inductive whose constructors are the constructor
  NAMES used in the source; their payloads (message strings, `format!` arguments) are DROPPED, so the error TEXT is not
  modelled, only the error class.  `Result<_, &'static str>` keeps its message (as a `Str`); error values of other crates
  (`ct_codecs::Error`, `ChaPolyDecryptError`) are `Unit`.
  Early exits: a function body that contains `return`, `?` or `continue` is `RsStr.run (…)` of a term of the three-outcome
  type `RsStr.Flow` (`next` = fell through, `cont` = `continue`, `ret` = `return`); `Flow.bind` sequences statements.  An
  `if` / `match` statement yields the tuple of the outer variables its branches assign; a `for` loop is `RsStr.forIn` over the
  tuple of outer variables its body assigns.  The components of such a tuple are ordered by their type (as printed here), and
  among variables of the same type by their first occurrence INSIDE the construct (not by the order of their declarations).  `let mut` / assignment is a shadowing `let`.  A `&mut`
  parameter is passed by value and its final value returned (tuple in parameter order, the Rust result last), also at every
  `return` / failing `?`.
  Rust panics are totalised: `unwrap` / `expect` give `default` on `None` / `Err` (RsStr.unwrap_opt / unwrap_res), slices as
  in RsPrelude.lean.  The translation is faithful only where these are unreachable; the sites are:
{unwraps}
-/
import KestrelModel.RsStr
set_option linter.unusedVariables false
namespace Kestrel.KeyringSrc
open Kestrel Kestrel.RsStr
'''
    return header + '\n' + '\n\n'.join(chunks) + '\n\nend Kestrel.KeyringSrc\n'


def main(argv):
    here = os.path.dirname(os.path.abspath(__file__))
    repo = os.environ.get('KESTREL_REPO', '/repo')
    src = os.path.join(repo, 'src', 'cli', 'src', 'keyring.rs')
    out = os.path.join(here, '..', 'lean', 'KestrelModel', 'GeneratedKeyring.lean')
    label = 'src/cli/src/keyring.rs'
    args = argv[1:]
    while args:
        a = args.pop(0)
        if a == '--src' and args: src = args.pop(0)
        elif a == '--out' and args: out = args.pop(0)
        else:
            print(f'usage: {argv[0]} [--src keyring.rs] [--out GeneratedKeyring.lean]', file=sys.stderr); return 2
    try:
        with open(src, encoding='utf-8') as f:
            text = f.read()
    except OSError as ex:
        print(f'rs2lean_keyring: cannot read {src}: {ex}', file=sys.stderr); return 2
    try:
        result = translate(text, label)
    except Unsupported as u:
        where = f'in fn `{u.fn}`' if getattr(u, 'fn', None) else 'at top level'
        line = f' (line {u.line})' if u.line else ''
        print(f'rs2lean_keyring: unsupported construct {where}{line}: {u.what}', file=sys.stderr)
        return 3
    old = None
    try:
        with open(out, encoding='utf-8') as f: old = f.read()
    except OSError:
        pass
    if old != result:
        tmp = out + '.tmp'
        with open(tmp, 'w', encoding='utf-8') as f: f.write(result)
        os.replace(tmp, out)
        print(f'rs2lean_keyring: wrote {os.path.normpath(out)} ({len(result)} bytes)')
    else:
        print(f'rs2lean_keyring: {os.path.normpath(out)} is up to date')
    return 0


if __name__ == '__main__':
    sys.exit(main(sys.argv))
