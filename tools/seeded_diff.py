#!/usr/bin/env python3
"""usage: seeded_diff.py <tools-dir> : for each seeded tree, does the translator in <tools-dir> see a change that breaks an obligation?
(const value change, flow change, or a NEW panic site / higher count)"""
import importlib, json, os, sys, collections
sys.path.insert(0, sys.argv[1])
def run(tree):
    os.environ["KESTREL_REPO"] = tree
    import gen_model_inputs as g
    importlib.reload(g)
    g.degraded.clear()
    return g.extract(), list(g.degraded)
base, _ = run("/var/tmp/btrees/base")
key = lambda s: (s["file"], s["fn"], s["kind"], s["text"])
bc = collections.Counter(map(key, base["panicSites"]))
res = {}
for t in sorted(os.listdir("/var/tmp/strees")):
    v, d = run("/var/tmp/strees/" + t)
    what = []
    for k in v:
        if k in ("panicSites", "flows"): continue
        if v[k] != base[k]: what.append("const:" + k)
    bf, vf = dict(base["flows"]), dict(v["flows"])
    what += ["flow:" + k for k in bf if bf[k] != vf.get(k)]
    vc = collections.Counter(map(key, v["panicSites"]))
    what += ["site:" + "/".join(k[1:]) for k in vc if vc[k] > bc.get(k, 0)]
    res[t] = what
    print(t, what if what else "-", ("degraded=" + ",".join(d)) if d else "")
print(sum(1 for w in res.values() if w), "of", len(res), "seeded changes are visible to the translator")
