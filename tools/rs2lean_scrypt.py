#!/usr/bin/env python3
"""
rs2lean_scrypt.py -- translate src/crypto/src/scrypt.rs (its non-test part) into Lean 4 definitions.

  input : $KESTREL_REPO/src/crypto/src/scrypt.rs   (KESTREL_REPO defaults to /repo; --src FILE overrides)
  output: <this dir>/../lean/KestrelModel/GeneratedScrypt.lean   (--out FILE overrides; written only when changed)
  exit  : 0 ok; 3 = a construct outside the supported subset (message names function and construct; output untouched)

The translation is a shallow embedding, one Lean `def` per Rust `fn`, built from a real tokenizer, a Pratt parser
for the Rust subset the file uses, a small type inference (to choose between Nat and UInt32 operations) and a
statement-by-statement emitter.  Nothing in here looks at function names or recognises particular code: the
only file-specific knowledge is the table EXTERN (meaning of the three orion pbkdf2 items, keyed by full path).

Meaning of the Rust constructs (the combinators are in lean/KestrelModel/RsPrelude.lean):
  usize, u64            -> Nat      (no wrap-around: sound only where the function's assert!s exclude overflow
                                     and underflow; `usize::MAX` = 2^64-1, `usize::BITS` = 64)
  u32 / u8              -> UInt32 / UInt8;  wrapping_add -> +, rotate_left(k) -> Kestrel.rotl32 . k, ^ & | -> ^^^ &&& |||
                           (plain + - * on u32/u8 would panic on overflow in debug builds: not supported, exit 3)
  &[T], &mut [T], Vec<T>, [T; n] -> List T;  a[i] -> Rs.idx a i;  a[i] = e -> Rs.set a i e
  a[lo..], a[..hi], a[lo..hi]     -> a.drop lo, a.take hi, (a.drop lo).take (hi - lo)
  `&mut` parameter      -> passed by value, its final value is returned (tuple in parameter order, Rust result last)
  `&mut a[lo..]` as argument / receiver of copy_from_slice -> call on `a.drop lo`, write back `a := a.take lo ++ result`
  let mut / assignment  -> shadowing `let`
  for                   -> Rs.forRange / Rs.forStep / Rs.forEnum / Rs.forIn over the tuple of outer variables the body assigns;
                           `for (m, x) in s.iter_mut().zip(t)` / `s.chunks_exact_mut(k).zip(t)` (t = `&u`, `u.iter()`,
                           `u.chunks_exact(k)`; the body changes `*m` / the chunk `m` only) -> s := Rs.zipMut s t f / Rs.zipChunksMut k s t f
                           `for c in s.chunks_exact_mut(k)` (the body changes the chunk `c` and outer variables other than `s`)
                           -> (s, state) := Rs.forChunksMut k s (fun c state => …; (c, state)) state
  let (a, b) = s.split_at(k)      -> a := s.take k, b := s.drop k          (Rust panics when k > s.len(); totalised)
  let (a, b) = s.split_at_mut(k)  -> the same, `a` and `b` being `&mut` slices; `s` (an owned local of the function) may not be
                                     mentioned again (its contents would be a ++ b: no write-back is generated, later uses are refused)
  const NAME: usize = e -> `@[simp] def NAME : Nat := e` (proofs see through it: KestrelProofs/RsUnfold.lean)
  assert!/debug_assert! -> not part of the function body; collected into `def <fn>_pre … : Prop`
  .unwrap(), .try_into(), & and &mut on values, `as`/`from` between usize and u64 -> identity
"""
import sys, os, hashlib

LEAN_KEYWORDS = {
    'at', 'open', 'end', 'from', 'then', 'else', 'if', 'do', 'by', 'fun', 'let', 'in', 'have', 'show', 'with', 'match',
    'def', 'theorem', 'namespace', 'section', 'where', 'import', 'instance', 'structure', 'class', 'inductive', 'for',
    'return', 'mut', 'using', 'calc', 'deriving', 'extends', 'example', 'axiom', 'abbrev', 'variable', 'universe',
    'local', 'private', 'protected', 'partial', 'unsafe', 'macro', 'syntax', 'notation', 'prefix', 'infix', 'postfix',
    'Type', 'Prop', 'Sort', 'λ', 'seal', 'unseal', 'export', 'set_option', 'attribute', 'mutual', 'nomatch', 'nofun',
    'suffices', 'obtain', 'try', 'catch', 'finally', 'unless', 'break', 'continue', 'forall', 'exists', 'this', 'default',
}


class Unsupported(Exception):
    def __init__(self, what, line=None):
        super().__init__(what)
        self.what, self.line = what, line


# ------------------------------------------------------------------------------------------------ tokenizer

PUNCT = ['<<=', '>>=', '...', '..=', '::', '->', '=>', '==', '!=', '<=', '>=', '&&', '||', '<<', '>>', '+=', '-=', '*=', '/=',
         '%=', '^=', '&=', '|=', '..', '(', ')', '[', ']', '{', '}', ',', ';', ':', '.', '&', '|', '^', '+', '-', '*', '/',
         '%', '!', '=', '<', '>', '#', '?', '@', '$']
INT_SUFFIXES = ['usize', 'isize', 'u128', 'i128', 'u64', 'i64', 'u32', 'i32', 'u16', 'i16', 'u8', 'i8']


class Tok:
    __slots__ = ('kind', 'text', 'line', 'val', 'suffix')

    def __init__(self, kind, text, line, val=None, suffix=None):
        self.kind, self.text, self.line, self.val, self.suffix = kind, text, line, val, suffix

    def __repr__(self):
        return f'{self.kind}:{self.text!r}@{self.line}'


def tokenize(src, ext=False):
    """`ext` (used by rs2lean_stream.py): string literals, character literals and lifetimes become tokens of kind
    'str' / 'char' / 'lifetime' instead of being refused"""
    toks, i, line, n = [], 0, 1, len(src)
    while i < n:
        c = src[i]
        if c == '\n':
            line += 1; i += 1; continue
        if c in ' \t\r':
            i += 1; continue
        if src.startswith('//', i):
            while i < n and src[i] != '\n':
                i += 1
            continue
        if src.startswith('/*', i):
            depth, i = 1, i + 2
            while i < n and depth:
                if src.startswith('/*', i): depth += 1; i += 2
                elif src.startswith('*/', i): depth -= 1; i += 2
                else:
                    if src[i] == '\n': line += 1
                    i += 1
            if depth: raise Unsupported('unterminated block comment', line)
            continue
        if c.isalpha() or c == '_':
            j = i
            while j < n and (src[j].isalnum() or src[j] == '_'):
                j += 1
            toks.append(Tok('id', src[i:j], line)); i = j; continue
        if c.isdigit():
            j = i
            base = 10
            if src.startswith(('0x', '0o', '0b'), i):
                base = {'x': 16, 'o': 8, 'b': 2}[src[i + 1]]; j = i + 2
            k = j
            while k < n and (src[k].isalnum() or src[k] == '_'):
                k += 1
            body, suffix = src[j:k], None
            for s in INT_SUFFIXES:
                if body.endswith(s):
                    body, suffix = body[:-len(s)], s; break
            digits = body.replace('_', '')
            try:
                val = int(digits, base)
            except ValueError:
                raise Unsupported(f'numeric literal {src[i:k]!r}', line)
            if k < n and src[k] == '.' and not src.startswith('..', k) and k + 1 < n and src[k + 1].isdigit():
                raise Unsupported(f'floating point literal near {src[i:k + 2]!r}', line)
            toks.append(Tok('int', src[i:k], line, val, suffix)); i = k; continue
        if c in '"\'' and ext:
            if c == '"':
                j = i + 1
                while j < n and src[j] != '"':
                    if src[j] == '\\': j += 1
                    if j < n and src[j] == '\n': line += 1
                    j += 1
                if j >= n: raise Unsupported('unterminated string literal', line)
                toks.append(Tok('str', src[i:j + 1], line)); i = j + 1; continue
            j = i + 1
            if j < n and src[j] == '\\':
                j += 2
                while j < n and src[j] != "'": j += 1
                toks.append(Tok('char', src[i:j + 1], line)); i = j + 1; continue
            if j + 1 < n and src[j + 1] == "'":
                toks.append(Tok('char', src[i:j + 2], line)); i = j + 2; continue
            while j < n and (src[j].isalnum() or src[j] == '_'): j += 1
            toks.append(Tok('lifetime', src[i:j], line)); i = j; continue
        if c in '"\'':
            raise Unsupported(f'string / character literal or lifetime ({src[i:i + 12]!r}…)', line)
        for p in PUNCT:
            if src.startswith(p, i):
                toks.append(Tok('p', p, line)); i += len(p); break
        else:
            raise Unsupported(f'character {c!r}', line)
    toks.append(Tok('eof', '<eof>', line))
    return toks


# ------------------------------------------------------------------------------------------------ AST

class Node:
    def __init__(self, kind, line, **kw):
        self.kind, self.line = kind, line
        self.__dict__.update(kw)

    def __repr__(self):
        return f'<{self.kind}@{self.line}>'


BIN_PREC = {'*': 11, '/': 11, '%': 11, '+': 10, '-': 10, '<<': 9, '>>': 9, '&': 8, '^': 7, '|': 6,
            '==': 5, '!=': 5, '<': 5, '>': 5, '<=': 5, '>=': 5, '&&': 4, '||': 3}
CMP = {'==', '!=', '<', '>', '<=', '>='}
ASSIGN_OPS = {'=', '+=', '-=', '*=', '/=', '%=', '^=', '&=', '|=', '<<=', '>>='}
PREC_AS, PREC_RANGE, PREC_ASSIGN = 12, 2, 1


class Parser:
    def __init__(self, toks):
        self.t, self.i = toks, 0
        self.fn = None  # name of the function being parsed (for messages)

    def peek(self, k=0):
        return self.t[min(self.i + k, len(self.t) - 1)]

    def next(self):
        tok = self.t[self.i]
        if tok.kind != 'eof': self.i += 1
        return tok

    def at(self, text, k=0):
        tok = self.peek(k)
        return tok.kind in ('p', 'id') and tok.text == text

    def accept(self, text):
        if self.at(text):
            return self.next()
        return None

    def expect(self, text):
        tok = self.next()
        if tok.kind not in ('p', 'id') or tok.text != text:
            raise Unsupported(f'expected `{text}`, found `{tok.text}`', tok.line)
        return tok

    def ident(self):
        tok = self.next()
        if tok.kind != 'id':
            raise Unsupported(f'expected an identifier, found `{tok.text}`', tok.line)
        return tok

    def skip_attribute(self):
        self.expect('#'); self.accept('!'); self.expect('[')
        depth = 1
        while depth:
            tok = self.next()
            if tok.kind == 'eof': raise Unsupported('unterminated attribute', tok.line)
            if tok.text in ('[', '(', '{'): depth += 1
            elif tok.text in (']', ')', '}'): depth -= 1

    # ---- items
    def parse_file(self):
        uses, fns = {}, []
        self.consts = []            # `const NAME: T = e;` items, in source order
        while self.peek().kind != 'eof':
            if self.at('#'):
                self.skip_attribute(); continue
            if self.at('use'):
                line = self.next().line
                path = [self.ident().text]
                while self.accept('::'):
                    if self.at('{') or self.at('*'): raise Unsupported('`use` with a group or glob', line)
                    path.append(self.ident().text)
                alias = self.ident().text if self.accept('as') else path[-1]
                self.expect(';')
                uses[alias] = path
                continue
            if self.accept('pub'):
                if self.accept('('):
                    while not self.accept(')'): self.next()
            if self.at('fn'):
                fns.append(self.parse_fn()); continue
            if self.at('const'):
                line = self.next().line
                name = self.ident().text
                self.expect(':'); ty = self.parse_type(); self.expect('=')
                e = self.parse_expr(); self.expect(';')
                self.consts.append(Node('const', line, name=name, ty=ty, e=e)); continue
            tok = self.peek()
            raise Unsupported(f'item starting with `{tok.text}` (only `use`, `const` and `fn` items are supported)', tok.line)
        return uses, fns

    def parse_type(self):
        tok = self.peek()
        if self.accept('&'):
            mut = bool(self.accept('mut'))
            if self.at('['):
                self.next(); elem = self.parse_type(); self.expect(']')
                return ('list', elem, 'mutref' if mut else 'ref')
            inner = self.parse_type()
            if mut or isinstance(inner, tuple): raise Unsupported('reference type other than &[T], &mut [T], &scalar', tok.line)
            return inner
        if self.accept('['):
            elem = self.parse_type(); self.expect(';'); self.parse_expr(); self.expect(']')
            return ('list', elem, 'own')
        name = self.ident()
        if name.text == 'Vec':
            self.expect('<'); elem = self.parse_type(); self.expect('>')
            return ('list', elem, 'own')
        if name.text in ('usize', 'u64', 'u32', 'u8'):
            return name.text
        raise Unsupported(f'type `{name.text}`', name.line)

    def parse_fn(self):
        line = self.expect('fn').line
        name = self.ident().text
        self.fn = name
        if self.at('<'): raise Unsupported('generic parameters', line)
        self.expect('(')
        params = []
        while not self.accept(')'):
            if self.accept('mut'): raise Unsupported('`mut` parameter binding', line)
            pn = self.ident()
            if pn.text == 'self': raise Unsupported('`self` parameter', pn.line)
            self.expect(':')
            params.append((pn.text, self.parse_type(), pn.line))
            if not self.at(')'): self.expect(',')
        ret = None
        if self.accept('->'): ret = self.parse_type()
        if self.at('where'): raise Unsupported('`where` clause', line)
        body = self.parse_block()
        self.fn = None
        return Node('fn', line, name=name, params=params, ret=ret, body=body)

    # ---- statements
    def parse_block(self):
        line = self.expect('{').line
        stmts, tail = [], None
        while not self.at('}'):
            if self.peek().kind == 'eof': raise Unsupported('unterminated block', line)
            if tail is not None:
                raise Unsupported('expression without `;` in the middle of a block', tail.line)
            if self.at('#'):
                self.skip_attribute(); continue
            if self.at(';'):
                self.next(); continue
            tok = self.peek()
            if self.at('let'):
                self.next()
                if self.at('('):
                    # `let (a, b) = e;` (plain names only; what `e` may be is decided by the translator)
                    self.next()
                    names = []
                    while not self.accept(')'):
                        if self.at('mut') or self.at('ref') or self.at('&'): raise Unsupported('`&`/`mut`/`ref` in a `let` pattern', tok.line)
                        names.append(self.ident().text)
                        if self.at('(') or self.at('{') or self.at('::'): raise Unsupported('nested pattern in `let`', tok.line)
                        if not self.at(')'): self.expect(',')
                    if self.at(':'): raise Unsupported('type annotation on a tuple `let`', tok.line)
                    if not self.accept('='): raise Unsupported('`let` without initialiser', tok.line)
                    init = self.parse_expr()
                    if self.at('else'): raise Unsupported('`let … else`', tok.line)
                    self.expect(';')
                    stmts.append(Node('lettuple', tok.line, names=names, init=init))
                    continue
                mut = bool(self.accept('mut'))
                name = self.ident()
                if self.at('(') or self.at('{') or self.at('::'): raise Unsupported('pattern in `let`', tok.line)
                ty = self.parse_type() if self.accept(':') else None
                if not self.accept('='): raise Unsupported('`let` without initialiser', tok.line)
                init = self.parse_expr()
                if self.at('else'): raise Unsupported('`let … else`', tok.line)
                self.expect(';')
                stmts.append(Node('let', tok.line, name=name.text, mut=mut, ty=ty, init=init))
            elif self.at('for'):
                self.next()
                pat = self.parse_pattern()
                self.expect('in')
                it = self.parse_expr()
                body = self.parse_block()
                stmts.append(Node('for', tok.line, pat=pat, iter=it, body=body))
            elif tok.kind == 'id' and tok.text in ('if', 'while', 'loop', 'match', 'return', 'break', 'continue', 'unsafe',
                                                   'fn', 'struct', 'enum', 'impl', 'const', 'static', 'use', 'mod', 'type'):
                raise Unsupported(f'`{tok.text}`', tok.line)
            elif self.at('{'):
                raise Unsupported('nested block statement', tok.line)
            else:
                e = self.parse_expr(PREC_ASSIGN)
                if self.accept(';'):
                    stmts.append(Node('expr', tok.line, e=e))
                else:
                    tail = e
        self.expect('}')
        return Node('block', line, stmts=stmts, tail=tail)

    def parse_pattern(self):
        tok = self.peek()
        if self.accept('('):
            names = []
            while not self.accept(')'):
                names.append(self.ident().text)
                if not self.at(')'): self.expect(',')
            return names
        if self.at('&') or self.at('mut') or self.at('ref'): raise Unsupported('`&`/`mut`/`ref` pattern', tok.line)
        return [self.ident().text]

    # ---- expressions (Pratt)
    def can_start_expr(self):
        tok = self.peek()
        if tok.kind in ('int',): return True
        if tok.kind == 'id': return tok.text not in ('as', 'in', 'else')
        return tok.kind == 'p' and tok.text in ('(', '[', '&', '&&', '-', '!', '*')

    def parse_expr(self, min_prec=PREC_RANGE):
        tok = self.peek()
        if self.at('..') or self.at('..='):
            if self.at('..='): raise Unsupported('inclusive range `..=`', tok.line)
            self.next()
            hi = self.parse_expr(PREC_RANGE + 1) if self.can_start_expr() else None
            lhs = Node('range', tok.line, lo=None, hi=hi)
        else:
            lhs = self.parse_unary()
        while True:
            tok = self.peek()
            if tok.kind == 'id' and tok.text == 'as' and PREC_AS >= min_prec:
                self.next()
                lhs = Node('cast', tok.line, e=lhs, ty=self.parse_type())
            elif tok.kind == 'p' and tok.text in BIN_PREC and BIN_PREC[tok.text] >= min_prec:
                op, p = self.next().text, BIN_PREC[tok.text]
                rhs = self.parse_expr(p + 1)
                if op in CMP and self.peek().kind == 'p' and self.peek().text in CMP:
                    raise Unsupported('chained comparison', tok.line)
                lhs = Node('bin', tok.line, op=op, l=lhs, r=rhs)
            elif tok.kind == 'p' and tok.text in ('..', '..=') and PREC_RANGE >= min_prec:
                if tok.text == '..=': raise Unsupported('inclusive range `..=`', tok.line)
                self.next()
                hi = self.parse_expr(PREC_RANGE + 1) if self.can_start_expr() else None
                lhs = Node('range', tok.line, lo=lhs, hi=hi)
            elif tok.kind == 'p' and tok.text in ASSIGN_OPS and PREC_ASSIGN >= min_prec:
                self.next()
                rhs = self.parse_expr(PREC_ASSIGN)
                lhs = Node('assign', tok.line, op=tok.text, place=lhs, e=rhs)
            else:
                return lhs

    def parse_unary(self):
        tok = self.peek()
        if tok.kind == 'p' and tok.text in ('&', '&&'):
            self.next()
            mut = bool(self.accept('mut'))
            inner = Node('ref', tok.line, mut=mut, e=self.parse_unary())
            return Node('ref', tok.line, mut=False, e=inner) if tok.text == '&&' else inner
        if tok.kind == 'p' and tok.text in ('-', '!', '*'):
            self.next()
            return Node('unary', tok.line, op=tok.text, e=self.parse_unary())
        return self.parse_postfix(self.parse_primary())

    def parse_args(self, close):
        args = []
        while not self.accept(close):
            args.append(self.parse_expr())
            if not self.at(close): self.expect(',')
        return args

    def parse_postfix(self, e):
        while True:
            tok = self.peek()
            if self.accept('('):
                e = Node('call', tok.line, f=e, args=self.parse_args(')'))
            elif self.accept('['):
                ix = self.parse_expr(); self.expect(']')
                e = Node('index', tok.line, e=e, ix=ix)
            elif self.at('.') and self.peek(1).kind == 'id':
                self.next(); name = self.ident()
                if self.at('::'): raise Unsupported('turbofish', tok.line)
                if not self.accept('('): raise Unsupported(f'field access `.{name.text}`', tok.line)
                e = Node('mcall', tok.line, recv=e, name=name.text, args=self.parse_args(')'))
            elif self.at('.') and self.peek(1).kind == 'int':
                raise Unsupported('tuple field access', tok.line)
            elif self.at('?'):
                raise Unsupported('`?` operator', tok.line)
            else:
                return e

    def parse_primary(self):
        tok = self.next()
        if tok.kind == 'int':
            return Node('lit', tok.line, val=tok.val, suffix=tok.suffix)
        if tok.kind == 'id':
            if tok.text in ('if', 'match', 'loop', 'while', 'unsafe', 'move', 'return', 'break', 'continue', 'true', 'false'):
                raise Unsupported(f'`{tok.text}` expression', tok.line)
            if self.at('!'):
                self.next()
                if tok.text == 'vec':
                    self.expect('['); elem = self.parse_expr()
                    if not self.accept(';'): raise Unsupported('`vec![a, b, …]` list form', tok.line)
                    cnt = self.parse_expr(); self.expect(']')
                    return Node('repeat', tok.line, elem=elem, count=cnt, what='vec!')
                if tok.text in ('assert', 'debug_assert'):
                    self.expect('('); args = self.parse_args(')')
                    if len(args) != 1: raise Unsupported(f'`{tok.text}!` with a message', tok.line)
                    return Node('assert', tok.line, e=args[0], what=tok.text)
                raise Unsupported(f'macro `{tok.text}!`', tok.line)
            path = [tok.text]
            while self.at('::'):
                self.next()
                if self.at('<'): raise Unsupported('generic arguments in a path', tok.line)
                path.append(self.ident().text)
            return Node('path', tok.line, path=path)
        if tok.kind == 'p' and tok.text == '(':
            if self.at(')'): raise Unsupported('unit value `()`', tok.line)
            e = self.parse_expr()
            if self.at(','): raise Unsupported('tuple expression', tok.line)
            self.expect(')')
            return Node('paren', tok.line, e=e)
        if tok.kind == 'p' and tok.text == '[':
            elem = self.parse_expr()
            if not self.accept(';'): raise Unsupported('array literal `[a, b, …]`', tok.line)
            cnt = self.parse_expr(); self.expect(']')
            return Node('repeat', tok.line, elem=elem, count=cnt, what='array')
        raise Unsupported(f'expression starting with `{tok.text}`', tok.line)


# ------------------------------------------------------------------------------------------------ types

class IntVar:
    """type of an unsuffixed integer literal, fixed by its context"""
    def __init__(self): self.bound = None


def resolve(t):
    while isinstance(t, IntVar) and t.bound is not None:
        t = t.bound
    return t


INTS = ('usize', 'u64', 'u32', 'u8')
NATLIKE = ('usize', 'u64')


def is_int(t):
    t = resolve(t)
    return isinstance(t, IntVar) or t in INTS


def is_natlike(t):
    """modelled by Nat (an integer literal whose type nothing fixed is treated as such)"""
    t = resolve(t)
    return isinstance(t, IntVar) or t in NATLIKE


def is_list(t):
    t = resolve(t)
    return isinstance(t, tuple) and t[0] == 'list'


def lean_type(t):
    t = resolve(t)
    if isinstance(t, IntVar) or t in NATLIKE: return 'Nat'
    if t == 'u32': return 'UInt32'
    if t == 'u8': return 'UInt8'
    if is_list(t):
        inner = lean_type(t[1])
        return f'List {inner}' if ' ' not in inner else f'List ({inner})'
    raise Unsupported(f'no Lean type for {t!r}')


def show_type(t):
    t = resolve(t)
    if isinstance(t, IntVar): return '{integer}'
    if is_list(t): return f'[{show_type(t[1])}]'
    return str(t)


class Var:
    def __init__(self, name, ty, mutable, order, kind):
        self.name, self.ty, self.mutable, self.order, self.kind = name, ty, mutable, order, kind


def lname(name):
    return f'«{name}»' if name in LEAN_KEYWORDS else name


# Meaning of the external items the file uses, keyed by the path after resolving `use` aliases.
#   'identity'  : the call returns its single argument
#   'pbkdf2'    : derive_key(password, salt, iterations, &mut out) fills `out`:  out := pbkdf2Sha256 password salt iterations out.length
ORION = ['orion', 'hazardous', 'kdf', 'pbkdf2', 'sha256']
EXTERN = {
    tuple(ORION + ['Password', 'from_slice']): 'identity',
    tuple(ORION + ['derive_key']): 'pbkdf2',
}


# ------------------------------------------------------------------------------------------------ translation

class FnTranslator:
    def __init__(self, fn, sigs, uses, src_lines, consts=None):
        self.fn, self.sigs, self.uses, self.src_lines = fn, sigs, uses, src_lines
        self.consts = consts or {}          # name -> type of the `const` items above this function
        self.counter = 0
        self.asserts = []

    def bad(self, what, line):
        raise Unsupported(what, line)

    # ---- environment: list of scopes (dict name -> Var)
    def lookup(self, name, line):
        for sc in reversed(self.scopes):
            if name in sc:
                v = sc[name]
                if getattr(v, 'split', None):
                    self.bad(f'`{name}` mentioned after `{name}.split_at_mut(..)` (its halves `{v.split[0]}`, `{v.split[1]}` are not written back)', line)
                return v
        self.bad(f'unknown variable `{name}`', line)

    def declare(self, name, ty, mutable, kind, line):
        # a new binding must not hide a variable whose final value is collected at the end of an enclosing
        # loop body or of the function (the collected name would then denote the wrong variable)
        # (only bindings made in the very scope where the values are collected matter: an inner scope ends earlier)
        for depth, tracked in self.tracked:
            for v in tracked:
                if depth == len(self.scopes) - 1 and v.name == name and self.lookup_opt(name) is v:
                    self.bad(f'binding `{name}` shadows a variable that is being updated in the enclosing loop/function', line)
        self.counter += 1
        v = Var(name, ty, mutable, self.counter, kind)
        self.scopes[-1][name] = v
        return v

    def lookup_opt(self, name):
        for sc in reversed(self.scopes):
            if name in sc: return sc[name]
        return None

    # ---- types
    def unify(self, a, b, line, what):
        a, b = resolve(a), resolve(b)
        if a is b: return a
        if isinstance(a, IntVar):
            if not is_int(b): self.bad(f'{what}: an integer was expected, found {show_type(b)}', line)
            a.bound = b; return b
        if isinstance(b, IntVar):
            if not is_int(a): self.bad(f'{what}: an integer was expected, found {show_type(a)}', line)
            b.bound = a; return a
        if is_list(a) and is_list(b):
            self.unify(a[1], b[1], line, what); return a
        if a != b: self.bad(f'{what}: types {show_type(a)} and {show_type(b)} differ', line)
        return a

    def node_tv(self, node):
        if not hasattr(node, 'tv'): node.tv = IntVar()
        return node.tv

    # ---- expressions: return (lean text, type, atomic?)
    def paren(self, r):
        text, _, atomic = r
        return text if atomic else f'({text})'

    def expr(self, e):
        k = e.kind
        if k == 'lit':
            if e.suffix is not None:
                if e.suffix not in INTS: self.bad(f'integer suffix `{e.suffix}`', e.line)
                return (f'({e.val} : {lean_type(e.suffix)})', e.suffix, True)
            return (str(e.val), self.node_tv(e), True)
        if k == 'paren':
            return self.expr(e.e)
        if k == 'path':
            if len(e.path) == 1:
                if self.lookup_opt(e.path[0]) is None and e.path[0] in self.consts:
                    return (lname(e.path[0]), self.consts[e.path[0]], True)
                v = self.lookup(e.path[0], e.line)
                return (lname(v.name), v.ty, True)
            if e.path == ['usize', 'MAX']: return ('(2^64 - 1)', 'usize', True)
            if e.path == ['usize', 'BITS']: return ('64', self.node_tv(e), True)
            self.bad(f'path `{"::".join(e.path)}` used as a value', e.line)
        if k == 'ref':
            t, ty, at = self.expr(e.e)
            return (t, ty, at)
        if k == 'unary':
            if e.op == '*':
                return self.expr(e.e)
            self.bad(f'unary `{e.op}`', e.line)
        if k == 'cast':
            r = self.expr(e.e)
            return self.convert(r, e.ty, e.line, '`as`')
        if k == 'bin':
            return self.binop(e)
        if k == 'index':
            base = self.expr(e.e)
            if not is_list(base[1]): self.bad(f'indexing a value of type {show_type(base[1])}', e.line)
            elem = resolve(base[1])[1]
            if e.ix.kind == 'range':
                return (self.slice_text(self.paren(base), e.ix), ('list', elem, 'ref'), False)
            ix = self.expr(e.ix)
            self.unify(ix[1], 'usize', e.line, 'index')
            return (f'Rs.idx {self.paren(base)} {self.paren(ix)}', elem, False)
        if k == 'range':
            self.bad('range expression outside an index or a `for` header', e.line)
        if k == 'repeat':
            elem = self.expr(e.elem)
            if isinstance(resolve(elem[1]), IntVar): self.bad(f'{e.what} element without a type suffix', e.line)
            cnt = self.expr(e.count)
            self.unify(cnt[1], 'usize', e.line, 'repeat count')
            return (f'List.replicate {self.paren(cnt)} {self.paren(elem)}', ('list', resolve(elem[1]), 'own'), False)
        if k == 'call':
            return self.call_expr(e)
        if k == 'mcall':
            return self.mcall_expr(e)
        if k == 'assign':
            self.bad('assignment used as an expression', e.line)
        if k == 'assert':
            self.bad(f'`{e.what}!` used as an expression', e.line)
        self.bad(f'expression {k}', e.line)

    def slice_bounds(self, rng):
        lo = hi = None
        if rng.lo is not None:
            lo = self.expr(rng.lo); self.unify(lo[1], 'usize', rng.line, 'slice bound')
        if rng.hi is not None:
            hi = self.expr(rng.hi); self.unify(hi[1], 'usize', rng.line, 'slice bound')
        return lo, hi

    def slice_text(self, base, rng):
        lo, hi = self.slice_bounds(rng)
        if lo is None and hi is None: return base
        if hi is None: return f'{base}.drop {self.paren(lo)}'
        if lo is None: return f'{base}.take {self.paren(hi)}'
        return f'({base}.drop {self.paren(lo)}).take ({self.paren(hi)} - {self.paren(lo)})'

    def convert(self, r, target, line, what):
        """numeric conversion of r to the scalar type `target` (`as` casts and `T::from`)"""
        src = resolve(r[1])
        if target not in INTS: self.bad(f'{what} to {show_type(target)}', line)
        if isinstance(src, IntVar):
            src.bound = target; return (r[0], target, r[2])
        if src not in INTS: self.bad(f'{what} from {show_type(src)}', line)
        if src in NATLIKE and target in NATLIKE: return (r[0], target, r[2])   # usize <-> u64 (both 64 bit): identity
        if src == target: return (r[0], target, r[2])
        if target in NATLIKE: return (f'{self.paren(r)}.toNat', target, False)  # widening u8/u32 -> usize/u64
        if what == '`as`':                                                      # truncating cast
            if src in NATLIKE: return (f'{lean_type(target)}.ofNat {self.paren(r)}', target, False)
            if (src, target) == ('u8', 'u32'): return (f'{self.paren(r)}.toUInt32', target, False)
            if (src, target) == ('u32', 'u8'): return (f'{self.paren(r)}.toUInt8', target, False)
        if (src, target) == ('u8', 'u32'): return (f'{self.paren(r)}.toUInt32', target, False)
        self.bad(f'{what} from {show_type(src)} to {show_type(target)}', line)

    def binop(self, e):
        return self.binop_on(e.op, self.expr(e.l), self.expr(e.r), e)

    def binop_on(self, op, l, r, e):
        if op in ('&&', '||'):
            if resolve(l[1]) != 'bool' or resolve(r[1]) != 'bool': self.bad(f'`{op}` on non-boolean operands', e.line)
            return (f'{self.paren(l)} {"∧" if op == "&&" else "∨"} {self.paren(r)}', 'bool', False)
        if not is_int(l[1]) or not is_int(r[1]):
            self.bad(f'operator `{op}` on {show_type(l[1])} and {show_type(r[1])}', e.line)
        if op in CMP:
            self.unify(l[1], r[1], e.line, f'operands of `{op}`')
            sym = {'==': '=', '!=': '≠', '<': '<', '>': '>', '<=': '≤', '>=': '≥'}[op]
            return (f'{self.paren(l)} {sym} {self.paren(r)}', 'bool', False)
        if op in ('<<', '>>'):
            if not is_natlike(l[1]) or not is_natlike(r[1]):
                self.bad(f'shift `{op}` on {show_type(l[1])} by {show_type(r[1])} (only usize/u64 shifts are supported)', e.line)
            return (f'{self.paren(l)} {op + op[0]} {self.paren(r)}', l[1], False)
        ty = self.unify(l[1], r[1], e.line, f'operands of `{op}`')
        if op in ('^', '&', '|'):
            return (f'{self.paren(l)} {op * 3} {self.paren(r)}', ty, False)
        if op in ('+', '-', '*', '/', '%'):
            if not is_natlike(ty):
                self.bad(f'plain `{op}` on {show_type(ty)} (may panic on overflow; only wrapping_* is supported on u32/u8)', e.line)
            return (f'{self.paren(l)} {op} {self.paren(r)}', ty, False)
        self.bad(f'operator `{op}`', e.line)

    def resolve_path(self, path):
        if path[0] in self.uses:
            return tuple(self.uses[path[0]] + path[1:])
        return tuple(path)

    def call_expr(self, e):
        if e.f.kind != 'path': self.bad('call of a computed function', e.line)
        path = e.f.path
        if len(path) == 1 and path[0] in self.sigs:
            sig = self.sigs[path[0]]
            if any(is_list(t) and resolve(t)[2] == 'mutref' for _, t, _ in sig.params):
                self.bad(f'call of `{path[0]}` (which has `&mut` parameters) inside an expression', e.line)
            if sig.ret is None: self.bad(f'call of `{path[0]}` (no result) inside an expression', e.line)
            args = self.plain_args(sig, e)
            return (' '.join([lname(sig.name)] + args), sig.ret, False)
        if len(path) == 2 and path[0] in NATLIKE + ('u32',) and path[1] == 'from':
            if len(e.args) != 1: self.bad(f'`{"::".join(path)}` with {len(e.args)} arguments', e.line)
            r = self.expr(e.args[0])
            if isinstance(resolve(r[1]), IntVar): self.bad(f'`{"::".join(path)}` of an untyped literal', e.line)
            return self.convert(r, path[0], e.line, f'`{path[0]}::from`')
        if path == ['u32', 'from_le_bytes']:
            if len(e.args) != 1: self.bad('`u32::from_le_bytes` with several arguments', e.line)
            r = self.expr(e.args[0])
            if not is_list(r[1]) or resolve(resolve(r[1])[1]) != 'u8': self.bad('`u32::from_le_bytes` of something other than bytes', e.line)
            return (f'Rs.u32FromLeBytes {self.paren(r)}', 'u32', False)
        full = self.resolve_path(path)
        if EXTERN.get(full) == 'identity':
            if len(e.args) != 1: self.bad(f'`{"::".join(path)}` with {len(e.args)} arguments', e.line)
            return self.expr(e.args[0])
        if path[0] in self.sigs or len(path) == 1:
            self.bad(f'call of `{"::".join(path)}`, which is not defined earlier in the file', e.line)
        self.bad(f'call of external function `{"::".join(full)}`', e.line)

    def plain_args(self, sig, e):
        if len(e.args) != len(sig.params): self.bad(f'`{sig.name}` called with {len(e.args)} arguments', e.line)
        out = []
        for a, (pn, pt, _) in zip(e.args, sig.params):
            r = self.expr(a)
            self.unify(r[1], pt, e.line, f'argument `{pn}` of `{sig.name}`')
            out.append(self.paren(r))
        return out

    def mcall_expr(self, e):
        name = e.name
        if name == 'unwrap' or name == 'try_into':
            if e.args: self.bad(f'`.{name}` with arguments', e.line)
            return self.expr(e.recv)
        recv = self.expr(e.recv)
        rt = resolve(recv[1])
        if name == 'wrapping_add':
            if len(e.args) != 1: self.bad('`.wrapping_add` arity', e.line)
            a = self.expr(e.args[0])
            ty = resolve(self.unify(rt, a[1], e.line, 'operands of wrapping_add'))
            if ty not in ('u32', 'u8'): self.bad(f'`.wrapping_add` on {show_type(ty)} (only u32/u8, where Lean `+` wraps the same way)', e.line)
            return (f'{self.paren(recv)} + {self.paren(a)}', ty, False)
        if name == 'rotate_left':
            if len(e.args) != 1: self.bad('`.rotate_left` arity', e.line)
            if rt != 'u32': self.bad(f'`.rotate_left` on {show_type(rt)}', e.line)
            a = self.expr(e.args[0])
            self.unify(a[1], 'u32', e.line, 'rotation count')
            return (f'Kestrel.rotl32 {self.paren(recv)} {self.paren(a)}', 'u32', False)
        if name == 'to_le_bytes':
            if e.args or rt != 'u32': self.bad(f'`.to_le_bytes` on {show_type(rt)}', e.line)
            return (f'Rs.u32ToLeBytes {self.paren(recv)}', ('list', 'u8', 'own'), False)
        if name in ('iter', 'enumerate', 'step_by'):
            self.bad(f'`.{name}()` outside a `for` header', e.line)
        if name == 'copy_from_slice':
            self.bad('`.copy_from_slice` used as an expression', e.line)
        self.bad(f'method `.{name}`', e.line)

    # ---- mutable places: a variable, or a range slice of a variable
    def place(self, e, what):
        """returns (var, read text, writeback(new text) -> text of the new whole value, elem list type, is_sub)"""
        orig = e
        if e.kind == 'ref': e = e.e
        while e.kind == 'paren': e = e.e
        if e.kind == 'path' and len(e.path) == 1:
            v = self.lookup(e.path[0], e.line)
            self.need_mutable(v, orig, what)
            return (v, lname(v.name), (lambda new: new), v.ty, False)
        if e.kind == 'index' and e.ix.kind == 'range' and e.e.kind == 'path' and len(e.e.path) == 1:
            v = self.lookup(e.e.path[0], e.line)
            self.need_mutable(v, orig, what)
            if not is_list(v.ty): self.bad(f'slicing `{v.name}` of type {show_type(v.ty)}', e.line)
            n = lname(v.name)
            lo, hi = self.slice_bounds(e.ix)
            read = self.slice_text(n, e.ix)
            if lo is None and hi is None: wb = lambda new: new
            elif hi is None: wb = lambda new: f'{n}.take {self.paren(lo)} ++ {new}'
            elif lo is None: wb = lambda new: f'{new} ++ {n}.drop {self.paren(hi)}'
            else: wb = lambda new: f'{n}.take {self.paren(lo)} ++ {new} ++ {n}.drop {self.paren(hi)}'
            return (v, read, wb, v.ty, not (lo is None and hi is None))
        self.bad(f'{what}: only a variable or a range slice of a variable can be borrowed mutably', orig.line)

    def need_mutable(self, v, e, what):
        if not v.mutable:
            self.bad(f'{what}: `{v.name}` is not mutable', e.line)
        if e.kind == 'ref' and not e.mut:
            self.bad(f'{what}: `&` where `&mut` is needed', e.line)
        if e.kind != 'ref' and v.kind != 'mutref':
            # passing an owned local where &mut is expected needs an explicit `&mut` (method receivers auto-borrow)
            if what.startswith('argument'):
                self.bad(f'{what}: `{v.name}` passed without `&mut`', e.line)

    # ---- statements
    def comment(self, line):
        if line != self.last_comment_line and 1 <= line <= len(self.src_lines):
            self.last_comment_line = line
            self.emit(f'-- {line}: {self.src_lines[line - 1].strip()}')

    def emit(self, text):
        self.lines.append('  ' * self.depth + text)

    def state_text(self, vars_):
        names = [lname(v.name) for v in vars_]
        return names[0] if len(names) == 1 else '(' + ', '.join(names) + ')'

    def assigned_outer(self, block, local):
        """the variables declared outside `block` that its statements assign (declaration order)"""
        found = {}

        def note(name, line):
            if name in local[-1]: return
            v = self.lookup_opt(name)
            if v is None: self.bad(f'unknown variable `{name}`', line)
            found[v.order] = v

        def place_var(e):
            if e.kind == 'ref': e = e.e
            while e.kind == 'paren': e = e.e
            if e.kind == 'unary' and e.op == '*': e = e.e         # `*d = …` for a `&mut` loop variable
            while e.kind == 'paren': e = e.e
            if e.kind == 'index': e = e.e
            while e.kind == 'paren': e = e.e
            if e.kind == 'path' and len(e.path) == 1: return e.path[0]
            self.bad('assignment or mutable borrow of something other than a variable, an element or a range slice of it', e.line)

        def scan_call(e):
            # call statements: which arguments are `&mut`?
            if e.kind == 'mcall' and e.name == 'unwrap': return scan_call(e.recv)
            if e.kind == 'mcall' and e.name == 'copy_from_slice':
                note(place_var(e.recv), e.line); return
            if e.kind == 'call' and e.f.kind == 'path':
                path = e.f.path
                if len(path) == 1 and path[0] in self.sigs:
                    for a, (_, pt, _) in zip(e.args, self.sigs[path[0]].params):
                        if is_list(pt) and resolve(pt)[2] == 'mutref': note(place_var(a), e.line)
                    return
                if EXTERN.get(self.resolve_path(path)) == 'pbkdf2' and len(e.args) == 4:
                    note(place_var(e.args[3]), e.line); return

        def scan(block):
            local.append(set(local[-1]))
            for s in block.stmts:
                if s.kind == 'let': local[-1].add(s.name)
                elif s.kind == 'lettuple': local[-1].update(s.names)
                elif s.kind == 'for':
                    m = self.zip_parts(s.iter)
                    if m is not None: note(place_var(m[0].recv), s.line)
                    cm = self.chunks_mut_part(s.iter)
                    if cm is not None: note(place_var(cm.recv), s.line)
                    local.append(set(local[-1]) | {n for n in s.pat if n != '_'})
                    scan(s.body)
                    local.pop()
                elif s.kind == 'expr':
                    if s.e.kind == 'assign': note(place_var(s.e.place), s.e.line)
                    else: scan_call(s.e)
            local.pop()

        scan(block)
        return [found[k] for k in sorted(found)]

    def stmt(self, s):
        self.comment(s.line)
        if s.kind == 'let':
            r = self.expr(s.init)
            ty = r[1]
            if resolve(ty) == 'bool': self.bad('boolean `let`', s.line)
            if s.ty is not None: ty = self.unify(r[1], s.ty, s.line, f'`let {s.name}`')
            tv = resolve(ty)
            v = self.declare(s.name, ty, s.mut, 'local', s.line)
            asc = '' if isinstance(tv, IntVar) else f' : {lean_type(tv)}'
            if s.name == '_': self.bad('`let _`', s.line)
            self.emit(f'let {lname(v.name)}{asc} := {r[0]}')
            return
        if s.kind == 'lettuple':
            return self.lettuple_stmt(s)
        if s.kind == 'for':
            return self.for_stmt(s)
        e = s.e
        if e.kind == 'assert':
            if self.depth_loops: self.bad(f'`{e.what}!` inside a loop', e.line)
            self.asserts.append(e)
            self.emit(f'-- ({e.what}! collected in `{self.fn.name}_pre`)')
            return
        if e.kind == 'assign':
            return self.assign_stmt(e)
        return self.call_stmt(e, top=True)

    def lettuple_stmt(self, s):
        """`let (a, b) = X.split_at(k);` / `let (a, b) = X.split_at_mut(k);`"""
        e = s.init
        while e.kind == 'paren': e = e.e
        if not (e.kind == 'mcall' and e.name in ('split_at', 'split_at_mut') and len(e.args) == 1):
            self.bad('tuple `let` of something other than `s.split_at(k)` / `s.split_at_mut(k)`', s.line)
        if len(s.names) != 2 or '_' in s.names or s.names[0] == s.names[1]:
            self.bad(f'`.{e.name}` needs a pattern `(a, b)` of two different names', s.line)
        k = self.expr(e.args[0]); self.unify(k[1], 'usize', s.line, 'split point')
        if e.name == 'split_at':
            base = self.expr(e.recv)
            if not is_list(base[1]): self.bad('`.split_at` on a non-slice', s.line)
            elem, src, kind, mutable = resolve(base[1])[1], self.paren(base), 'local', False
        else:
            recv = e.recv
            while recv.kind == 'paren': recv = recv.e
            if not (recv.kind == 'path' and len(recv.path) == 1): self.bad('`.split_at_mut` on something other than a variable', s.line)
            xv = self.lookup(recv.path[0], recv.line)
            if not is_list(xv.ty): self.bad('`.split_at_mut` on a non-slice', s.line)
            # the halves alias `xv`; no write-back is generated, so `xv` must be a local whose value nobody collects (not a
            # `&mut` parameter, not a variable of an enclosing loop state) and it may not be mentioned again
            if xv.kind != 'local' or not xv.mutable or self.depth_loops or xv.name not in self.scopes[-1] or self.scopes[-1][xv.name] is not xv:
                self.bad(f'`.split_at_mut` on `{xv.name}`, which is not a `let mut` local of the same block of the function body', s.line)
            if xv.name in s.names: self.bad('a half of `.split_at_mut` named like the slice', s.line)
            elem, src, kind, mutable = resolve(xv.ty)[1], lname(xv.name), 'mutref', True
        ty = ('list', elem, 'mutref' if mutable else 'ref')
        a = self.declare(s.names[0], ty, mutable, kind, s.line)
        b = self.declare(s.names[1], ty, mutable, kind, s.line)
        self.emit(f'let {lname(a.name)} : {lean_type(ty)} := {src}.take {self.paren(k)}')
        self.emit(f'let {lname(b.name)} : {lean_type(ty)} := {src}.drop {self.paren(k)}')
        if e.name == 'split_at_mut': xv.split = (a.name, b.name)

    def assign_stmt(self, e):
        p = e.place
        while p.kind == 'paren': p = p.e
        if p.kind == 'unary' and p.op == '*':
            q = p.e
            while q.kind == 'paren': q = q.e
            if q.kind == 'path' and len(q.path) == 1 and self.lookup(q.path[0], q.line).kind == 'zipmut': p = q
            else: self.bad('assignment through `*` to something other than a `&mut` loop variable', e.line)
        op = e.op[:-1]
        rhs = self.expr(e.e)

        def combined(cur, ty):
            if not op:
                self.unify(ty, rhs[1], e.line, 'assignment'); return rhs[0]
            return self.binop_on(op, cur, rhs, e)[0]       # `a op= b` is `a = a op b`

        if p.kind == 'path' and len(p.path) == 1:
            v = self.lookup(p.path[0], p.line)
            if not v.mutable or is_list(v.ty): self.bad(f'assignment to `{v.name}` (not a `let mut` scalar)', e.line)
            self.emit(f'let {lname(v.name)} := {combined((lname(v.name), v.ty, True), v.ty)}')
            return
        if p.kind == 'index' and p.ix.kind != 'range' and p.e.kind == 'path' and len(p.e.path) == 1:
            v = self.lookup(p.e.path[0], p.line)
            if not v.mutable or not is_list(v.ty): self.bad(f'element assignment to `{v.name}` (not a mutable slice)', e.line)
            ix = self.expr(p.ix)
            self.unify(ix[1], 'usize', e.line, 'index')
            elem = resolve(v.ty)[1]
            n = lname(v.name)
            cur = (f'Rs.idx {n} {self.paren(ix)}', elem, False)
            val = combined(cur, elem)
            if op or not rhs[2]: val = f'({val})'
            self.emit(f'let {n} := Rs.set {n} {self.paren(ix)} {val}')
            return
        self.bad('assignment to something other than a variable or `var[index]`', e.line)

    def call_stmt(self, e, top=False):
        if e.kind == 'mcall' and e.name == 'unwrap' and not e.args:
            return self.call_stmt(e.recv)
        if e.kind == 'mcall' and e.name == 'copy_from_slice':
            if len(e.args) != 1: self.bad('`.copy_from_slice` arity', e.line)
            v, read, wb, ty, sub = self.place(e.recv, 'receiver of copy_from_slice')
            if not is_list(ty): self.bad('`.copy_from_slice` on a non-slice', e.line)
            src = self.expr(e.args[0])
            self.unify(src[1], ty, e.line, 'copy_from_slice')
            rd = read if not sub else f'({read})'
            new = f'Rs.copyFromSlice {rd} {self.paren(src)}'
            self.emit(f'let {lname(v.name)} := {wb(new) if not sub else wb("(" + new + ")")}')
            return
        if e.kind == 'call' and e.f.kind == 'path':
            path = e.f.path
            if len(path) == 1 and path[0] in self.sigs:
                return self.local_call_stmt(self.sigs[path[0]], e)
            full = self.resolve_path(path)
            if EXTERN.get(full) == 'pbkdf2':
                if len(e.args) != 4: self.bad('`derive_key` arity', e.line)
                pw, salt, it = self.expr(e.args[0]), self.expr(e.args[1]), self.expr(e.args[2])
                for r, w in ((pw, 'password'), (salt, 'salt')):
                    if not is_list(r[1]) or resolve(resolve(r[1])[1]) != 'u8': self.bad(f'`derive_key` {w} is not a byte slice', e.line)
                self.unify(it[1], 'usize', e.line, 'iterations')
                v, read, wb, ty, sub = self.place(e.args[3], 'argument `dst_out` of derive_key')
                if not is_list(ty) or resolve(resolve(ty)[1]) != 'u8': self.bad('`derive_key` output is not a byte slice', e.line)
                rd = read if not sub else f'({read})'
                new = f'Kestrel.pbkdf2Sha256 {self.paren(pw)} {self.paren(salt)} {self.paren(it)} {rd}.length'
                self.emit(f'let {lname(v.name)} := {wb(new) if not sub else wb("(" + new + ")")}')
                return
            if path[0] in self.sigs or len(path) == 1:
                self.bad(f'call of `{"::".join(path)}`, which is not defined earlier in the file', e.line)
            self.bad(f'call statement of external function `{"::".join(full)}`', e.line)
        self.bad('expression statement that is not an assignment, a call, copy_from_slice or an assertion', e.line)

    def local_call_stmt(self, sig, e):
        if len(e.args) != len(sig.params): self.bad(f'`{sig.name}` called with {len(e.args)} arguments', e.line)
        args, outs, seen = [], [], set()
        for a, (pn, pt, _) in zip(e.args, sig.params):
            if is_list(pt) and resolve(pt)[2] == 'mutref':
                v, read, wb, ty, sub = self.place(a, f'argument `{pn}` of `{sig.name}`')
                self.unify(ty, pt, e.line, f'argument `{pn}` of `{sig.name}`')
                if v in seen: self.bad(f'`{v.name}` borrowed mutably twice in one call', e.line)
                seen.add(v)
                args.append(read if not sub else f'({read})')
                outs.append((v, wb, sub))
            else:
                r = self.expr(a)
                self.unify(r[1], pt, e.line, f'argument `{pn}` of `{sig.name}`')
                args.append(self.paren(r))
        if not outs:
            self.bad(f'call of `{sig.name}` as a statement although it changes nothing', e.line)
        if sig.ret is not None:
            self.bad(f'result of `{sig.name}` discarded', e.line)
        names = [lname(v.name) + ("'" if sub else '') for v, _, sub in outs]
        lhs = names[0] if len(names) == 1 else '(' + ', '.join(names) + ')'
        self.emit(f'let {lhs} := {" ".join([lname(sig.name)] + args)}')
        for (v, wb, sub), nm in zip(outs, names):
            if sub: self.emit(f'let {lname(v.name)} := {wb(nm)}')

    def zip_parts(self, it):
        """(left, right) when `it` is `X.iter_mut().zip(Y)` or `X.chunks_exact_mut(k).zip(Y)`, else None"""
        while it.kind == 'paren': it = it.e
        if it.kind == 'mcall' and it.name == 'zip' and len(it.args) == 1:
            left = it.recv
            while left.kind == 'paren': left = left.e
            if left.kind == 'mcall' and ((left.name == 'iter_mut' and not left.args) or
                                         (left.name == 'chunks_exact_mut' and len(left.args) == 1)):
                return left, it.args[0]
        return None

    def chunks_mut_part(self, it):
        """the `X.chunks_exact_mut(k)` node when `it` is just that, else None"""
        while it.kind == 'paren': it = it.e
        if it.kind == 'mcall' and it.name == 'chunks_exact_mut' and len(it.args) == 1: return it
        return None

    def chunks_mut_stmt(self, s, cm):
        """`for c in X.chunks_exact_mut(k) { … }`: the body may change the chunk `c` and outer variables other than X:
        (X, state) := Rs.forChunksMut k X (fun c state => …; (c, state)) state"""
        if len(s.pat) != 1 or s.pat[0] == '_': self.bad('`.chunks_exact_mut(..)` needs a plain loop variable', s.line)
        v, read, wb, ty, sub = self.place(Node('ref', cm.line, mut=True, e=cm.recv), 'receiver of `.chunks_exact_mut`')
        if not is_list(ty): self.bad('`.chunks_exact_mut` on a non-slice', s.line)
        elem = resolve(ty)[1]
        k = self.expr(cm.args[0]); self.unify(k[1], 'usize', s.line, 'chunk size')
        c = s.pat[0]
        state = self.assigned_outer(s.body, [{c}])
        if v in state: self.bad(f'`.chunks_exact_mut` loop whose body touches the chunked slice `{v.name}`', s.line)
        st = self.state_text(state) if state else '()'
        stb = st if state else '(_ : Unit)'
        rd = read if not sub else f'({read})'
        name = lname(v.name) + ("'" if sub else '')
        res = f'({name}, {st})' if state else f'({name}, _)'
        self.emit(f'let {res} := Rs.forChunksMut {self.paren(k)} {rd} (fun {lname(c)} {stb} =>')
        self.scopes.append({})
        cv = self.declare(c, ('list', elem, 'mutref'), True, 'mutref', s.line)
        self.tracked.append((len(self.scopes) - 1, [cv] + state))
        self.depth += 1; self.depth_loops += 1
        self.block_body(s.body)
        if s.body.tail is not None: self.bad('loop body ending in an expression', s.body.tail.line)
        if self.lookup_opt(c) is not cv: self.bad(f'`{c}` is shadowed at the end of the loop body', s.line)
        self.emit(f'({lname(c)}, {st})) {st}')
        self.depth -= 1; self.depth_loops -= 1
        self.tracked.pop()
        self.scopes.pop()
        if sub: self.emit(f'let {lname(v.name)} := {wb(name)}')

    def zip_stmt(self, s, left, right):
        """`for (m, x) in X.iter_mut().zip(Y) { … }` / `for (m, x) in X.chunks_exact_mut(k).zip(Y) { … }` where the body
        changes nothing but `*m` / the chunk `m`:  X := Rs.zipMut X Y (fun m x => …; m)  /  Rs.zipChunksMut k X Y (fun m x => …; m)"""
        if len(s.pat) != 2 or '_' in s.pat: self.bad('`.zip(..)` needs a pattern `(a, b)`', s.line)
        v, read, wb, ty, sub = self.place(Node('ref', left.line, mut=True, e=left.recv), f'receiver of `.{left.name}`')
        if not is_list(ty): self.bad(f'`.{left.name}` on a non-slice', s.line)
        elem = resolve(ty)[1]
        chunked = left.name == 'chunks_exact_mut'
        if chunked:
            k = self.expr(left.args[0]); self.unify(k[1], 'usize', s.line, 'chunk size')
        r = right
        while r.kind == 'paren': r = r.e
        if r.kind == 'ref' and not r.mut:
            ys = self.expr(r.e); yelem = None
        elif r.kind == 'mcall' and r.name == 'iter' and not r.args:
            ys = self.expr(r.recv); yelem = None
        elif r.kind == 'mcall' and r.name == 'chunks_exact' and len(r.args) == 1:
            inner = self.expr(r.recv)
            if not is_list(inner[1]): self.bad('`.chunks_exact` on a non-slice', s.line)
            k2 = self.expr(r.args[0]); self.unify(k2[1], 'usize', s.line, 'chunk size')
            ys = (f'Rs.chunksExact {self.paren(k2)} {self.paren(inner)}', None, False)
            yelem = ('list', resolve(inner[1])[1], 'ref')
        else:
            self.bad('`.zip(..)` of something other than `&s`, `s.iter()`, `s.chunks_exact(k)`', s.line)
        if yelem is None:
            if not is_list(ys[1]): self.bad('`.zip(..)` of a non-slice', s.line)
            yelem = resolve(ys[1])[1]
        outer = [w for w in self.assigned_outer(s.body, [set(s.pat)])]
        if outer: self.bad(f'`.zip(..)` loop whose body assigns the outer variable `{outer[0].name}`', s.line)
        rd = read if not sub else f'({read})'
        head = f'Rs.zipChunksMut {self.paren(k)} {rd} {self.paren(ys)}' if chunked else f'Rs.zipMut {rd} {self.paren(ys)}'
        m, x = s.pat
        name = lname(v.name) + ("'" if sub else '')
        self.emit(f'let {name} := {head} (fun {lname(m)} {lname(x)} =>')
        self.scopes.append({})
        mv = self.declare(m, ('list', elem, 'mutref') if chunked else elem, True, 'zipmut', s.line)
        self.declare(x, yelem, False, 'loopvar', s.line)
        self.tracked.append((len(self.scopes) - 1, [mv]))
        self.depth += 1; self.depth_loops += 1
        self.block_body(s.body)
        if s.body.tail is not None: self.bad('loop body ending in an expression', s.body.tail.line)
        self.emit(f'{lname(m)})')
        self.depth -= 1; self.depth_loops -= 1
        self.tracked.pop()
        self.scopes.pop()
        if sub: self.emit(f'let {lname(v.name)} := {wb(name)}')

    def for_stmt(self, s):
        it = s.iter
        while it.kind == 'paren': it = it.e
        zp = self.zip_parts(it)
        if zp is not None: return self.zip_stmt(s, zp[0], zp[1])
        cm = self.chunks_mut_part(it)
        if cm is not None: return self.chunks_mut_stmt(s, cm)
        pat = s.pat
        binders = []  # (name, type)
        if it.kind == 'mcall' and it.name == 'step_by' and len(it.args) == 1:
            rng = it.recv
            while rng.kind == 'paren': rng = rng.e
            if rng.kind != 'range' or rng.lo is None or rng.hi is None: self.bad('`.step_by` on something other than `(a..b)`', s.line)
            lo, hi, st = self.expr(rng.lo), self.expr(rng.hi), self.expr(it.args[0])
            ty = self.unify(lo[1], hi[1], s.line, 'range bounds')
            self.unify(st[1], 'usize', s.line, 'step')
            if not is_natlike(ty): self.bad(f'range over {show_type(ty)}', s.line)
            head = f'Rs.forStep {self.paren(lo)} {self.paren(hi)} {self.paren(st)}'
            if len(pat) != 1: self.bad('tuple pattern over a range', s.line)
            binders = [(pat[0], ty)]
        elif it.kind == 'range':
            if it.lo is None or it.hi is None: self.bad('half-open range in `for`', s.line)
            lo, hi = self.expr(it.lo), self.expr(it.hi)
            ty = self.unify(lo[1], hi[1], s.line, 'range bounds')
            if not is_natlike(ty): self.bad(f'range over {show_type(ty)}', s.line)
            head = f'Rs.forRange {self.paren(lo)} {self.paren(hi)}'
            if len(pat) != 1: self.bad('tuple pattern over a range', s.line)
            binders = [(pat[0], ty)]
        elif (it.kind == 'mcall' and it.name == 'enumerate' and not it.args and it.recv.kind == 'mcall'
              and it.recv.name == 'iter' and not it.recv.args):
            l = self.expr(it.recv.recv)
            if not is_list(l[1]): self.bad('`.iter()` on a non-slice', s.line)
            head = f'Rs.forEnum {self.paren(l)}'
            if len(pat) != 2: self.bad('`.iter().enumerate()` needs a pattern `(i, x)`', s.line)
            binders = [(pat[0], 'usize'), (pat[1], resolve(l[1])[1])]
        elif (it.kind == 'mcall' and it.name == 'iter' and not it.args) or it.kind == 'ref':
            inner = it.recv if it.kind == 'mcall' else it.e
            if it.kind == 'ref' and it.mut: self.bad('`for … in &mut …`', s.line)
            l = self.expr(inner)
            if not is_list(l[1]): self.bad('iteration over a non-slice', s.line)
            head = f'Rs.forIn {self.paren(l)}'
            if len(pat) != 1: self.bad('tuple pattern over a slice', s.line)
            binders = [(pat[0], resolve(l[1])[1])]
        else:
            self.bad('`for` over an iterator other than a..b, (a..b).step_by(k), s.iter(), s.iter().enumerate(), &s, '
                     's.iter_mut().zip(t), s.chunks_exact_mut(k).zip(t), s.chunks_exact_mut(k)', s.line)

        state = self.assigned_outer(s.body, [{n for n in pat if n != '_'}])
        if not state: self.bad('`for` loop that assigns no outer variable', s.line)
        st = self.state_text(state)
        bnames = ' '.join('_' if n == '_' else lname(n) for n, _ in binders)
        self.emit(f'let {st} := {head} (fun {bnames} {st} =>')
        self.scopes.append({})
        for n, ty in binders:
            if n != '_': self.declare(n, ty, False, 'loopvar', s.line)
        self.tracked.append((len(self.scopes) - 1, state))
        self.depth += 1; self.depth_loops += 1
        self.block_body(s.body)
        if s.body.tail is not None: self.bad('loop body ending in an expression', s.body.tail.line)
        self.emit(f'{st}) {st}')
        self.depth -= 1; self.depth_loops -= 1
        self.tracked.pop()
        self.scopes.pop()

    def block_body(self, block):
        for s in block.stmts:
            self.stmt(s)

    # ---- whole function
    def run(self):
        fn = self.fn
        self.lines, self.depth, self.depth_loops, self.last_comment_line = [], 1, 0, None
        self.asserts = []
        self.scopes = [{}]
        self.tracked = []
        self.counter = 0
        params, muts = [], []
        for pn, pt, pl in fn.params:
            mutable = is_list(pt) and resolve(pt)[2] == 'mutref'
            v = self.declare(pn, pt, mutable, 'mutref' if mutable else 'param', pl)
            params.append(f'({lname(pn)} : {lean_type(pt)})')
            if mutable: muts.append(v)
        self.tracked.append((0, muts))
        rets = [lean_type(v.ty) for v in muts] + ([lean_type(fn.ret)] if fn.ret is not None else [])
        if not rets: self.bad('function without result and without `&mut` parameters', fn.line)
        # body: statements in the function scope itself (so that the final tuple sees them)
        for s in fn.body.stmts:
            self.stmt(s)
        finals = [lname(v.name) for v in muts]
        for v in muts:
            if self.lookup_opt(v.name) is not v: self.bad(f'`{v.name}` is shadowed at the end of the function', fn.line)
        if fn.ret is not None:
            if fn.body.tail is None: self.bad('missing result expression', fn.line)
            self.comment(fn.body.tail.line)
            r = self.expr(fn.body.tail)
            self.unify(r[1], fn.ret, fn.body.tail.line, 'result')
            finals.append(r[0])
        elif fn.body.tail is not None:
            self.bad('unexpected result expression', fn.body.tail.line)
        self.emit(finals[0] if len(finals) == 1 else '(' + ', '.join(finals) + ')')
        head = f'def {lname(fn.name)} {" ".join(params)} : {" × ".join(rets)} :='
        out = [head] + self.lines
        pre = None
        if self.asserts:
            used, texts = [], []
            for a in self.asserts:
                r = self.expr(a.e)
                if resolve(r[1]) != 'bool': self.bad(f'`{a.what}!` of a non-boolean', a.line)
                texts.append(f'({r[0]})')
                for name in free_vars(a.e):
                    if name in self.consts and self.scopes[0].get(name) is None: continue
                    v = self.scopes[0].get(name)
                    if v is None or v.kind != 'param' or self.lookup_opt(name) is not v or not is_natlike(v.ty):
                        self.bad(f'`{a.what}!` mentions `{name}`, which is not an integer parameter of the function', a.line)
                    if v not in used: used.append(v)
            used.sort(key=lambda v: v.order)
            ps = ' '.join(f'({lname(v.name)} : Nat)' for v in used)
            pre = [f'/-- the `assert!`s of `{fn.name}` (lines {", ".join(str(a.line) for a in self.asserts)}) -/',
                   f'def {lname(fn.name + "_pre")} {ps} : Prop :=', '  ' + ' ∧\n  '.join(texts)]
        return out, pre


def free_vars(e):
    out = []

    def go(x):
        if isinstance(x, Node):
            if x.kind == 'path' and len(x.path) == 1: out.append(x.path[0])
            for k, v in x.__dict__.items():
                if k in ('kind', 'line', 'tv'): continue
                go(v)
        elif isinstance(x, (list, tuple)):
            for y in x: go(y)
    go(e)
    return out


class Sig:
    def __init__(self, fn):
        self.name, self.params, self.ret = fn.name, fn.params, fn.ret


def translate(src_text, src_label):
    cut = src_text.find('#[cfg(test)]')
    region = src_text if cut < 0 else src_text[:cut]
    digest = hashlib.sha256(region.encode()).hexdigest()
    src_lines = region.split('\n')
    p = Parser(tokenize(region))
    try:
        uses, fns = p.parse_file()
    except Unsupported as u:
        if p.fn and not getattr(u, 'fn', None): u.fn = p.fn
        raise
    sigs, chunks = {}, []
    consts = {}
    for c in sorted(p.consts, key=lambda c: c.line):
        # a `const` is a `@[simp] def`: `simp` (and `rs_unfold` of KestrelProofs/RsUnfold.lean) sees through it, so naming a
        # literal does not change what a proof about the functions sees
        if c.name in consts: raise Unsupported(f'two constants named `{c.name}`', c.line)
        if c.ty not in NATLIKE: raise Unsupported(f'`const {c.name}` of type {show_type(c.ty)} (only usize / u64 constants are supported)', c.line)
        holder = Node('fn', c.line, name=f'const {c.name}', params=[], ret=c.ty, body=None)
        try:
            tr = FnTranslator(holder, {}, uses, src_lines, dict(consts))
            tr.scopes, tr.tracked = [{}], []
            r = tr.expr(c.e); tr.unify(r[1], c.ty, c.line, f'const {c.name}'); r = tr.expr(c.e)
        except Unsupported as u:
            u.fn = f'const {c.name}'; raise
        consts[c.name] = c.ty
        chunks.append(f'/-- `const {c.name}` (scrypt.rs line {c.line}) -/\n@[simp] def {lname(c.name)} : {lean_type(c.ty)} := {r[0]}')
    for fn in fns:
        if fn.name in sigs: raise Unsupported(f'two functions named `{fn.name}`', fn.line)
        visible = {n: t for n, t in consts.items()}
        try:
            FnTranslator(fn, sigs, uses, src_lines, visible).run()           # first pass fixes the types of untyped literals
            body, pre = FnTranslator(fn, sigs, uses, src_lines, visible).run()
        except Unsupported as u:
            u.fn = fn.name
            raise
        sigs[fn.name] = Sig(fn)
        sig_src = ' '.join(x.strip() for x in src_lines[fn.line - 1:fn.body.line]).rstrip('{').strip()
        chunks.append(f'/-- `{sig_src}` (scrypt.rs line {fn.line}) -/\n' + '\n'.join(body))
        if pre: chunks.append('\n'.join(pre))
    header = f'''/-
  GENERATED by tools/rs2lean_scrypt.py -- do not edit.
  source : {src_label}  (the part before `#[cfg(test)]`, {len(region.encode())} bytes, {region.count(chr(10))} lines)
  sha256 : {digest}
  Shallow embedding, one `def` per Rust `fn`, statement by statement (each group of lines is preceded by the Rust line it
  comes from).  usize and u64 are `Nat` (no wrap-around: the reading is faithful only where `<fn>_pre`, the function's own
  `assert!`s, excludes overflow, and where subtractions do not go below zero); `usize::MAX` is 2^64-1.  u32/u8 are
  UInt32/UInt8 (`wrapping_add` = `+`).  Slices, arrays and `Vec`s are `List`s; a `&mut` parameter is passed by value and its
  final value returned (tuple in parameter order, the Rust result last); `&mut a[lo..]` is passed as `a.drop lo` and written
  back as `a.take lo ++ result`.  Rust panics (index out of range, failed `assert!`, `unwrap` of an error, slice length
  mismatch) are totalised as described in KestrelModel/RsPrelude.lean; `unwrap`/`try_into`/`&` are the identity.
  An integer literal whose type nothing fixes (e.g. the bounds of `(0..8)`) is a `Nat`.
  `orion::hazardous::kdf::pbkdf2::sha256::derive_key(pw, salt, c, &mut out)` is `out := Kestrel.pbkdf2Sha256 pw salt c out.length`.
-/
import KestrelModel.RsPrelude
import KestrelModel.Prim.Sha256
set_option linter.unusedVariables false
namespace Kestrel.ScryptSrc
open Kestrel
'''
    return header + '\n' + '\n\n'.join(chunks) + '\n\nend Kestrel.ScryptSrc\n'


def main(argv):
    here = os.path.dirname(os.path.abspath(__file__))
    repo = os.environ.get('KESTREL_REPO', '/repo')
    src = os.path.join(repo, 'src', 'crypto', 'src', 'scrypt.rs')
    out = os.path.join(here, '..', 'lean', 'KestrelModel', 'GeneratedScrypt.lean')
    label = 'src/crypto/src/scrypt.rs'
    args = argv[1:]
    while args:
        a = args.pop(0)
        if a == '--src' and args: src = args.pop(0)
        elif a == '--out' and args: out = args.pop(0)
        else:
            print(f'usage: {argv[0]} [--src scrypt.rs] [--out GeneratedScrypt.lean]', file=sys.stderr); return 2
    try:
        with open(src, encoding='utf-8') as f:
            text = f.read()
    except OSError as ex:
        print(f'rs2lean_scrypt: cannot read {src}: {ex}', file=sys.stderr); return 2
    try:
        result = translate(text, label)
    except Unsupported as u:
        where = f'in fn `{u.fn}`' if getattr(u, 'fn', None) else 'at top level'
        line = f' (line {u.line})' if u.line else ''
        print(f'rs2lean_scrypt: unsupported construct {where}{line}: {u.what}', file=sys.stderr)
        return 3
    old = None
    try:
        with open(out, encoding='utf-8') as f: old = f.read()
    except OSError:
        pass
    if old != result:
        tmp = out + '.tmp'
        with open(tmp, 'w', encoding='utf-8') as f: f.write(result)
        os.replace(tmp, out)
        print(f'rs2lean_scrypt: wrote {os.path.normpath(out)} ({len(result)} bytes)')
    else:
        print(f'rs2lean_scrypt: {os.path.normpath(out)} is up to date')
    return 0


if __name__ == '__main__':
    sys.exit(main(sys.argv))
