#!/usr/bin/env python3
"""
rs2lean_noise.py -- translate the Noise X handshake state machine (src/crypto/src/noise.rs) and the crypto wrapper functions of
src/crypto/src/lib.rs into Lean 4 definitions.

  input : $KESTREL_REPO/src/crypto/src/{lib,noise,errors}.rs   (KESTREL_REPO defaults to /repo; --repo DIR overrides)
  output: <this dir>/../lean/KestrelModel/GeneratedNoise.lean   (--out FILE overrides; written only when changed)
  exit  : 0 ok; 3 = a construct outside the supported subset (message names function and construct; output untouched)

Built on tools/rs2lean_stream.py (which is built on tools/rs2lean_scrypt.py): tokenizer, Pratt parser, literal typing, slices,
copy_from_slice, `if` / `else`, `?`, `.map_err`, `return`, enums, `impl From`, the `Rs.Step` continuation form.  This file adds
`struct`s with named fields and struct literals, `impl` blocks (`&self`, `&mut self`, associated functions, `Self`, trait impls
with `type Error = ..`), `type` aliases, tuples, `Option` fields and their methods, `VecDeque`, `for x in v` with `?` inside,
`match` on an enum with block arms (statement), `if let Some(x) = ..` as a statement, block expressions, string literals, the
panicking macros, and a demand-driven order of translation across lib.rs and noise.rs.  Nothing in here recognises a function by
its name or a line by its text; the file-specific knowledge is in these tables:
  TARGETS       the functions wanted (everything they call is translated too, callees first, and marked `@[simp]`: a proof
                about a wanted function sees through a helper that was extracted from it -- except a hand-written method of a
                std trait whose derived form has a built-in meaning, BUILTIN_TRAIT_METHODS: `Clone::clone`);
  ORION         Lean meaning of the orion functions lib.rs calls (by full path, after resolving the `use` aliases);
  STD_FNS       `std::cmp::max`;  CRATE_EXTERN  crate functions that stay external (`secure_random`);
  IDENTITY_FNS, STRUCT_LEAN, ENUM_LEAN, ENUM_LEAN_VARIANT   hand-written counterparts (RsIO.lean, Noise.lean).

Meaning of the constructs (combinators: lean/KestrelModel/RsPrelude.lean, RsIO.lean, RsNoise.lean):
  struct S { a: A, b: B }   -> `structure S where a : A  b : B`  (S { a: x, b } -> { a := x, b := b }; p.a -> p.a);
                               a struct with exactly ONE field is modelled by that field (newtype: PayloadKey, PublicKey,
                               PrivateKey are their bytes; the literal and the field access are the identity)
  impl S { fn f(..) }       -> def S.f;  `&self` / `self` -> a parameter `self`;  `&mut self` -> parameter `self`, and the
                               new value of `self` is returned: alone when the Rust function returns `()`, else (result, self)
  p.f = e;  p.m(..) for a `&mut self` method m, p a variable or a field path of one
                            -> `let v := { v with f := .. }` on the root variable v (nested `with` for a longer path)
  Option<T>                 -> Option T: is_some/is_none -> isSome/isNone; as_ref, clone, cloned -> identity;
                               unwrap / expect -> Rs.unwrap (panic on None totalised with `default`)
  Result unwrap / expect    -> Rs.unwrapRes (panic on Err totalised with `default`; `unwrap_or_default` is the same function)
  VecDeque<T>               -> List T: new -> [], push_back x -> q ++ [x], pop_front -> Rs.popFront
  Vec::new(), vec![a, b]    -> [], [a, b];  v.extend_from_slice(x) -> v := v ++ x;  x.zeroize() -> x := zeros of the same length
  (a, b), let (a, _) = e    -> Lean pairs
  &str, "lit", String       -> the UTF-8 bytes (List UInt8); .as_bytes(), .to_string() -> identity
  u64.to_le_bytes()         -> natLE 8 x  (the low 64 bits, little-endian)
  for x in v { .. }         -> Rs.Step.andThen (Rs.forInStep v (fun x state => ..) state) (fun state => rest)
  match x { E::A => {..}, .. } (statement) -> `match x with | E.A => .. | ..` in the continuation form of `if`
  assert!, debug_assert!, assert_eq!, unimplemented!  -> dropped (Rust panics; every site is listed in the generated header)
  match o / (a, b) / e { pats => .. }  -> `match o with` / `match a, b with`: patterns `_`, a name, `None`, `Some(p)`, `Ok(p)`,
                               `Err(p)`, `(p, q)`, an enum variant; as a value (arms without statements) and as a statement
  let x = match r { Ok(v) => v, Err(_) => return Err(E) };  -> `match r with | .error _ => return | .ok v =>` + the rest (as `?`)
  a.checked_sub(b)          -> Rs.checkedSub a b (usize / u64);  o.ok_or(e), o.ok_or_else(|| e) -> Rs.okOrElse o e
  Zeroizing::new(f(x)?), &f(x)?   -> the `?` is taken at the statement (the wrapper is the identity)
  const A: T = <expr over other consts>  -> the consts it mentions are emitted first
Normalising passes and constructs added for the second batch of harmless patches (the generated header states the meaning of those
that occur: table NOTES; nothing is added to the header for sources that do not use them):
  let S { a: x, b, c: _, .. } = e;     -> `let x := e.a; let b := e.b` (fields checked against the struct; without `..` every field
                               must be named; a one-field struct is the field: `e` itself)
  match f(..) { .. } where evaluating the scrutinee needs statements (fills a buffer, a `&mut self` method, `?`)
                            -> the statements of `let t = f(..);`, then the `match` on `t` (hoist_match: as the value of the function,
                               of a `return`, of a `let`, as a statement, in `let x = match .. { Ok(v) => v, Err(e) => return .. }`)
  the pattern `()`; `ref name` in a pattern (a reference is the value it points to)
  r.map(|x| e)              -> `Except.map (fun x => e) r` on a `Result`, `Option.map (fun x => e) r` on an `Option`
  s.split_at(n)             -> `(s.take n, s.drop n)`
  let x = if c { stmts; a } else { b };   let x = match s { p => { stmts; a }, q => return .., .. };   (also `if let`)
                            -> a DEFERRED `let`: `x` is declared, the expression becomes the statement `if c { stmts; x = a } else
                               { x = b }` and goes through if_pure / if_step / if_chain like any statement (assignments to outer
                               variables, `?`, `return` in the branches get their meaning there).  A branching expression whose
                               branches have only effect-free `let`s stays a Lean term (block_expr).  The same for the value of the
                               function: `let result' = <it>; result'`.  `let x;` / `let x: T;` written by hand is accepted too.
  x = f(..)?;  x = o.insert(v);          -> for a variable x: the statements of `let t = ..;`, then `x = t`
  o.insert(v) on an `Option` place      -> `let t := v; o := some t`, value `t` (the `&mut T` Rust returns is modelled by its value:
                               a write through a variable bound to it is refused)
"""
import sys, os, hashlib

sys.path.insert(0, os.path.dirname(os.path.abspath(__file__)))
import rs2lean_scrypt as B
import rs2lean_stream as S
from rs2lean_scrypt import Unsupported, Node, IntVar, resolve, is_list, lname

# ------------------------------------------------------------------------------------------------ tables

# (module, function) or (module, Type, method); '' = lib.rs
TARGETS = [('', 'sha256'), ('', 'hmac_sha256'), ('', 'hkdf_noise'), ('', 'hkdf_sha256'),
           ('', 'chapoly_encrypt_ietf'), ('', 'chapoly_decrypt_ietf'), ('', 'chapoly_encrypt_noise'), ('', 'chapoly_decrypt_noise'),
           ('', 'x25519'), ('', 'x25519_derive_public'),
           ('', 'PayloadKey', 'new'), ('', 'PayloadKey', 'as_bytes'), ('', 'PublicKey', 'as_bytes'), ('', 'PublicKey', 'try_from'),
           ('', 'PrivateKey', 'generate'), ('', 'PrivateKey', 'as_bytes'), ('', 'PrivateKey', 'to_public'),
           ('', 'PrivateKey', 'diffie_hellman'), ('', 'PrivateKey', 'try_from'),
           ('noise', 'KeyPair', 'new'),
           ('noise', 'CipherState', 'new'), ('noise', 'CipherState', 'initialize_key'), ('noise', 'CipherState', 'has_key'),
           ('noise', 'CipherState', 'set_nonce'), ('noise', 'CipherState', 'encrypt_with_ad'), ('noise', 'CipherState', 'decrypt_with_ad'),
           ('noise', 'SymmetricState', 'new'), ('noise', 'SymmetricState', 'mix_key'), ('noise', 'SymmetricState', 'mix_hash'),
           ('noise', 'SymmetricState', 'get_handshake_hash'), ('noise', 'SymmetricState', 'encrypt_and_hash'),
           ('noise', 'SymmetricState', 'decrypt_and_hash'), ('noise', 'SymmetricState', 'split'),
           ('noise', 'HandshakeState', 'init_x'), ('noise', 'HandshakeState', 'get_pubkey'),
           ('noise', 'HandshakeState', 'write_message'), ('noise', 'HandshakeState', 'read_message'),
           ('', 'noise_encrypt'), ('', 'noise_decrypt')]

# orion functions: full path -> ('value', Lean template, argument kinds, result type, implicit)
#                               ('out',   glue name,     argument kinds (one of them 'out'), implicit)
#   argument kinds: 'bytes' | 'optbytes' | 'out' (a `&mut [u8]` buffer the call fills)
_OR = ('orion', 'hazardous')
BYTES = ('list', 'u8', 'own')
ORION = {
    _OR + ('aead', 'chacha20poly1305', 'Nonce', 'from_slice'): ('value', '(Except.ok {0} : Except Unit (List UInt8))', ['bytes'], ('result', BYTES, 'unit'), ''),
    _OR + ('aead', 'chacha20poly1305', 'SecretKey', 'from_slice'): ('value', '(Except.ok {0} : Except Unit (List UInt8))', ['bytes'], ('result', BYTES, 'unit'), ''),
    _OR + ('aead', 'chacha20poly1305', 'seal'): ('out', 'RsNoise.chapolySeal O', ['bytes', 'bytes', 'bytes', 'optbytes', 'out'], 'O'),
    _OR + ('aead', 'chacha20poly1305', 'open'): ('out', 'RsNoise.chapolyOpen O', ['bytes', 'bytes', 'bytes', 'optbytes', 'out'], 'O'),
    _OR + ('ecc', 'x25519', 'PrivateKey', 'from_slice'): ('value', '(Except.ok {0} : Except Unit (List UInt8))', ['bytes'], ('result', BYTES, 'unit'), ''),
    _OR + ('ecc', 'x25519', 'PublicKey', 'from_slice'): ('value', '(Except.ok {0} : Except Unit (List UInt8))', ['bytes'], ('result', BYTES, 'unit'), ''),
    _OR + ('ecc', 'x25519', 'PublicKey', 'try_from'): ('value', 'Rs.okOr (O.pub {0})', ['bytes'], ('result', BYTES, 'unit'), 'O'),
    _OR + ('ecc', 'x25519', 'key_agreement'): ('value', 'Rs.okOr (O.dh {0} {1})', ['bytes', 'bytes'], ('result', BYTES, 'unit'), 'O'),
    _OR + ('hash', 'sha2', 'sha256', 'Sha256', 'digest'): ('value', '(Except.ok (O.sha256 {0}) : Except Unit (List UInt8))', ['bytes'], ('result', BYTES, 'unit'), 'O'),
    _OR + ('mac', 'hmac', 'sha256', 'SecretKey', 'from_slice'): ('value', '(Except.ok {0} : Except Unit (List UInt8))', ['bytes'], ('result', BYTES, 'unit'), ''),
    _OR + ('mac', 'hmac', 'sha256', 'HmacSha256', 'hmac'): ('value', '(Except.ok (O.hmac {0} {1}) : Except Unit (List UInt8))', ['bytes', 'bytes'], ('result', BYTES, 'unit'), 'O'),
    _OR + ('kdf', 'hkdf', 'sha256', 'derive_key'): ('out', 'RsNoise.hkdfDerive O', ['bytes', 'bytes', 'optbytes', 'out'], 'O'),
}
# accessors of orion newtypes (all modelled by their bytes): the identity
ORION_ACCESSORS = {'unprotected_as_bytes', 'to_bytes'}
STD_FNS = {('std', 'cmp', 'max'): ('max {0} {1}', 'usize')}
CRATE_EXTERN = {'secure_random': ('rand {0}', 'rand')}
IMPLICIT = {'O': 'RsNoise.Orion', 'rand': 'Nat → List UInt8'}
IDENTITY_FNS = {('zeroize', 'Zeroizing', 'new')}
STRUCT_LEAN = {'NoiseEncryptMsg': 'RsIO.NoiseEncryptMsg', 'NoiseDecryptMsg': 'RsIO.NoiseDecryptMsg'}
ENUM_LEAN = {'errors::NoiseError': 'Noise.Err'}
ENUM_LEAN_VARIANT = {'errors::NoiseError': {'Decrypt': 'decrypt', 'DhError': 'dh', 'Other': 'other'}}
# generic containers: name -> which type argument is the element type of the `List` (or the wrapped type)
LIST_GENERICS = {'Vec': 0, 'VecDeque': 0}
WRAP_GENERICS = {'Zeroizing': 0}

INTS = S.INTS
NATS = S.NATS
MUTATORS = {'extend_from_slice', 'push_back', 'pop_front', 'copy_from_slice', 'clone_from', 'zeroize', 'insert'}
PANIC_MACROS = {'assert', 'debug_assert', 'assert_eq', 'debug_assert_eq', 'unimplemented', 'panic', 'unreachable', 'todo'}


class AnyVar(IntVar):
    """a type not yet known (the element of `None`, of `Vec::new()`); bound by unification to any type"""


# ------------------------------------------------------------------------------------------------ parser

class NParser(S.SParser):
    def __init__(self, toks):
        super().__init__(toks)
        self.no_struct = 0

    # ---- types
    def parse_type(self):
        tok = self.peek()
        if self.accept('&') or self.accept('&&'):
            if self.peek().kind == 'lifetime': self.next()
            mut = bool(self.accept('mut'))
            if self.at('['):
                self.next(); elem = self.parse_type(); self.expect(']')
                return ('list', elem, 'mutref' if mut else 'ref')
            inner = self.parse_type()
            if mut:
                if is_list(inner): return ('list', inner[1], 'mutref')
                return ('mutref', inner)
            return inner
        if self.accept('('):
            if self.accept(')'): return 'unit'
            parts = [self.parse_type()]
            while self.accept(','):
                if self.at(')'): break
                parts.append(self.parse_type())
            self.expect(')')
            return parts[0] if len(parts) == 1 else ('tuple', tuple(parts))
        if self.accept('['):
            elem = self.parse_type(); self.expect(';')
            self.no_struct += 1
            self.parse_expr()
            self.no_struct -= 1
            self.expect(']')
            return ('list', elem, 'own')
        path = [self.ident().text]
        while self.at('::') and self.peek(1).kind == 'id':
            self.next(); path.append(self.ident().text)
        if path == ['Result']:
            self.expect('<'); ok = self.parse_type(); self.expect(','); err = self.parse_type(); self.close_angle()
            return ('result', ok, err)
        if path == ['Option']:
            self.expect('<'); inner = self.parse_type(); self.close_angle()
            return ('option', inner)
        if len(path) == 1 and path[0] in INTS + ('bool',): return path[0]
        if self.at('<'):
            self.next()
            args = []
            while not self.at('>') and not self.at('>>'):
                if self.peek().kind == 'lifetime': self.next()
                else: args.append(self.parse_type())
                if not self.at('>') and not self.at('>>'): self.expect(',')
            self.close_angle()
            return ('generic', tuple(path), tuple(args))
        return ('named', tuple(path))

    def close_angle(self):
        """consume one `>`; a `>>` token closes two levels (the second is left as a pending `>`)"""
        tok = self.peek()
        if tok.kind == 'p' and tok.text == '>>':
            tok.text = '>'          # the remaining half
            return
        self.expect('>')

    # ---- items
    def parse_items(self, want_bodies):
        items = dict(uses={}, consts={}, fns={}, enums={}, structs={}, froms=[], order=[], types={}, methods={}, impls=[])
        gated = False
        while self.peek().kind != 'eof':
            tok = self.peek()
            if self.at('#'):
                a = self.attribute()
                if a and a[0] == 'cfg': gated = True
                continue
            if gated:
                gated = False
                if self.accept('pub'):
                    if self.at('('): self.skip_balanced()
                self.skip_item(); continue
            if self.at('use'):
                self.parse_use(items['uses']); continue
            if self.accept('pub'):
                if self.at('('): self.skip_balanced()
                continue
            if self.at('const'):
                start = self.i
                try:
                    self.next(); name = self.ident(); self.expect(':'); ty = self.parse_type(); self.expect('=')
                    e = self.parse_expr(); self.expect(';')
                    items['consts'][name.text] = Node('const', name.line, name=name.text, ty=ty, e=e)
                except Unsupported:
                    self.i = start; self.skip_item()
                continue
            if self.at('type'):
                start = self.i
                try:
                    self.next(); name = self.ident(); self.expect('='); ty = self.parse_type(); self.expect(';')
                    items['types'][name.text] = ty
                except Unsupported:
                    self.i = start; self.skip_item()
                continue
            if self.at('fn'):
                self.parse_fn_item(items, want_bodies); continue
            if self.at('enum'):
                self.next(); name = self.ident(); self.expect('{')
                variants = []
                while not self.accept('}'):
                    if self.at('#'): self.attribute(); continue
                    v = self.ident(); payload = False
                    if self.at('(') or self.at('{'):
                        payload = True; self.skip_balanced()
                    if self.at('='): raise Unsupported('enum discriminant', v.line)
                    variants.append((v.text, payload))
                    if not self.at('}'): self.expect(',')
                items['enums'][name.text] = Node('enum', name.line, name=name.text, variants=variants)
                continue
            if self.at('struct'):
                self.next(); name = self.ident()
                unit = self.at(';')
                fields = None
                if self.at('{'):
                    start = self.i
                    try:
                        self.next(); fields = []
                        while not self.accept('}'):
                            if self.at('#'): self.attribute(); continue
                            pub = bool(self.accept('pub'))
                            if pub and self.at('('): self.skip_balanced()
                            fname = self.ident().text; self.expect(':')
                            fields.append((fname, self.parse_type(), pub))
                            if not self.at('}'): self.expect(',')
                    except Unsupported:
                        fields = None; self.i = start; self.skip_item()
                else:
                    self.skip_item()
                items['structs'][name.text] = Node('struct', name.line, name=name.text, unit=unit, fields=fields)
                continue
            if self.at('impl'):
                self.parse_impl(items, want_bodies, tok); continue
            self.skip_item()
        return items

    def parse_impl(self, items, want_bodies, tok):
        start = self.i
        try:
            self.next()
            if self.at('<'): raise Unsupported('generic impl', tok.line)
            first = self.parse_type()
            trait, selfty = None, first
            if self.accept('for'):
                trait, selfty = first, self.parse_type()
            if not (isinstance(selfty, tuple) and selfty[0] == 'named' and len(selfty[1]) == 1):
                raise Unsupported('impl for a type that is not a plain name', tok.line)
            tname = selfty[1][0]
            if trait is not None and isinstance(trait, tuple) and trait[0] == 'generic' and trait[1] == ('From',):
                # `impl From<X> for Y`: kept in the form rs2lean_stream.py uses
                self.expect('{')
                sub = dict(uses={}, consts={}, fns={}, enums={}, structs={}, froms=[], order=[], types={}, methods={}, impls=[])
                self.parse_fn_item(sub, True)
                self.expect('}')
                fn = list(sub['fns'].values())[0]
                items['froms'].append(Node('from', tok.line, src=trait[2][0], dst=selfty, fn=fn))
                return
            self.expect('{')
            assoc = {}
            sub = dict(uses={}, consts={}, fns={}, enums={}, structs={}, froms=[], order=[], types={}, methods={}, impls=[])
            while not self.accept('}'):
                if self.at('#'):
                    self.attribute(); continue
                if self.accept('pub'):
                    if self.at('('): self.skip_balanced()
                    continue
                if self.at('type'):
                    self.next(); an = self.ident().text; self.expect('='); assoc[an] = self.parse_type(); self.expect(';')
                    continue
                if self.at('fn'):
                    self.cur_impl = (tname, assoc)
                    self.parse_fn_item(sub, want_bodies)
                    self.cur_impl = None
                    continue
                raise Unsupported(f'item `{self.peek().text}` in an impl block', self.peek().line)
            for name in sub['order']:
                fn = sub['fns'][name]
                fn.impl_type, fn.impl_trait, fn.assoc = tname, trait, assoc
                items['methods'][(tname, name)] = fn
            items['impls'].append((tname, trait, sub['order']))
        except Unsupported:
            self.i = start; self.skip_item()

    cur_impl = None

    def parse_fn_sig(self):
        line = self.expect('fn').line
        name = self.ident().text
        generics = {}
        if self.accept('<'):
            while not self.accept('>'):
                if self.peek().kind == 'lifetime': raise Unsupported('lifetime parameter', line)
                g = self.ident().text
                self.expect(':')
                bound = [self.ident().text]
                while self.accept('::'): bound.append(self.ident().text)
                if self.at('+') or self.at('<'): raise Unsupported('compound trait bound', line)
                generics[g] = bound
                if not self.at('>'): self.expect(',')
        self.expect('(')
        params, self_kind = [], None
        while not self.accept(')'):
            if self.at('#'): self.attribute(); continue
            if self.at('&') and (self.at('self', 1) or (self.at('mut', 1) and self.at('self', 2))):
                self.next()
                self_kind = 'mut' if self.accept('mut') else 'ref'
                self.expect('self')
                if not self.at(')'): self.expect(',')
                continue
            if self.at('self'):
                self.next(); self_kind = 'own'
                if not self.at(')'): self.expect(',')
                continue
            if self.accept('mut'): raise Unsupported('`mut` parameter binding', line)
            pn = self.ident()
            self.expect(':')
            params.append((pn.text, self.parse_type(), pn.line))
            if not self.at(')'): self.expect(',')
        ret = 'unit'
        if self.accept('->'): ret = self.parse_type()
        if self.at('where'): raise Unsupported('`where` clause', line)
        return Node('fn', line, name=name, params=params, ret=ret, generics=generics, sig_end=self.peek().line,
                    self_kind=self_kind, impl_type=None, impl_trait=None, assoc={})

    # ---- statements
    def parse_block(self):
        saved, self.no_struct = self.no_struct, 0
        try:
            return self.parse_block_inner()
        finally:
            self.no_struct = saved

    def parse_block_inner(self):
        line = self.expect('{').line
        stmts, tail = [], None
        while not self.at('}'):
            tok = self.peek()
            if tok.kind == 'eof': raise Unsupported('unterminated block', line)
            if tail is not None:
                if tail.kind in ('if', 'match', 'loop', 'panic'):
                    stmts.append(Node('expr', tail.line, e=tail)); tail = None
                else:
                    raise Unsupported('expression without `;` in the middle of a block', tail.line)
            if self.at('#'):
                a = self.attribute()
                if a and a[0] == 'cfg': raise Unsupported('#[cfg] on a statement', tok.line)
                continue
            if self.at(';'):
                self.next(); continue
            if self.at('use'):
                uses = {}
                self.parse_use(uses)
                stmts.append(Node('use', tok.line, uses=uses)); continue
            if self.at('let'):
                self.next()
                if self.at('('):
                    self.next(); names = []
                    while not self.accept(')'):
                        if self.accept('mut'): pass
                        names.append(self.ident().text)
                        if not self.at(')'): self.expect(',')
                    ty = self.parse_type() if self.accept(':') else None
                    self.expect('=')
                    init = self.parse_expr()
                    self.expect(';')
                    stmts.append(Node('lettuple', tok.line, names=names, ty=ty, init=init)); continue
                mut = bool(self.accept('mut'))
                name = self.ident()
                if not mut and (self.at('::') or (self.at('{') and name.text[:1].isupper())):
                    stmts.append(self.parse_let_struct(tok, name)); continue
                if self.at('(') or self.at('{') or self.at('::'): raise Unsupported('pattern in `let`', tok.line)
                ty = self.parse_type() if self.accept(':') else None
                if self.accept(';'):
                    if name.text == '_': raise Unsupported('`let _;`', tok.line)
                    stmts.append(Node('letdecl', tok.line, name=name.text, mut=mut, ty=ty)); continue
                if not self.accept('='): raise Unsupported('`let` without initialiser', tok.line)
                init = self.parse_expr()
                if self.at('else'): raise Unsupported('`let … else`', tok.line)
                self.expect(';')
                stmts.append(Node('let', tok.line, name=name.text, mut=mut, ty=ty, init=init)); continue
            if self.at('for'):
                self.next()
                pat = self.parse_pattern(); self.expect('in')
                self.no_struct += 1
                it = self.parse_expr()
                self.no_struct -= 1
                body = self.parse_block()
                stmts.append(Node('for', tok.line, pat=pat, iter=it, body=body)); continue
            if self.at('return'):
                self.next()
                e = None if self.at(';') else self.parse_expr()
                self.expect(';')
                stmts.append(Node('return', tok.line, e=e)); continue
            if self.at('break') or self.at('continue'):
                self.next()
                if not self.at(';'): raise Unsupported(f'`{tok.text}` with a label or a value', tok.line)
                self.expect(';')
                stmts.append(Node(tok.text, tok.line)); continue
            if tok.kind == 'id' and tok.text in ('if', 'loop', 'match'):
                e = self.parse_primary()
                if self.accept(';') or not self.at('}'):
                    stmts.append(Node('expr', tok.line, e=e))
                else:
                    tail = e
                continue
            if tok.kind == 'id' and tok.text in ('while', 'unsafe', 'fn', 'struct', 'enum', 'impl', 'const', 'static', 'mod', 'type'):
                raise Unsupported(f'`{tok.text}`', tok.line)
            if self.at('{'): raise Unsupported('nested block statement', tok.line)
            e = self.parse_expr(B.PREC_ASSIGN)
            if self.accept(';'):
                stmts.append(Node('expr', tok.line, e=e))
            else:
                tail = e
        self.expect('}')
        return Node('block', line, stmts=stmts, tail=tail)

    def parse_let_struct(self, tok, first):
        """`let Path { field: name, field, field: _, .. } = init;` (after `let Path`): the bindings are plain names or `_`"""
        path = [first.text]
        while self.accept('::'): path.append(self.ident().text)
        if not self.accept('{'): raise Unsupported('pattern in `let`', tok.line)
        fields, rest = [], False
        while not self.accept('}'):
            if rest: raise Unsupported('struct pattern with fields after `..`', tok.line)
            if self.accept('..'):
                rest = True; continue
            if self.at('ref') or self.at('mut') or self.at('box'): raise Unsupported('`ref` / `mut` binding in a struct pattern', tok.line)
            f = self.ident()
            bind = f.text
            if self.accept(':'):
                if self.at('ref') or self.at('mut') or self.at('&') or self.at('('):
                    raise Unsupported('struct pattern whose field pattern is not a plain name or `_`', tok.line)
                bind = self.ident().text
                if self.at('{') or self.at('(') or self.at('::') or self.at('@') or not (bind[:1].islower() or bind[:1] == '_'):
                    raise Unsupported('struct pattern whose field pattern is not a plain name or `_`', tok.line)
            fields.append((f.text, bind))
            if not self.at('}'): self.expect(',')
        ty = self.parse_type() if self.accept(':') else None
        if not self.accept('='): raise Unsupported('`let` without initialiser', tok.line)
        init = self.parse_expr()
        if self.at('else'): raise Unsupported('`let … else`', tok.line)
        self.expect(';')
        return Node('letstruct', tok.line, path=path, fields=fields, rest=rest, ty=ty, init=init)

    # ---- expressions
    def parse_cond(self):
        self.no_struct += 1
        try:
            return super().parse_cond()
        finally:
            self.no_struct -= 1

    def parse_args(self, close):
        saved, self.no_struct = self.no_struct, 0
        try:
            return super().parse_args(close)
        finally:
            self.no_struct = saved

    def parse_path_rest(self, first):
        """`a::b::<T>::c` after the first segment; generic arguments are parsed and dropped"""
        path = [first]
        while self.at('::'):
            self.next()
            if self.accept('<'):
                while not self.at('>') and not self.at('>>'):
                    self.parse_type()
                    if not self.at('>') and not self.at('>>'): self.expect(',')
                self.close_angle()
                continue
            path.append(self.ident().text)
        return path

    def parse_pat(self, line):
        """a `match` pattern: `_`, a path (enum variant), a lower-case name (binding), `None`, `Some(p)`, `(p, q, ..)`, `&p`"""
        tok = self.peek()
        if self.at('_'):
            self.next(); return Node('pat', tok.line, k='wild')
        if self.at('&'):
            self.next(); self.accept('mut'); return self.parse_pat(line)
        if self.at('('):
            self.next(); elems = []
            while not self.accept(')'):
                elems.append(self.parse_pat(line))
                if not self.at(')'): self.expect(',')
            if len(elems) == 1: return elems[0]
            if not elems: return Node('pat', tok.line, k='unit')
            return Node('pat', tok.line, k='tuple', elems=elems)
        if tok.kind == 'id' and tok.text == 'ref' and self.peek(1).kind == 'id' and self.peek(1).text not in ('mut', 'ref', 'box'):
            # `ref name`: a binding by reference -- a reference is modelled by the value it points to
            self.next()
            nm = self.ident().text
            if self.at('@') or self.at('(') or self.at('{') or self.at('::') or not (nm[:1].islower() or nm[:1] == '_'):
                raise Unsupported('`ref` in front of something other than a plain name', line)
            return Node('pat', tok.line, k='bind', name=nm)
        if tok.kind != 'id' or tok.text in ('ref', 'mut', 'box'):
            raise Unsupported('`match` pattern other than a path, a name, `_`, `None`, `Some(..)`, `Ok(..)`, `Err(..)` or a tuple of these', line)
        p = [self.ident().text]
        while self.accept('::'): p.append(self.ident().text)
        if self.at('('):
            if p not in (['Some'], ['Ok'], ['Err']):
                raise Unsupported('`match` pattern other than a path, a name, `_`, `None`, `Some(..)`, `Ok(..)`, `Err(..)` or a tuple of these', line)
            self.next(); inner = self.parse_pat(line); self.expect(')')
            return Node('pat', tok.line, k=p[0].lower(), inner=inner)
        if self.at('{') or self.at('..') or self.at('..='):
            raise Unsupported('`match` pattern other than a path, a name, `_`, `None`, `Some(..)`, `Ok(..)`, `Err(..)` or a tuple of these', line)
        if p == ['None']: return Node('pat', tok.line, k='none')
        if len(p) == 1 and (p[0][:1].islower() or p[0][:1] == '_'): return Node('pat', tok.line, k='bind', name=p[0])
        return Node('pat', tok.line, k='path', path=p)

    def parse_primary(self):
        tok = self.peek()
        if tok.kind == 'id' and tok.text == 'match':
            self.next()
            self.no_struct += 1
            scrut = self.parse_expr()
            self.no_struct -= 1
            self.expect('{')
            arms = []
            while not self.accept('}'):
                pat = self.parse_pat(tok.line)
                if self.at('|') or self.at('if') or self.at('@'):
                    raise Unsupported('`match` arm with `|`, a guard or `@`', tok.line)
                self.expect('=>')
                if self.at('{'):
                    blk = self.parse_block()
                    body = blk.tail if (not blk.stmts and blk.tail is not None) else blk
                elif self.at('return'):
                    rl = self.next().line
                    saved, self.no_struct = self.no_struct, 0
                    body = Node('return', rl, e=None if (self.at(',') or self.at('}')) else self.parse_expr())
                    self.no_struct = saved
                else:
                    saved, self.no_struct = self.no_struct, 0
                    body = self.parse_expr()
                    self.no_struct = saved
                arms.append((pat, body))
                if not self.at('}'): self.accept(',')
            if all(p.k in ('wild', 'path') for p, _ in arms):
                # the form rs2lean_stream.py uses: `None` = `_`, a list = the path of an enum variant
                arms = [(None if p.k == 'wild' else p.path, b) for p, b in arms]
            return Node('match', tok.line, scrut=scrut, arms=arms)
        if tok.kind == 'p' and tok.text in ('|', '||'):
            self.next()
            params = []
            if tok.text == '|':
                while not self.accept('|'):
                    params.append(self.ident().text)
                    if self.at(':'): raise Unsupported('closure parameter with a type', tok.line)
                    if not self.at('|'): self.expect(',')
            if self.at('->'): raise Unsupported('closure with a result type', tok.line)
            if self.at('{'):
                blk = self.parse_block()
                if blk.stmts or blk.tail is None: raise Unsupported('closure whose body has statements', tok.line)
                return Node('closure', tok.line, params=params, body=blk.tail)
            return Node('closure', tok.line, params=params, body=self.parse_expr())
        if tok.kind == 'p' and tok.text == '(':
            if self.at(')', 1):
                self.next(); self.next(); return Node('unit', tok.line)
            self.next()
            saved, self.no_struct = self.no_struct, 0
            first = self.parse_expr()
            if self.at(','):
                elems = [first]
                while self.accept(','):
                    if self.at(')'): break
                    elems.append(self.parse_expr())
                self.expect(')')
                self.no_struct = saved
                return Node('tuple', tok.line, elems=elems)
            self.expect(')')
            self.no_struct = saved
            return Node('paren', tok.line, e=first)
        if tok.kind == 'id' and tok.text not in ('if', 'loop', 'true', 'false', 'while', 'unsafe', 'move', 'return', 'break', 'continue'):
            self.next()
            if self.at('!') and not self.at('!='):
                self.next()
                name = tok.text
                if name == 'vec':
                    self.expect('[')
                    if self.accept(']'): return Node('array', tok.line, elems=[])
                    first = self.parse_expr()
                    if self.accept(';'):
                        cnt = self.parse_expr(); self.expect(']')
                        return Node('repeat', tok.line, elem=first, count=cnt, what='vec!')
                    elems = [first]
                    while not self.accept(']'):
                        self.expect(',')
                        if self.at(']'): continue
                        elems.append(self.parse_expr())
                    return Node('array', tok.line, elems=elems)
                if name in PANIC_MACROS:
                    self.expect('(')
                    saved, self.no_struct = self.no_struct, 0
                    args = self.parse_args(')')
                    self.no_struct = saved
                    return Node('panic', tok.line, what=name, args=args)
                raise Unsupported(f'macro `{name}!`', tok.line)
            path = self.parse_path_rest(tok.text)
            if self.at('{') and not self.no_struct and (path[-1][:1].isupper()):
                self.next()
                fields = []
                while not self.accept('}'):
                    fname = self.ident()
                    if self.accept(':'):
                        saved, self.no_struct = self.no_struct, 0
                        val = self.parse_expr()
                        self.no_struct = saved
                    else:
                        val = Node('path', fname.line, path=[fname.text])
                    fields.append((fname.text, val))
                    if not self.at('}'): self.expect(',')
                return Node('structlit', tok.line, path=path, fields=fields)
            return Node('path', tok.line, path=path)
        return super().parse_primary()


# ------------------------------------------------------------------------------------------------ crate

class NModule:
    def __init__(self, name, label, text):
        self.name, self.label = name, label
        cut = text.find('#[cfg(test)]')
        self.region = text if cut < 0 else text[:cut]
        self.digest = hashlib.sha256(self.region.encode()).hexdigest()
        self.src_lines = self.region.split('\n')
        p = NParser(B.tokenize(self.region, ext=True))
        self.items = p.parse_items(True)


class NCrate(S.Crate):
    def __init__(self, srcdir):
        self.mods = {}
        for name, fname in (('', 'lib.rs'), ('errors', 'errors.rs'), ('noise', 'noise.rs')):
            with open(os.path.join(srcdir, fname), encoding='utf-8') as f:
                text = f.read()
            try:
                self.mods[name] = NModule(name, f'src/crypto/src/{fname}', text)
            except Unsupported as u:
                u.fn = getattr(u, 'fn', None) or f'<items of {fname}>'
                raise

    def resolve(self, mod, local_uses, path):
        path = list(path)
        for uses in (local_uses, self.mods[mod].items['uses']):
            if path[0] in uses:
                return self.normalise(uses[path[0]] + path[1:])
        it = self.mods[mod].items
        if any(path[0] in it[k] for k in ('fns', 'enums', 'structs', 'consts', 'types')):
            return ('crate', mod) + tuple(path)
        if path[0] in ('crate', 'std') or (mod == '' and path[0] in self.mods):
            return self.normalise(path)
        return None

    def item(self, full):
        if full is None or full[0] != 'crate' or len(full) < 3: return None
        m = self.mods.get(full[1])
        if m is None: return None
        if full[2] in m.items['types']:
            ty = m.items['types'][full[2]]
            if isinstance(ty, tuple) and ty[0] == 'named':
                return self.item(self.resolve(full[1], {}, ty[1]) + tuple(full[3:]))
            return None
        return super().item(full)


def qual(mod, name):
    return f'{mod}::{name}' if mod else name


def unqual(q):
    mod, _, name = q.rpartition('::')
    return mod, name


# ------------------------------------------------------------------------------------------------ translation of one function

class NFn(S.SFn):
    def __init__(self, tr, mod, fn, lean_name=None):
        self.tr = tr
        super().__init__(tr.crate, mod, fn, lean_name)

    def bad(self, what, line=None):
        raise Unsupported(what, line)

    # ---- types
    def struct_node(self, q):
        mod, name = unqual(q)
        return self.crate.mods[mod].items['structs'][name]

    def newtype(self, q):
        """a struct with exactly one field is modelled by that field: returns the field's semantic type, else None"""
        mod, name = unqual(q)
        node = self.struct_node(q)
        if mod == '' and name in STRUCT_LEAN: return None
        if node.fields is not None and len(node.fields) == 1:
            return self.sem_in(mod, node.fields[0][1])
        return None

    def field_type(self, q, fname, line):
        mod, name = unqual(q)
        node = self.struct_node(q)
        if node.fields is None: self.bad(f'struct `{q}`: fields outside the subset', line)
        for f, fty, pub in node.fields:
            if f == fname: return self.sem_in(mod, fty)
        self.bad(f'struct `{q}` has no field `{fname}`', line)

    def sem(self, t, line=None):
        if t in INTS or t in ('bool', 'unit'): return t
        if isinstance(t, IntVar): return t
        if isinstance(t, tuple):
            k = t[0]
            if k == 'list': return ('list', self.sem(t[1], line), t[2])
            if k == 'result': return ('result', self.sem(t[1], line), self.sem(t[2], line))
            if k == 'option': return ('option', self.sem(t[1], line))
            if k == 'tuple': return ('tuple', tuple(self.sem(x, line) for x in t[1]))
            if k in ('struct', 'enum'): return t
            if k == 'generic':
                path, args = t[1], t[2]
                if path[-1] in LIST_GENERICS and len(args) > LIST_GENERICS[path[-1]]:
                    return ('list', self.sem(args[LIST_GENERICS[path[-1]]], line), 'own')
                if path[-1] in WRAP_GENERICS and len(args) > WRAP_GENERICS[path[-1]]:
                    return self.sem(args[WRAP_GENERICS[path[-1]]], line)
                self.bad(f'generic type `{"::".join(path)}<…>`', line)
            if k == 'named':
                path = t[1]
                impl_type = getattr(self.fn, 'impl_type', None)
                if path == ('Self',):
                    if impl_type is None: self.bad('`Self` outside an impl', line)
                    return ('struct', qual(self.mod, impl_type))
                if path[0] == 'Self' and len(path) == 2:
                    assoc = getattr(self.fn, 'assoc', {}) or {}
                    if path[1] not in assoc: self.bad(f'associated type `Self::{path[1]}`', line)
                    return self.sem(assoc[path[1]], line)
                if path in (('str',), ('String',)): return ('list', 'u8', 'ref')
                ex = self.crate.expand(self.mod, self.local_uses, path)
                if ex and ex[0] == 'orion': return BYTES
                full = self.crate.resolve(self.mod, self.local_uses, path)
                it = self.crate.item(full)
                if it and it[0] == 'enum' and not it[3]: return ('enum', qual(it[1], it[2].name))
                if it and it[0] == 'struct' and not it[3]: return ('struct', qual(it[1], it[2].name))
                self.bad(f'type `{"::".join(path)}`', line)
        self.bad(f'type {t!r}', line)

    def sem_in(self, mod, ty):
        other = NFn(self.tr, mod, Node('fn', 0, name='<sig>', generics={}, params=[], ret='unit', body=None, impl_type=None, assoc={}))
        return other.sem(ty)

    def node_av(self, node):
        if not hasattr(node, 'av'): node.av = AnyVar()
        return node.av

    def lt(self, t):
        t = resolve(t)
        if isinstance(t, AnyVar):
            if self.tr.first_pass: return '_'
            self.bad('a type that nothing determines (annotate the `let`)')
        if isinstance(t, tuple):
            if t[0] == 'struct':
                mod, name = unqual(t[1])
                if mod == '' and name in STRUCT_LEAN: return STRUCT_LEAN[name]
                node = self.struct_node(t[1])
                if node.unit: return 'Unit'
                nt = self.newtype(t[1])
                if nt is not None: return self.lt(nt)
                self.tr.need_struct(t[1])
                return lname(name)
            if t[0] == 'enum':
                if t[1] in ENUM_LEAN: return ENUM_LEAN[t[1]]
                node = self.enum_node(t[1])
                if any(p for _, p in node.variants): self.bad(f'enum `{t[1]}` has variants with fields', node.line)
                self.tr.need_enum(t[1])
                return lname(unqual(t[1])[1])
            if t[0] == 'tuple':
                parts = [self.lt(x) for x in t[1]]
                return ' × '.join(p if ' ' not in p else f'({p})' for p in parts)
            if t[0] == 'list':
                inner = self.lt(t[1])
                return f'List {inner}' if ' ' not in inner else f'List ({inner})'
            if t[0] == 'option':
                inner = self.lt(t[1])
                return f'Option {inner}' if ' ' not in inner else f'Option ({inner})'
            if t[0] == 'result':
                a, b = self.lt(t[2]), self.lt(t[1])
                return 'Except ' + ' '.join(x if ' ' not in x else f'({x})' for x in (a, b))
        return super().lt(t)

    def show(self, t):
        t = resolve(t)
        if isinstance(t, AnyVar): return '_'
        if isinstance(t, tuple) and t[0] == 'tuple': return '(' + ', '.join(self.show(x) for x in t[1]) + ')'
        return super().show(t)

    def unify(self, a, b, line, what):
        a, b = resolve(a), resolve(b)
        if a is b: return a
        if isinstance(a, AnyVar):
            a.bound = b; return b
        if isinstance(b, AnyVar):
            b.bound = a; return a
        if isinstance(a, tuple) and isinstance(b, tuple) and a[0] == b[0] == 'tuple' and len(a[1]) == len(b[1]):
            for x, y in zip(a[1], b[1]): self.unify(x, y, line, what)
            return a
        return super().unify(a, b, line, what)

    def item_ref(self, mod, name):
        return lname(name)

    def res_encoded(self, t):
        return False

    # ---- the shape of a function's value
    def world(self):
        return [v for v in self.params_v if v.kind == 'mutref']

    def pack(self, text):
        w = self.world()
        if not w: return text
        for v in w:
            if self.lookup_opt(v.name) is not v: self.bad(f'`{v.name}` is shadowed where the function returns')
        names = [lname(v.name) for v in w]
        if resolve(self.ret_ty) == 'unit':
            return names[0] if len(names) == 1 else '(' + ', '.join(names) + ')'
        return '(' + ', '.join([text] + names) + ')'

    def ret_lt(self):
        return self.lt(self.ret_ty)

    def rho(self):
        w = self.world()
        parts = [self.lt(v.ty) for v in w]
        if resolve(self.ret_ty) != 'unit' or not w:
            parts = [self.ret_lt()] + parts
        return ' × '.join(p if ' ' not in p or len(parts) == 1 else f'({p})' for p in parts)

    # ---- expressions
    def str_bytes(self, tok_text, line):
        body = tok_text[1:-1]
        out, i = [], 0
        while i < len(body):
            c = body[i]
            if c == '\\':
                i += 1
                esc = body[i] if i < len(body) else ''
                m = {'n': '\n', 't': '\t', 'r': '\r', '0': '\0', '\\': '\\', '"': '"', "'": "'"}
                if esc not in m: self.bad(f'escape `\\{esc}` in a string literal', line)
                out.append(m[esc])
            else:
                out.append(c)
            i += 1
        return list(''.join(out).encode('utf-8'))

    def struct_of_path(self, path, line):
        """the struct a type path denotes (`Self`, an alias, a `use`d name): qualified name or None"""
        if list(path) == ['Self']:
            it = getattr(self.fn, 'impl_type', None)
            return qual(self.mod, it) if it else None
        full = self.crate.resolve(self.mod, self.local_uses, path)
        it = self.crate.item(full)
        if it and it[0] == 'struct' and not it[3]: return qual(it[1], it[2].name)
        return None

    def expr(self, e, want=None):
        k = e.kind
        if k == 'pre': return (e.text, e.ty, e.atomic)        # a value the statements above have already computed (hoist_match)
        if k == 'str':
            bs = self.str_bytes(e.text, e.line)
            return ('[' + ', '.join(f'({b} : UInt8)' for b in bs) + ']', ('list', 'u8', 'ref'), True)
        if k == 'tuple':
            w = resolve(want) if want is not None else None
            parts = []
            for i, x in enumerate(e.elems):
                wi = w[1][i] if isinstance(w, tuple) and w[0] == 'tuple' and len(w[1]) == len(e.elems) else None
                parts.append(self.expr(x, wi))
            return ('(' + ', '.join(p[0] for p in parts) + ')', ('tuple', tuple(p[1] for p in parts)), True)
        if k == 'structlit':
            q = self.struct_of_path(e.path, e.line)
            if q is None: self.bad(f'struct literal of `{"::".join(e.path)}`', e.line)
            node = self.struct_node(q)
            if node.fields is None: self.bad(f'struct `{q}`: fields outside the subset', e.line)
            names = [f for f, _, _ in node.fields]
            given = [f for f, _ in e.fields]
            if sorted(names) != sorted(given): self.bad(f'struct literal of `{q}`: fields {given} do not match {names}', e.line)
            vals = {}
            for f, v in e.fields:
                ft = self.field_type(q, f, e.line)
                r = self.expr(v, ft)
                self.unify(r[1], ft, e.line, f'field `{f}` of `{q}`')
                vals[f] = self.expr(v, ft)
            if self.newtype(q) is not None:
                r = vals[names[0]]
                return (r[0], ('struct', q), r[2])
            body = ', '.join(f'{lname(f)} := {vals[f][0]}' for f in names)
            return (f'({{ {body} }} : {self.lt(("struct", q))})', ('struct', q), True)
        if k == 'field':
            r = self.expr(e.e)
            rt = resolve(r[1])
            if isinstance(rt, tuple) and rt[0] == 'struct':
                ft = self.field_type(rt[1], e.name, e.line)
                if self.newtype(rt[1]) is not None: return (r[0], ft, r[2])
                return (f'{self.paren(r)}.{lname(e.name)}', ft, True)
            self.bad(f'field access `.{e.name}` on {self.show(rt)}', e.line)
        if k == 'path' and e.path == ['None']:
            w = resolve(want) if want is not None else None
            ty = w if isinstance(w, tuple) and w[0] == 'option' else ('option', self.node_av(e))
            return ('none', ty, True)
        if k == 'panic': self.bad(f'`{e.what}!` used as an expression', e.line)
        if k == 'array':
            tv = self.node_av(e) if not (want is not None and is_list(want)) else resolve(want)[1]
            for x in e.elems:
                tv = self.unify(self.expr(x, tv)[1], tv, e.line, 'array element')
            texts = [self.expr(x, tv)[0] for x in e.elems]
            return ('[' + ', '.join(texts) + ']', ('list', tv, 'own'), True)
        if k == 'match' and any(isinstance(p, Node) for p, _ in e.arms): return self.match_pat_expr(e, want)
        if k == 'if' and e.cond.kind != 'letsome' and e.els is not None and \
                any(b.stmts for b in (e.then, e.els)):
            c = self.expr(e.cond)
            if resolve(c[1]) != 'bool': self.bad('`if` condition is not a boolean', e.line)
            a = self.block_expr(e.then, want)
            b = self.block_expr(e.els, want)
            ty = self.unify(a[1], b[1], e.line, 'branches of `if`')
            return (f'if {c[0]} then {a[0]} else {b[0]}', ty, False)
        return super().expr(e, want)

    # ---- `match` on an `Option`, a tuple of values, an enum, with patterns `_`, name, `None`, `Some(p)`, `(p, q)`, `E::V`
    def match_heads(self, e):
        sc = e.scrut
        while sc.kind == 'paren': sc = sc.e
        elems = sc.elems if sc.kind == 'tuple' else [sc]
        for x in elems:
            if S.contains(x, ('try', 'assign', 'loop')) or self.effectful(x): self.bad('`match` on an expression with effects', e.line)
        return [self.expr(x) for x in elems]

    def pat_text(self, p, ty, line, top=True):
        """Lean pattern for the Rust pattern `p` against a value of type `ty`; declares the names it binds in the current scope"""
        ty = resolve(ty)
        if p.k == 'wild': return '_'
        if p.k == 'unit':
            if ty != 'unit': self.bad(f'pattern `()` against a value of type {self.show(ty)}', line)
            return '()'
        if p.k == 'bind':
            self.declare(p.name, ty, False, 'local', line)
            return lname(p.name)
        if p.k in ('none', 'some'):
            if not (isinstance(ty, tuple) and ty[0] == 'option'): self.bad(f'`Option` pattern against a value of type {self.show(ty)}', line)
            if p.k == 'none': return 'none'
            inner = self.pat_text(p.inner, ty[1], line, False)
            return f'some {inner}' if top else f'(some {inner})'
        if p.k in ('ok', 'err'):
            if not (isinstance(ty, tuple) and ty[0] == 'result'): self.bad(f'`Result` pattern against a value of type {self.show(ty)}', line)
            self.lt(ty)
            inner = self.pat_text(p.inner, ty[1] if p.k == 'ok' else ty[2], line, False)
            text = f'.ok {inner}' if p.k == 'ok' else f'.error {inner}'
            return text if top else f'({text})'
        if p.k == 'path':
            pv = self.path_expr(Node('path', line, path=p.path))
            if resolve(pv[1]) != ty: self.bad('`match` pattern of another type', line)
            return pv[0]
        if p.k == 'tuple':
            if not (isinstance(ty, tuple) and ty[0] == 'tuple' and len(ty[1]) == len(p.elems)):
                self.bad(f'tuple pattern against a value of type {self.show(ty)}', line)
            return '(' + ', '.join(self.pat_text(q, t, line, True) for q, t in zip(p.elems, ty[1])) + ')'
        self.bad('`match` pattern', line)

    def arm_pats(self, p, heads, line):
        if not isinstance(p, Node): p = Node('pat', line, k='wild') if p is None else Node('pat', line, k='path', path=p)
        if len(heads) == 1: return self.pat_text(p, heads[0][1], line)
        if p.k == 'wild': return ', '.join('_' for _ in heads)
        if p.k == 'tuple' and len(p.elems) == len(heads):
            return ', '.join(self.pat_text(q, h[1], line) for q, h in zip(p.elems, heads))
        self.bad('`match` on a tuple with a pattern that is neither a tuple nor `_`', line)

    def match_pat_expr(self, e, want):
        heads = self.match_heads(e)
        ty = None
        for final in (False, True):
            texts = []
            for p, body in e.arms:
                if body.kind == 'block' or S.contains(body, S.EXIT_KINDS): self.bad('`match` expression whose arm has statements', e.line)
                self.scopes.append({})
                pt = self.arm_pats(p, heads, e.line)
                r = self.expr(body, want if ty is None else ty)
                self.scopes.pop()
                ty = r[1] if ty is None else self.unify(ty, r[1], e.line, '`match` arms')
                texts.append(f'| {pt} => {r[0]}')
        return (f'(match {", ".join(h[0] for h in heads)} with ' + ' '.join(texts) + ')', ty, True)

    def diverges(self, body):
        """the `return` statement an arm consists of, if it does"""
        if body.kind == 'return': return body
        if body.kind == 'block' and len(body.stmts) == 1 and body.tail is None and body.stmts[0].kind == 'return': return body.stmts[0]
        return None

    def match_let(self, e, want):
        """`let x = match r { Ok(v) => v, Err(_) => return Err(E) };` -- the arms that return first, the arm with a value last: the
        rest of the block continues under it (the form `?` has)"""
        heads = self.match_heads(e)
        value = [(p, b) for p, b in e.arms if self.diverges(b) is None]
        if len(value) != 1: self.bad('`match` with `return` arms: exactly one arm must have a value', e.line)
        vp, vb = value[0]
        if vb.kind == 'block' or S.contains(vb, S.EXIT_KINDS): self.bad('`match` with `return` arms: the arm with a value has statements', e.line)
        kinds = [p.k if isinstance(p, Node) else 'path' for p, _ in e.arms]
        distinct = len(heads) == 1 and all(k in ('ok', 'err', 'some', 'none') for k in kinds) and len(set(kinds)) == len(kinds)
        if not (e.arms[-1][1] is vb or distinct):
            self.bad('`match` with `return` arms: the arm with a value must be the last one (or all arms distinct constructors)', e.line)
        ctx = self.ctxs[-1]
        self.emit(f'match {", ".join(h[0] for h in heads)} with')
        for p, b in e.arms:
            if b is vb: continue
            r = self.diverges(b)
            self.scopes.append({})
            pt = self.arm_pats(p, heads, e.line)
            self.emit(f'| {pt} => {ctx.ret_packed(self, self.pack(self.ret_value(r.e, r.line)))}')
            self.scopes.pop()
        for n in pat_names(vp):
            if self.lookup_opt(n) is not None: self.bad(f'`match` with `return` arms: the pattern binds `{n}`, which shadows a variable', e.line)
        self.emit(f'| {self.arm_pats(vp, heads, e.line)} =>')
        return self.expr(vb, want)

    def block_expr(self, blk, want):
        """a block of effect-free `let`s ending in an expression, as a Lean term"""
        if blk.tail is None: self.bad('block expression without a value', blk.line)
        self.scopes.append({})
        parts = []
        for s in blk.stmts:
            if s.kind != 'let' or S.contains(s.init, ('try', 'loop')): self.bad('block expression with a statement other than a plain `let`', s.line)
            w = self.sem(s.ty, s.line) if s.ty is not None else None
            r = self.expr(s.init, w)
            ty = r[1] if w is None else self.unify(r[1], w, s.line, f'`let {s.name}`')
            self.declare(s.name, ty, s.mut, 'local', s.line)
            parts.append(f'let {lname(s.name)} : {self.lt(ty)} := {r[0]}')
        r = self.expr(blk.tail, want)
        self.scopes.pop()
        if not parts: return r
        return ('(' + '; '.join(parts + [r[0]]) + ')', r[1], True)

    def variant(self, it, line, args):
        _, mod, node, rest = it
        q = qual(mod, node.name)
        if q in ENUM_LEAN_VARIANT:
            found = [p for n, p in node.variants if n == rest[0]]
            if not found: self.bad(f'`{q}` has no variant `{rest[0]}`', line)
            if found[0] != (args is not None): self.bad(f'variant `{q}::{rest[0]}` used with the wrong shape', line)
            if args is not None:
                for a in args:
                    if S.contains(a, ('try', 'assign', 'loop')): self.bad(f'payload of `{q}::{rest[0]}` has side effects', line)
            if rest[0] not in ENUM_LEAN_VARIANT[q]: self.bad(f'no constructor is assigned to `{q}::{rest[0]}`', line)
            return (f'{ENUM_LEAN[q]}.{ENUM_LEAN_VARIANT[q][rest[0]]}', ('enum', q), True)      # payload (message) not modelled
        return super().variant(it, line, args)

    def typed_args(self, args, params, what, line):
        if len(args) != len(params): self.bad(f'{what} called with {len(args)} arguments', line)
        out = []
        for a, (pn, pt) in zip(args, params):
            r = self.expr(a, pt)
            self.unify(r[1], pt, line, f'argument `{pn}` of {what}')
            out.append(self.paren(self.expr(a, pt)))
        return out

    def method_of(self, q, name):
        """the `fn` node of method `name` of struct `q` (searched in every module), with the module it is declared in"""
        _, sname = unqual(q)
        for m in self.crate.mods:
            node = self.crate.mods[m].items['methods'].get((sname, name))
            if node is not None: return m, node
        return None, None

    def crate_method_call(self, q, m, node, recv_text, args, line, allow_mut=False):
        """text and type of a call of the crate method / associated function `node` of struct `q`"""
        info = self.tr.ensure(('method', m, unqual(q)[1], node.name), line)
        if node.self_kind == 'mut' and not allow_mut:
            self.bad(f'call of `{unqual(q)[1]}::{node.name}` (a `&mut self` method) inside an expression', line)
        if (node.self_kind is None) != (recv_text is None):
            self.bad(f'`{unqual(q)[1]}::{node.name}` called with the wrong shape (method vs associated function)', line)
        params, ret = info['params'], info['ret']
        atexts = self.typed_args(args, params, f'`{unqual(q)[1]}::{node.name}`', line)
        for imp in info['implicit']: self.need_implicit(imp)
        parts = [info['lean']] + info['implicit'] + ([recv_text] if recv_text is not None else []) + atexts
        return (' '.join(parts), ret, len(parts) == 1)

    def call_expr(self, e, want=None):
        if e.f.kind != 'path': self.bad('call of a computed function', e.line)
        path = e.f.path
        if path == ['Some']:
            if len(e.args) != 1: self.bad('`Some` arity', e.line)
            w = resolve(want) if want is not None else None
            inner = w[1] if isinstance(w, tuple) and w[0] == 'option' else None
            r = self.expr(e.args[0], inner)
            if inner is not None:
                self.unify(r[1], inner, e.line, 'argument of `Some`'); r = self.expr(e.args[0], inner)
            return (f'some {self.paren(r)}', ('option', r[1]), False)
        if path in (['Ok'], ['Err']): return super().call_expr(e, want)
        ex = self.crate.expand(self.mod, self.local_uses, path)
        if ex in IDENTITY_FNS:
            if len(e.args) != 1: self.bad(f'`{"::".join(path)}` arity', e.line)
            return self.expr(e.args[0], want)
        if ex in ORION:
            ent = ORION[ex]
            if ent[0] != 'value': self.bad(f'`{"::".join(path)}` (fills a buffer) inside an expression', e.line)
            _, tmpl, kinds, rty, imp = ent
            params = [(f'#{i}', BYTES if kd == 'bytes' else ('option', BYTES)) for i, kd in enumerate(kinds)]
            atexts = self.typed_args(e.args, params, f'`{"::".join(path)}`', e.line)
            for i in imp.split(): self.need_implicit(i)
            return (tmpl.format(*atexts), rty, tmpl.startswith('('))
        if ex in STD_FNS:
            tmpl, ty = STD_FNS[ex]
            rs = [self.expr(a, ty) for a in e.args]
            for r in rs: self.unify(r[1], ty, e.line, f'argument of `{"::".join(path)}`')
            return (tmpl.format(*[self.paren(self.expr(a, ty)) for a in e.args]), ty, False)
        if len(path) >= 2 and path[-2] in LIST_GENERICS and path[-1] == 'new' and not e.args:
            w = resolve(want) if want is not None else None
            return ('[]', w if is_list(w) else ('list', self.node_av(e), 'own'), True)
        if len(path) >= 2:
            q = self.struct_of_path(path[:-1], e.line)
            if q is not None:
                m, node = self.method_of(q, path[-1])
                if node is None: self.bad(f'`{"::".join(path)}`: no such associated function', e.line)
                if node.self_kind is not None: self.bad(f'`{"::".join(path)}` called in path form although it takes `self`', e.line)
                return self.crate_method_call(q, m, node, None, e.args, e.line)
        full = self.crate.resolve(self.mod, self.local_uses, path)
        it = self.crate.item(full)
        if it and it[0] == 'enum' and len(it[3]) == 1:
            return self.variant(it, e.line, e.args)
        if it and it[0] == 'fn' and not it[3]:
            _, mod, node, _ = it
            if mod == '' and node.name in CRATE_EXTERN:
                params, ret = self.fn_sig(mod, node, e.line)
                atexts = self.typed_args(e.args, params, f'`{node.name}`', e.line)
                tmpl, imp = CRATE_EXTERN[node.name]
                for i in imp.split(): self.need_implicit(i)
                return (tmpl.format(*atexts), ret, False)
            info = self.tr.ensure(('fn', mod, node.name), e.line)
            atexts = self.typed_args(e.args, info['params'], f'`{node.name}`', e.line)
            for imp in info['implicit']: self.need_implicit(imp)
            return (' '.join([info['lean']] + info['implicit'] + atexts), info['ret'], False)
        self.bad(f'call of `{"::".join(path)}`', e.line)

    def fn_sig(self, mod, node, line):
        if node.sig_error is not None:
            self.bad(f'call of `{qual(mod, node.name)}`, whose signature is outside the subset ({node.sig_error.what})', line)
        other = NFn(self.tr, mod, node)
        return ([(pn, other.sem(pt, pl)) for pn, pt, pl in node.params], other.sem(node.ret, node.line))

    LIST_IDENTITY = {'clone', 'as_slice', 'to_vec', 'as_mut_slice', 'as_bytes', 'as_ref', 'to_string', 'to_owned'} | ORION_ACCESSORS

    def mcall_expr(self, e, want=None):
        name = e.name
        if name in ('unwrap', 'expect', 'unwrap_or_default'):
            inner = e.recv
            if inner.kind == 'mcall' and inner.name == 'try_into' and not inner.args:
                r = self.expr(inner.recv)
                src = resolve(r[1])
                dst = resolve(want) if want is not None else None
                if is_list(src):
                    if dst is not None and is_list(dst): self.unify(src, dst, e.line, '`try_into`')
                    return (r[0], ('list', src[1], 'own'), r[2])           # slice -> array: identity (panics on a length mismatch)
                if dst is None: self.bad('`.try_into().unwrap()` without a type annotation', e.line)
                if isinstance(src, IntVar): self.bad('`.try_into()` on an untyped literal', e.line)
                if src in NATS and dst in NATS and S.WIDTH[src] <= S.WIDTH[dst]: return (r[0], dst, r[2])
                self.bad(f'`.try_into().{name}()` from {self.show(src)} to {self.show(dst)} (may panic)', e.line)
            w = resolve(want) if want is not None else None
            r = self.expr(inner, ('option', w) if w is not None and False else None)
            return self.unwrapped(r, e)
        if name == 'try_into': self.bad('`.try_into()` outside the pattern `.try_into().unwrap()` / `.expect(..)`', e.line)
        if name == 'map_err': self.bad('`.map_err` inside an expression (only `let x = …;`, `…;` and `return` positions are supported)', e.line)
        recv = self.expr(e.recv)
        rt = resolve(recv[1])
        if isinstance(rt, tuple) and rt[0] == 'struct':
            m, node = self.method_of(rt[1], name)
            if node is None and name == 'clone' and not e.args: return recv          # #[derive(Clone)]
            if node is None: self.bad(f'method `.{name}` on {self.show(rt)}', e.line)
            return self.crate_method_call(rt[1], m, node, self.paren(recv), e.args, e.line)
        if isinstance(rt, tuple) and rt[0] == 'option' and not e.args:
            if name == 'is_some': return (f'{self.paren(recv)}.isSome', 'bool', False)
            if name == 'is_none': return (f'{self.paren(recv)}.isNone', 'bool', False)
            if name in ('as_ref', 'clone', 'cloned', 'copied'): return recv
        if is_list(rt) and not e.args:
            if name == 'len': return (f'{self.paren(recv)}.length', 'usize', True)
            if name in self.LIST_IDENTITY: return (recv[0], ('list', rt[1], 'own') if name in ('to_vec', 'clone') else rt, recv[2])
        if name == 'to_le_bytes' and not e.args and rt == 'u64':
            return (f'natLE 8 {self.paren(recv)}', BYTES, False)
        if name == 'checked_sub' and len(e.args) == 1 and rt in ('usize', 'u64'):
            a = self.expr(e.args[0], rt); self.unify(a[1], rt, e.line, 'argument of `.checked_sub`'); a = self.expr(e.args[0], rt)
            return (f'Rs.checkedSub {self.paren(recv)} {self.paren(a)}', ('option', rt), False)
        if name in ('ok_or', 'ok_or_else') and len(e.args) == 1 and isinstance(rt, tuple) and rt[0] == 'option':
            arg = e.args[0]
            if name == 'ok_or_else':
                if arg.kind != 'closure' or arg.params: self.bad('`.ok_or_else` whose argument is not a closure without parameters', e.line)
                arg = arg.body
            if S.contains(arg, ('try', 'assign', 'loop')) or self.effectful(arg): self.bad(f'`.{name}` whose argument has effects', e.line)
            w = resolve(want) if want is not None else resolve(self.ret_ty)
            hint = w[2] if isinstance(w, tuple) and w[0] == 'result' else None
            err = self.expr(arg, hint)
            self.lt(err[1])
            return (f'Rs.okOrElse {self.paren(recv)} {self.paren(err)}', ('result', rt[1], err[1]), False)
        if name == 'map' and len(e.args) == 1 and isinstance(rt, tuple) and rt[0] in ('result', 'option'):
            c = e.args[0]
            if c.kind != 'closure' or len(c.params) != 1: self.bad('`.map` whose argument is not a closure with one parameter', e.line)
            if S.contains(c.body, ('try', 'assign', 'loop', 'return', 'break', 'continue')) or self.effectful(c.body):
                self.bad('`.map` whose closure has effects', e.line)
            w = resolve(want) if want is not None else None
            hint = w[1] if isinstance(w, tuple) and w[0] == rt[0] else None
            self.scopes.append({})
            if c.params[0] != '_': self.declare(c.params[0], rt[1], False, 'local', c.line)
            body = self.expr(c.body, hint)
            if hint is not None:
                self.unify(body[1], hint, e.line, 'value of the `.map` closure'); body = self.expr(c.body, hint)
            self.scopes.pop()
            pn = '_' if c.params[0] == '_' else lname(c.params[0])
            ty = ('result', body[1], rt[2]) if rt[0] == 'result' else ('option', body[1])
            self.lt(ty)
            self.tr.note('map')
            fn = 'Except.map' if rt[0] == 'result' else 'Option.map'
            return (f'{fn} (fun ({pn} : {self.lt(rt[1])}) => {body[0]}) {self.paren(recv)}', ty, False)
        if name == 'split_at' and len(e.args) == 1 and is_list(rt):
            a = self.expr(e.args[0], 'usize'); self.unify(a[1], 'usize', e.line, 'argument of `.split_at`'); a = self.expr(e.args[0], 'usize')
            half = ('list', rt[1], 'ref')
            self.tr.note('split_at')
            return (f'({self.paren(recv)}.take {self.paren(a)}, {self.paren(recv)}.drop {self.paren(a)})', ('tuple', (half, half)), True)
        if name in MUTATORS: self.bad(f'`.{name}` used as an expression', e.line)
        return super().mcall_expr(e, want)

    def unwrapped(self, r, e):
        t = resolve(r[1])
        if isinstance(t, tuple) and t[0] == 'option':
            self.lt(t[1])
            return (f'Rs.unwrap {self.paren(r)}', t[1], False)
        if isinstance(t, tuple) and t[0] == 'result':
            return (f'Rs.unwrapRes {self.paren(r)}', t[1], False)
        self.bad(f'`.{e.name}` on a value of type {self.show(t)}', e.line)

    # ---- places: a variable, a field path of one, a range slice of one
    def strip(self, e):
        while e.kind in ('ref', 'paren') or (e.kind == 'unary' and e.op == '*') or \
                (e.kind == 'mcall' and e.name in ('as_mut_slice', 'as_mut') and not e.args):
            e = e.recv if e.kind == 'mcall' else e.e
        return e

    def root_name(self, e):
        e = self.strip(e)
        while e.kind in ('field', 'index'):
            e = self.strip(e.e)
        return e.path[0] if e.kind == 'path' and len(e.path) == 1 else None

    def gplace(self, e, what):
        """(root variable, read text, writeback: new text -> new text of the root variable, type)"""
        e = self.strip(e)
        if e.kind == 'path' and len(e.path) == 1:
            v = self.lookup(e.path[0], e.line)
            return (v, lname(v.name), (lambda new: new), v.ty)
        if e.kind == 'field':
            v, read, wb, ty = self.gplace(e.e, what)
            t = resolve(ty)
            if not (isinstance(t, tuple) and t[0] == 'struct'): self.bad(f'{what}: field `.{e.name}` of {self.show(t)}', e.line)
            ft = self.field_type(t[1], e.name, e.line)
            if self.newtype(t[1]) is not None: return (v, read, wb, ft)
            f = lname(e.name)
            return (v, f'{read}.{f}', (lambda new, read=read, wb=wb, f=f: wb(f'{{ {read} with {f} := {new} }}')), ft)
        if e.kind == 'index' and e.ix.kind == 'range':
            v, read, wb, ty = self.gplace(e.e, what)
            if not is_list(ty): self.bad(f'{what}: slicing a value of type {self.show(ty)}', e.line)
            lo, hi = self.slice_bounds(e.ix)
            rd = self.slice_text(read, e.ix)
            if lo is None and hi is None: return (v, read, wb, ty)
            if hi is None: w2 = lambda new: wb(f'{read}.take {self.paren(lo)} ++ {new}')
            elif lo is None: w2 = lambda new: wb(f'{new} ++ {read}.drop {self.paren(hi)}')
            else: w2 = lambda new: wb(f'{read}.take {self.paren(lo)} ++ {new} ++ {read}.drop {self.paren(hi)}')
            return (v, f'({rd})', w2, ty)
        self.bad(f'{what}: only a variable, a field path or a range slice of one can be changed in place', e.line)

    def set_place(self, pl, new, rebind=False):
        v, read, wb, ty = pl
        if getattr(v, 'borrowed', False) and not rebind:
            self.bad(f'write through `{v.name}`, which holds the `&mut` reference `Option::insert` returned (it is modelled by the value it points to)')
        self.emit(f'let {lname(v.name)} := {wb(new)}')

    def is_insert(self, e):
        """`o.insert(v)` for a place `o` of type `Option<T>`"""
        while e.kind == 'paren': e = e.e
        if not (e.kind == 'mcall' and e.name == 'insert' and len(e.args) == 1 and self.is_place(e.recv)): return False
        t = resolve(self.place_type(e.recv))
        return isinstance(t, tuple) and t[0] == 'option'

    def hoist_match(self, e):
        """`match f(..) { .. }` where evaluating the scrutinee needs statements (it fills a buffer, is a `&mut self` method, has a
        `?`) = `let t = f(..); match t { .. }`: the statements are emitted here, the `match` gets the computed value"""
        x = e
        while x.kind == 'paren': x = x.e
        if x.kind != 'match': return e
        sc = x.scrut
        while sc.kind == 'paren': sc = sc.e
        if sc.kind in ('tuple', 'pre') or not self.effectful(sc): return e
        r = self.spine(sc)
        if not r[2]:
            t = self.fresh('m')
            self.emit(f'let {t} : {self.lt(r[1])} := {r[0]}')
            r = (t, r[1], True)
        self.tr.note('matcheff')
        return Node('match', x.line, scrut=Node('pre', sc.line, text=r[0], ty=r[1], atomic=True), arms=x.arms)

    # ---- effects at the root of a `let` initialiser, an expression statement, `return`
    def spine(self, e, want=None):
        while e.kind == 'paren' or (e.kind == 'ref' and (S.contains(e.e, ('try',)) or self.effectful(e.e))): e = e.e
        if e.kind == 'call' and e.f.kind == 'path' and len(e.args) == 1 and \
                self.crate.expand(self.mod, self.local_uses, e.f.path) in IDENTITY_FNS and \
                (S.contains(e.args[0], ('try',)) or self.effectful(e.args[0])):
            return self.spine(e.args[0], want)                     # `Zeroizing::new(f(x)?)`
        if e.kind == 'match': e = self.hoist_match(e)
        if self.is_insert(e):
            pl = self.gplace(e.recv, 'receiver of `.insert`')
            elem = resolve(pl[3])[1]
            a = e.args[0]
            if S.contains(a, ('try', 'assign', 'loop')) or self.effectful(a): self.bad('`.insert` whose argument has effects', e.line)
            r = self.expr(a, elem); self.unify(r[1], elem, e.line, 'argument of `.insert`'); r = self.expr(a, elem)
            n = self.fresh('v')
            self.emit(f'let {n} : {self.lt(elem)} := {r[0]}')
            self.set_place(pl, f'some {n}')
            self.tr.note('insert')
            return (n, elem, True)
        if e.kind == 'match' and any(isinstance(p, Node) for p, _ in e.arms) and any(self.diverges(b) is not None for _, b in e.arms):
            return self.match_let(e, want)
        if e.kind == 'try':
            inner = self.spine(e.e)
            ty = resolve(inner[1])
            fr = resolve(self.ret_ty)
            if not (isinstance(ty, tuple) and ty[0] == 'result'): self.bad(f'`?` on a value of type {self.show(ty)}', e.line)
            if not (isinstance(fr, tuple) and fr[0] == 'result'): self.bad('`?` in a function that does not return `Result`', e.line)
            ctx = self.ctxs[-1]
            en, vn = self.fresh('e'), self.fresh('v')
            back = self.mk_err(self.from_conv(ty[2], fr[2], en, e.line))
            self.lt(ty)
            self.emit(f'match {inner[0]} with')
            self.emit(f'| .error {en} => {ctx.ret_packed(self, self.pack(back))}')
            if resolve(ty[1]) == 'unit':
                self.emit('| .ok _ =>')
                return ('()', 'unit', True)
            self.emit(f'| .ok {vn} =>')
            return (vn, ty[1], True)
        if e.kind == 'mcall' and e.name == 'map_err':
            inner = self.spine(e.recv)
            ty = resolve(inner[1])
            if not (isinstance(ty, tuple) and ty[0] == 'result'): self.bad(f'`.map_err` on a value of type {self.show(ty)}', e.line)
            if len(e.args) != 1 or e.args[0].kind != 'closure': self.bad('`.map_err` whose argument is not a closure', e.line)
            c = e.args[0]
            if len(c.params) != 1: self.bad('`.map_err` closure arity', e.line)
            fr = resolve(self.ret_ty)
            w = fr[2] if isinstance(fr, tuple) and fr[0] == 'result' else None
            self.scopes.append({})
            if c.params[0] != '_': self.declare(c.params[0], ty[2], False, 'local', c.line)
            body = self.expr(c.body, w)
            self.scopes.pop()
            pn = '_' if c.params[0] == '_' else lname(c.params[0])
            return (f'Except.mapError (fun ({pn} : {self.lt(ty[2])}) => {body[0]}) {self.paren(inner)}',
                    ('result', ty[1], body[1]), False)
        if e.kind == 'mcall' and e.name in ('unwrap', 'expect', 'unwrap_or_default') and self.effectful(e.recv):
            return self.unwrapped(self.spine(e.recv), e)
        if e.kind == 'call' and e.f.kind == 'path':
            ex = self.crate.expand(self.mod, self.local_uses, e.f.path)
            if ex in ORION and ORION[ex][0] == 'out':
                _, glue, kinds, imp = ORION[ex]
                if len(e.args) != len(kinds): self.bad(f'`{"::".join(e.f.path)}` arity', e.line)
                texts, out = [], None
                for a, kd in zip(e.args, kinds):
                    if kd == 'out':
                        out = self.gplace(a, f'output buffer of `{"::".join(e.f.path)}`')
                        self.unify(out[3], ('list', 'u8', 'mutref'), e.line, 'output buffer')
                        texts.append(out[1])
                    else:
                        pt = BYTES if kd == 'bytes' else ('option', BYTES)
                        r = self.expr(a, pt); self.unify(r[1], pt, e.line, f'argument of `{"::".join(e.f.path)}`')
                        texts.append(self.paren(self.expr(a, pt)))
                for i in imp.split(): self.need_implicit(i)
                t, b = self.fresh('r'), self.fresh('buf')
                self.emit(f'let ({t}, {b}) := {glue} {" ".join(texts)}')
                self.set_place(out, b)
                return (t, ('result', 'unit', 'unit'), True)
        if e.kind == 'mcall' and e.name == 'pop_front' and not e.args:
            pl = self.gplace(e.recv, 'receiver of pop_front')
            if not is_list(pl[3]): self.bad('`.pop_front` on a non-queue', e.line)
            t, q = self.fresh('r'), self.fresh('q')
            self.emit(f'let ({t}, {q}) := Rs.popFront {pl[1]}')
            self.set_place(pl, q)
            return (t, ('option', resolve(pl[3])[1]), True)
        if e.kind == 'mcall' and self.root_name(e.recv) is not None and self.is_place(e.recv):
            # a `&mut self` method of the crate on a place
            pl_ty = self.place_type(e.recv)
            t = resolve(pl_ty)
            if isinstance(t, tuple) and t[0] == 'struct':
                m, node = self.method_of(t[1], e.name)
                if node is not None and node.self_kind == 'mut':
                    pl = self.gplace(e.recv, f'receiver of `.{e.name}`')
                    call = self.crate_method_call(t[1], m, node, pl[1], e.args, e.line, allow_mut=True)
                    if resolve(call[1]) == 'unit':
                        self.set_place(pl, call[0])
                        return ('()', 'unit', True)
                    r, s2 = self.fresh('r'), self.fresh('s')
                    self.emit(f'let ({r}, {s2}) := {call[0]}')
                    self.set_place(pl, s2)
                    return (r, call[1], True)
        return self.expr(e, want)

    def is_place(self, e):
        e = self.strip(e)
        while e.kind == 'field': e = self.strip(e.e)
        return e.kind == 'path' and len(e.path) == 1 and self.lookup_opt(e.path[0]) is not None

    def place_type(self, e):
        saved = self.lines
        self.lines = []
        try:
            return self.gplace(e, 'receiver')[3]
        finally:
            self.lines = saved

    def effectful(self, e):
        """does evaluating `e` at the root need statements (a buffer-filling orion call, pop_front, a `&mut self` method)?"""
        while e.kind in ('paren', 'ref'): e = e.e
        if e.kind == 'call' and e.f.kind == 'path':
            ex = self.crate.expand(self.mod, self.local_uses, e.f.path)
            if ex in IDENTITY_FNS and len(e.args) == 1: return self.effectful(e.args[0])
            return ex in ORION and ORION[ex][0] == 'out'
        if e.kind == 'mcall':
            if e.name == 'pop_front': return True
            if self.is_insert(e): return True
            if e.name in ('unwrap', 'expect', 'unwrap_or_default', 'map_err'): return self.effectful(e.recv)
            if e.name in self.tr.mut_methods and self.is_place(e.recv):
                t = resolve(self.place_type(e.recv))
                if isinstance(t, tuple) and t[0] == 'struct':
                    _, node = self.method_of(t[1], e.name)
                    return node is not None and node.self_kind == 'mut'
        if e.kind == 'try': return True
        return False

    # ---- which outer variables do these statements assign?
    def assigned(self, blocks):
        found = {}
        tr = self

        def note(name, local, line):
            if name is None or name in local: return
            v = tr.lookup_opt(name)
            if v is None: return
            found.setdefault(v.order, v)

        def walk(x, local):
            if isinstance(x, (list, tuple)):
                for y in x: walk(y, local)
                return
            if not isinstance(x, Node): return
            k = x.kind
            if k == 'block':
                inner = set(local)
                for s in x.stmts: walk(s, inner)
                if x.tail is not None: walk(x.tail, inner)
                return
            if k == 'let':
                walk(x.init, local); local.add(x.name); return
            if k == 'lettuple':
                walk(x.init, local); local.update(n for n in x.names if n != '_'); return
            if k == 'letstruct':
                walk(x.init, local); local.update(b for _, b in x.fields if b != '_'); return
            if k == 'letdecl':
                local.add(x.name); return
            if k == 'for':
                walk(x.iter, local)
                walk(x.body, set(local) | {n for n in x.pat if n != '_'}); return
            if k == 'if' and x.cond.kind == 'letsome':
                walk(x.cond.e, local)
                walk(x.then, set(local) | {x.cond.var})
                if x.els is not None: walk(x.els, local)
                return
            if k == 'closure':
                walk(x.body, set(local) | set(x.params)); return
            if k == 'match' and any(isinstance(p, Node) for p, _ in x.arms):
                walk(x.scrut, local)
                for p, body in x.arms: walk(body, set(local) | set(pat_names(p)))
                return
            if k == 'panic': return
            if k == 'assign':
                n = tr.root_name(x.place)
                if n is None: tr.bad('assignment to something other than a variable, a field path, an element or a range slice of one', x.line)
                note(n, local, x.line)
            elif k == 'ref' and x.mut:
                note(tr.root_name(x.e), local, x.line)
            elif k == 'mcall' and (x.name in MUTATORS or x.name in tr.tr.mut_methods):
                note(tr.root_name(x.recv), local, x.line)
            elif k == 'call' and x.f.kind == 'path':
                ex = tr.crate.expand(tr.mod, tr.local_uses, x.f.path)
                if ex in ORION and ORION[ex][0] == 'out':
                    for a, kd in zip(x.args, ORION[ex][2]):
                        if kd == 'out': note(tr.root_name(a), local, x.line)
            for c in S.children(x): walk(c, local)

        for b in blocks:
            if b is not None: walk(b, set())
        return list(found.values())

    # ---- statements
    def panic_site(self, e):
        text = ' '.join(x.strip() for x in self.src_lines[e.line - 1:e.line]).strip()
        site = (self.module.label.rsplit('/', 1)[1], self.lean_name, e.line, text)
        if site not in self.tr.panics: self.tr.panics.append(site)
        self.emit(f'-- (`{e.what}!`: a Rust panic when it fires; not part of the translated function)')

    def stmt(self, s):
        if s.kind == 'let': return self.let_stmt(s)
        if s.kind == 'lettuple': return self.lettuple_stmt(s)
        if s.kind == 'letstruct': return self.letstruct_stmt(s)
        if s.kind == 'letdecl':
            # `let x;` / `let x: T;`: declared here, bound by the assignment that follows (Rust checks that one does on every path)
            self.declare(s.name, self.sem(s.ty, s.line) if s.ty is not None else self.node_av(s), True, 'local', s.line)
            self.tr.note('deferlet')
            return
        if s.kind == 'use':
            self.local_uses.update(s.uses); return
        e = s.e
        while e.kind == 'paren': e = e.e
        if e.kind == 'panic': return self.panic_site(e)
        if e.kind == 'assign': return self.assign_stmt(e)
        if e.kind == 'mcall' and e.name in ('copy_from_slice', 'clone_from', 'extend_from_slice', 'push_back', 'zeroize'):
            pl = self.gplace(e.recv, f'receiver of `.{e.name}`')
            if not is_list(pl[3]): self.bad(f'`.{e.name}` on a value of type {self.show(pl[3])}', e.line)
            if e.name == 'zeroize':
                if e.args: self.bad('`.zeroize` arity', e.line)
                elem = resolve(resolve(pl[3])[1])
                if elem != 'u8': self.bad('`.zeroize` on something other than bytes', e.line)
                return self.set_place(pl, f'List.replicate {pl[1]}.length (0 : UInt8)')
            if len(e.args) != 1: self.bad(f'`.{e.name}` arity', e.line)
            if e.name == 'push_back':
                elem = resolve(pl[3])[1]
                r = self.expr(e.args[0], elem); self.unify(r[1], elem, e.line, 'push_back'); r = self.expr(e.args[0], elem)
                return self.set_place(pl, f'{pl[1]} ++ [{r[0]}]')
            r = self.expr(e.args[0], pl[3]); self.unify(r[1], pl[3], e.line, e.name); r = self.expr(e.args[0], pl[3])
            if e.name == 'copy_from_slice': return self.set_place(pl, f'(Rs.copyFromSlice {pl[1]} {self.paren(r)})')
            if e.name == 'clone_from': return self.set_place(pl, r[0])
            return self.set_place(pl, f'{pl[1]} ++ {self.paren(r)}')
        before = len(self.lines)
        r = self.spine(e)
        ty = resolve(r[1])
        if isinstance(ty, tuple) and ty[0] == 'result': self.bad('a `Result` that is neither `?`-ed, unwrapped nor bound', e.line)
        if len(self.lines) == before: self.bad('expression statement without effect', e.line)

    def assign_stmt(self, e):
        op = e.op[:-1]
        bare = e.place.kind == 'path' and len(e.place.path) == 1            # `x = ..` (not `*x = ..`, `x.f = ..`, `x[..] = ..`)
        if S.contains(e.e, ('try',)) or self.effectful(e.e):
            # `x = f(..)?;` for a variable x: the effects are those of `let t = f(..)?;`, then `x = t`
            if op or not bare: self.bad('assignment whose right-hand side has effects', e.line)
            pl = self.gplace(e.place, 'assignment')
            rhs = self.spine(e.e, pl[3])
            self.unify(pl[3], rhs[1], e.line, 'assignment')
            self.set_place(pl, rhs[0], rebind=True)
            pl[0].borrowed = getattr(pl[0], 'borrowed', False) or self.is_insert(e.e)      # (sticky: another branch may have set it)
            return
        p = self.strip(e.place)
        if p.kind == 'index' and p.ix.kind != 'range':
            return super().assign_stmt(e)
        pl = self.gplace(e.place, 'assignment')
        rhs = self.expr(e.e, pl[3])
        if not op:
            self.unify(pl[3], rhs[1], e.line, 'assignment')
            rhs = self.expr(e.e, pl[3])
            return self.set_place(pl, rhs[0], rebind=bare)
        val = self.binop_on(op, (pl[1], pl[3], True), rhs, e)[0]
        self.set_place(pl, val)

    def let_stmt(self, s):
        want = self.sem(s.ty, s.line) if s.ty is not None else None
        r = self.spine(s.init, want)
        ty = r[1]
        if want is not None: ty = self.unify(r[1], want, s.line, f'`let {s.name}`')
        if s.name == '_':
            self.emit(f'let _ := {r[0]}'); return
        v = self.declare(s.name, ty, s.mut, 'local', s.line)
        v.borrowed = self.is_insert(s.init)
        tv = resolve(ty)
        unknown = isinstance(tv, IntVar) or (is_list(tv) and isinstance(resolve(tv[1]), AnyVar))
        asc = '' if unknown and not isinstance(tv, tuple) else f' : {self.lt_or_blank(tv)}'
        self.emit(f'let {lname(v.name)}{asc} := {r[0]}')

    def lt_or_blank(self, t):
        """types of fresh `Vec::new()`s are fixed by later unification: the second pass knows them"""
        return self.lt(t)

    def lettuple_stmt(self, s):
        want = self.sem(s.ty, s.line) if s.ty is not None else None
        r = self.spine(s.init, want)
        ty = resolve(r[1])
        if not (isinstance(ty, tuple) and ty[0] == 'tuple' and len(ty[1]) == len(s.names)):
            self.bad(f'tuple pattern against a value of type {self.show(ty)}', s.line)
        for n, t in zip(s.names, ty[1]):
            if n != '_': self.declare(n, t, False, 'local', s.line)
        self.emit(f'let ({", ".join("_" if n == "_" else lname(n) for n in s.names)}) := {r[0]}')

    def letstruct_stmt(self, s):
        """`let S { a: x, b, .. } = e;` -- `let x := e.a; let b := e.b` (a struct with one field is that field)"""
        q = self.struct_of_path(s.path, s.line)
        if q is None: self.bad(f'struct pattern of `{"::".join(s.path)}`', s.line)
        node = self.struct_node(q)
        if node.fields is None: self.bad(f'struct `{q}`: fields outside the subset', s.line)
        names = [f for f, _, _ in node.fields]
        given = [f for f, _ in s.fields]
        if len(set(given)) != len(given) or any(f not in names for f in given):
            self.bad(f'struct pattern of `{q}`: fields {given} are not fields {names}, each at most once', s.line)
        if not s.rest and sorted(given) != sorted(names): self.bad(f'struct pattern of `{q}` without `..` that does not name every field', s.line)
        binds = [b for _, b in s.fields if b != '_']
        if len(set(binds)) != len(binds): self.bad('struct pattern that binds a name twice', s.line)
        want = ('struct', q)
        if s.ty is not None: self.unify(self.sem(s.ty, s.line), want, s.line, 'type of the struct pattern')
        r = self.spine(s.init, want)
        self.unify(r[1], want, s.line, 'value taken apart by the struct pattern')
        base = r[0]
        if not r[2] or any(lname(b) == base for b in binds):
            base = self.fresh('p')
            self.emit(f'let {base} : {self.lt(want)} := {r[0]}')
        one = self.newtype(q) is not None
        self.tr.note('letstruct')
        for f, b in s.fields:
            if b == '_': continue
            ft = self.field_type(q, f, s.line)
            self.declare(b, ft, False, 'local', s.line)
            self.emit(f'let {lname(b)} : {self.lt(ft)} := ' + (base if one else f'{base}.{lname(f)}'))

    # ---- `let x = if c { stmts; a } else { .. };` / `let x = match s { p => { stmts; a }, .. };`
    def leaf_kind(self, body):
        """'value' (an expression / a block ending in one), 'stmts' (a block with statements ending in a value),
        'exit' (leaves the block), None (neither)"""
        if body.kind in ('return', 'break', 'continue'): return 'exit'
        if body.kind != 'block': return 'value'
        if body.tail is not None: return 'stmts' if body.stmts else 'value'
        if body.stmts and body.stmts[-1].kind in ('return', 'break', 'continue'): return 'exit'
        return None

    def leaves(self, e):
        """the branch bodies of an `if` / `else if` / `else` chain or of a `match`, or None when there is no `else`"""
        if e.kind == 'match': return [b for _, b in e.arms]
        if e.els is None: return None
        out = [e.then]
        if not e.els.stmts and e.els.tail is not None and e.els.tail.kind == 'if':
            rest = self.leaves(e.els.tail)
            if rest is None: return None
            return out + rest
        return out + [e.els]

    def deferrable(self, init):
        """is `init` an `if` / `match` whose value needs the statement forms: a branch has statements in front of its value (other
        than effect-free `let`s in an `if` without exits, which is a Lean term: block_expr)?"""
        if init.kind not in ('if', 'match'): return False
        bodies = self.leaves(init)
        if bodies is None: return False
        kinds = [self.leaf_kind(b) for b in bodies]
        if None in kinds or 'stmts' not in kinds: return False
        if init.kind == 'if' and init.cond.kind != 'letsome' and 'exit' not in kinds and \
                all(x.kind == 'let' and not S.contains(x.init, ('try', 'loop')) for b in bodies if b.kind == 'block' for x in b.stmts):
            return False
        return True

    def defer_let(self, s):
        """`let x = if c { stmts; a } else { b };` (or a `match`) whose branches have statements is the STATEMENT
        `if c { stmts; x = a } else { x = b }` with `x` declared first (a deferred `let`): the statement forms then give the
        assignments, the `?`s and the early returns of the branches their meaning.  -> the statement, or None (not this form)"""
        init = s.init
        while init.kind == 'paren': init = init.e
        if not self.deferrable(init): return None
        if s.name == '_': self.bad('`let _ =` of a branching expression with statements', s.line)
        name = s.name

        def mentions(x):
            if x.kind == 'path' and x.path == [name]: return True
            return any(mentions(c) for c in S.children(x))
        if mentions(init) and self.lookup_opt(name) is not None:
            self.bad(f'`let {name} = ` a branching expression with statements that mentions an earlier `{name}`', s.line)

        def with_assign(body):
            if self.leaf_kind(body) == 'exit': return body
            stmts, tail = (list(body.stmts), body.tail) if body.kind == 'block' else ([], body)
            asg = Node('assign', tail.line, op='=', place=Node('path', tail.line, path=[name]), e=tail)
            return Node('block', body.line, stmts=stmts + [Node('expr', tail.line, e=asg)], tail=None)

        def rewrite(x):
            if x.kind == 'match': return Node('match', x.line, scrut=x.scrut, arms=[(p, with_assign(b)) for p, b in x.arms])
            if not x.els.stmts and x.els.tail is not None and x.els.tail.kind == 'if':
                els = Node('block', x.els.line, stmts=[], tail=rewrite(x.els.tail))
            else: els = with_assign(x.els)
            return Node('if', x.line, cond=x.cond, then=with_assign(x.then), els=els)

        ty = self.sem(s.ty, s.line) if s.ty is not None else getattr(s, 'sem_ty', None) or self.node_av(s)
        if not hasattr(s, 'deferred'): s.deferred = rewrite(init)           # (the same statement in both passes: its nodes cache types)
        self.declare(name, ty, s.mut, 'local', s.line)
        self.tr.note('deferlet')
        return s.deferred

    def ret_value(self, e, line, hoist=False):
        if e is None:
            if resolve(self.ret_ty) != 'unit': self.bad('`return;` in a function with a result', line)
            return '()'
        if hoist: e = self.hoist_match(e)
        if S.contains(e, ('try',)) or self.effectful(e): self.bad('`return` of an expression with effects', line)
        r = self.expr(e, self.ret_ty)
        self.unify(r[1], self.ret_ty, line, 'returned value')
        return self.expr(e, self.ret_ty)[0]

    # ---- branching statements: `if`, `if let Some(x) = ..`, `match`
    def arm_block(self, body):
        if body.kind == 'block': return body
        if body.kind == 'return': return Node('block', body.line, stmts=[body], tail=None)
        return Node('block', body.line, stmts=[Node('expr', body.line, e=body)], tail=None)

    def branches(self, e):
        if e.kind == 'match': return [self.arm_block(b) for _, b in e.arms]
        return super().branches(e)

    def if_chain(self, e, ctx):
        if e.kind == 'match' and any(isinstance(p, Node) for p, _ in e.arms):
            heads = self.match_heads(e)
            self.emit(f'match {", ".join(h[0] for h in heads)} with')
            for p, body in e.arms:
                blk = self.arm_block(body)
                self.comment(blk.line)
                self.scopes.append({})
                self.emit(f'| {self.arm_pats(p, heads, e.line)} => (')
                self.depth += 1
                self.block(blk, ctx)
                self.depth -= 1
                self.emit(')')
                self.scopes.pop()
            return
        if e.kind == 'match':
            s = self.expr(e.scrut)
            st = resolve(s[1])
            if not (isinstance(st, tuple) and st[0] == 'enum'): self.bad(f'`match` on a value of type {self.show(st)}', e.line)
            self.emit(f'match {s[0]} with')
            wild = False
            for pat, body in e.arms:
                if wild: self.bad('`match` arm after `_`', e.line)
                if pat is None:
                    ptxt, wild = '_', True
                else:
                    pv = self.path_expr(Node('path', e.line, path=pat))
                    if resolve(pv[1]) != st: self.bad('`match` pattern of another type', e.line)
                    ptxt = pv[0]
                blk = self.arm_block(body)
                self.comment(blk.line)
                self.emit(f'| {ptxt} => (')
                self.depth += 1
                self.block(blk, ctx)
                self.depth -= 1
                self.emit(')')
            return
        if e.cond.kind == 'letsome':
            o = self.expr(e.cond.e)
            ot = resolve(o[1])
            if not (isinstance(ot, tuple) and ot[0] == 'option'): self.bad(f'`if let Some(..)` on {self.show(ot)}', e.line)
            self.emit(f'match {o[0]} with')
            self.emit(f'| some {lname(e.cond.var)} => (')
            self.depth += 1
            self.scopes.append({})
            self.declare(e.cond.var, ot[1], False, 'local', e.line)
            self.block(e.then, ctx)
            self.scopes.pop()
            self.depth -= 1
            self.emit(')')
            self.emit('| none => (')
            self.depth += 1
            if e.els is None: self.emit(ctx.fall(self))
            elif not e.els.stmts and e.els.tail is not None and e.els.tail.kind == 'if':
                self.if_chain(e.els.tail, ctx)
            else: self.block(e.els, ctx)
            self.depth -= 1
            self.emit(')')
            return
        return super().if_chain(e, ctx)

    ITER_IDENTITY = {'iter', 'into_iter', 'copied', 'cloned', 'iter_mut'}

    def for_step(self, s, ctx):
        src = s.iter
        while True:                                               # `for x in v.iter()`, `&v`, `v.iter().copied()`: the elements of v
            if src.kind in ('paren', 'ref'): src = src.e
            elif src.kind == 'mcall' and src.name in self.ITER_IDENTITY and not src.args: src = src.recv
            else: break
        it = self.expr(src)
        if not is_list(it[1]): self.bad('`for` over something that is not a slice / Vec', s.line)
        if len(s.pat) != 1: self.bad('tuple pattern in `for`', s.line)
        self.scopes.append({})
        if s.pat[0] != '_': self.declare(s.pat[0], resolve(it[1])[1], False, 'loopvar', s.line)
        state = self.assigned([s.body])
        self.scopes.pop()
        state = [v for v in state if self.lookup_opt(v.name) is v]
        sctx = S.StepCtx(self, ctx, state)
        st = self.state_text(state)
        pn = '_' if s.pat[0] == '_' else lname(s.pat[0])
        self.emit(f'Rs.Step.andThen (α := {self.state_ty(state)}) (τ := {ctx.ty}) (Rs.forInStep {self.paren(it)} (fun {pn} {st} =>')
        self.depth += 2
        self.scopes.append({})
        if s.pat[0] != '_': self.declare(s.pat[0], resolve(it[1])[1], False, 'loopvar', s.line)
        self.block(s.body, sctx)
        self.scopes.pop()
        self.depth -= 1
        self.emit(f') {st}) (fun {st} =>')

    def block(self, blk, ctx, fn_level=False):
        self.scopes.append({})
        state = getattr(ctx, 'state', None)
        if state is not None: self.tracked.append((len(self.scopes) - 1, state))
        if fn_level: self.tracked.append((len(self.scopes) - 1, self.world()))
        self.ctxs.append(ctx)
        stmts, tail = list(blk.stmts), blk.tail
        if tail is not None and tail.kind in ('if', 'loop', 'match', 'panic') and (ctx.stmt_tail or resolve(self.ret_ty) == 'unit'):
            stmts.append(Node('expr', tail.line, e=tail)); tail = None
        if tail is not None and not fn_level: self.bad('block ending in an expression', tail.line)
        if tail is not None:
            t = tail
            while t.kind == 'paren': t = t.e
            if self.deferrable(t):
                # the value of the function is a branching expression with statements: `let result' = <it>; result'`
                # (the same nodes in both passes; kept outside the tree, which must stay a tree)
                syn = self.tr.synthetic.setdefault(id(t), (Node('let', t.line, name="result'", mut=False, ty=None, init=t, sem_ty=self.ret_ty),
                                                           Node('path', t.line, path=["result'"])))
                stmts.append(syn[0]); tail = syn[1]
        closers, terminated = 0, False
        depth0 = self.depth
        for i, s in enumerate(stmts):
            last = i == len(stmts) - 1 and tail is None
            if terminated: self.bad('statement after `return` / `break` / `continue`', s.line)
            self.comment(s.line)
            inner = s.e if s.kind == 'expr' else None
            while inner is not None and inner.kind == 'paren': inner = inner.e
            if s.kind == 'let': inner = self.defer_let(s)
            if inner is not None and inner.kind == 'match': inner = self.hoist_match(inner)
            if s.kind == 'return':
                self.emit(ctx.ret_packed(self, self.pack(self.ret_value(s.e, s.line, hoist=True)))); terminated = True
            elif s.kind == 'break':
                self.emit(ctx.brk(self, s.line)); terminated = True
            elif s.kind == 'continue':
                self.emit(ctx.cont(self, s.line)); terminated = True
            elif inner is not None and inner.kind in ('if', 'match'):
                if not S.contains(inner, S.EXIT_KINDS): self.if_pure(inner)
                elif last and not fn_level:
                    self.if_chain(inner, ctx); terminated = True
                else:
                    self.if_step(inner, ctx); closers += 1
            elif inner is not None and inner.kind == 'loop':
                self.bad('`loop`', inner.line)
            elif s.kind == 'for':
                self.for_step(s, ctx); closers += 1
            else:
                self.stmt(s)
        if not terminated:
            if fn_level:
                if tail is not None:
                    self.comment(tail.line)
                    self.emit(ctx.ret_packed(self, self.pack(self.ret_value(tail, tail.line, hoist=True))))
                elif resolve(self.ret_ty) == 'unit':
                    self.emit(ctx.ret_packed(self, self.pack('()')))
                else: self.bad('missing result expression', blk.line)
            else:
                self.emit(ctx.fall(self))
        if closers:
            self.depth = depth0
            self.emit(')' * closers)
        self.depth = depth0
        self.ctxs.pop()
        if fn_level: self.tracked.pop()
        if state is not None: self.tracked.pop()
        self.scopes.pop()

    # ---- whole function
    def run(self):
        fn = self.fn
        if fn.sig_error is not None: raise fn.sig_error
        if fn.body_error is not None: raise fn.body_error
        if fn.body is None: self.bad('function without a parsed body', fn.line)
        if fn.generics: self.bad('generic function', fn.line)
        self.lines, self.depth, self.depth_loops, self.last_comment_line = [], 1, 0, None
        self.scopes, self.tracked, self.ctxs, self.lifted = [{}], [], [], []
        self.counter = self.temps = self.loops = 0
        self.implicit_used, self.io_used = set(), False
        self.local_uses = {}
        self.fuel_names, self.fuel_i, self.has_fuel = [], 0, False
        self.ret_ty = self.sem(fn.ret, fn.line)
        self.params_v, ptexts = [], []
        if fn.self_kind is not None:
            sty = ('struct', qual(self.mod, fn.impl_type))
            v = self.declare('self', sty, fn.self_kind == 'mut', 'mutref' if fn.self_kind == 'mut' else 'param', fn.line)
            self.params_v.append(v)
            ptexts.append(f'(self : {self.lt(sty)})')
        sem_params = []
        for pn, pt, pl in fn.params:
            t = self.sem(pt, pl)
            if isinstance(t, tuple) and t[0] == 'mutref': self.bad(f'parameter `{pn}`: `&mut` of {self.show(t[1])}', pl)
            mutable = is_list(t) and t[2] == 'mutref'
            if mutable: self.bad(f'parameter `{pn}`: `&mut [T]`', pl)
            v = self.declare(pn, t, False, 'param', pl)
            self.params_v.append(v)
            sem_params.append((pn, t))
            ptexts.append(f'({lname(pn)} : {self.lt(t)})')
        self.block(fn.body, S.FnCtx(self), fn_level=True)
        imp = [i for i in IMPLICIT if i in self.implicit_used]
        ptexts = [f'({i} : {IMPLICIT[i]})' for i in imp] + ptexts
        sig_src = ' '.join(x.strip() for x in self.src_lines[fn.line - 1:fn.body.line]).rstrip('{').strip()
        fname = self.module.label.rsplit('/', 1)[1]
        owner = ''
        if fn.impl_type:
            owner = f'impl {fn.impl_type}' if fn.impl_trait is None else f'impl {type_text(fn.impl_trait)} for {fn.impl_type}'
            owner = f', in `{owner}`'
        doc = f'/-- `{sig_src}` ({fname} line {fn.line}{owner}) -/'
        attr = '' if self.tr.is_target(self.mod, fn) or overrides_builtin(fn) else '@[simp] '
        head = f'{attr}def {self.lean_name} {" ".join(ptexts)} : {self.block_ty()} :=' if ptexts else f'{attr}def {self.lean_name} : {self.block_ty()} :='
        self.result_info = dict(lean=self.lean_name, implicit=imp, params=sem_params, ret=self.ret_ty, self_kind=fn.self_kind)
        return [doc + '\n' + head + '\n' + '\n'.join(self.lines)]


# methods of std traits the translator has a built-in meaning for when the trait is derived (`x.clone()` = `x`)
BUILTIN_TRAIT_METHODS = {('Clone', 'clone')}


def overrides_builtin(fn):
    """a hand-written `impl Clone for T { fn clone }` replaces the built-in meaning of `.clone()` (the identity): it is translated
    like any function but NOT marked `@[simp]` -- a proof about a caller does not see through it unasked"""
    t = getattr(fn, 'impl_trait', None)
    if not isinstance(t, tuple): return False
    name = t[1][-1] if t[0] in ('named', 'generic') else None
    return (name, fn.name) in BUILTIN_TRAIT_METHODS


def pat_names(p):
    if not isinstance(p, Node): return []
    if p.k == 'bind': return [p.name]
    if p.k in ('some', 'ok', 'err'): return pat_names(p.inner)
    if p.k == 'tuple': return [n for q in p.elems for n in pat_names(q)]
    return []


def type_text(t):
    if isinstance(t, tuple):
        if t[0] == 'named': return '::'.join(t[1])
        if t[0] == 'generic': return '::'.join(t[1]) + '<' + ', '.join(type_text(x) for x in t[2]) + '>'
        if t[0] == 'list': return ('&' if t[2] != 'own' else '') + f'[{type_text(t[1])}]'
        if t[0] == 'option': return f'Option<{type_text(t[1])}>'
    return str(t)


# ------------------------------------------------------------------------------------------------ driver

class Translator:
    def __init__(self, crate):
        self.crate = crate
        self.info, self.in_progress = {}, []
        self.chunks = []
        self.structs_done, self.enums_done, self.consts_done, self.froms_done = set(), set(), set(), set()
        self.panics = []
        self.notes = set()
        self.synthetic = {}
        self.first_pass = False
        self.mut_methods = {name for m in crate.mods.values() for (_, name), fn in m.items['methods'].items() if getattr(fn, 'self_kind', None) == 'mut'}
        self.fn_names = []

    def note(self, key):
        """a construct of NOTES was used: the generated header says what it means (nothing is added for the unchanged sources)"""
        self.notes.add(key)

    def is_target(self, mod, fn):
        """functions outside TARGETS (helpers reached only because a target calls them, `impl From` bodies) are `@[simp]`"""
        it = getattr(fn, 'impl_type', None)
        return ((mod, it, fn.name) if it else (mod, fn.name)) in TARGETS

    def dummy(self, mod):
        return NFn(self, mod, Node('fn', 0, name='<item>', generics={}, params=[], ret='unit', body=None, impl_type=None, assoc={},
                                   sig_error=None, body_error=None, self_kind=None, impl_trait=None))

    def need_struct(self, q):
        if q in self.structs_done: return
        self.structs_done.add(q)
        mod, name = unqual(q)
        node = self.crate.mods[mod].items['structs'][name]
        h = self.dummy(mod)
        if node.fields is None: h.bad(f'struct `{q}`: fields outside the subset', node.line)
        fields = [(f, h.lt(h.sem(ty, node.line))) for f, ty, _ in node.fields]
        label = self.crate.mods[mod].label.rsplit('/', 1)[1]
        text = (f'/-- `struct {name}` ({label} line {node.line}) -/\nstructure {lname(name)} where\n'
                + '\n'.join(f'  {lname(f)} : {t}' for f, t in fields) + '\nderiving Inhabited')
        self.chunks.append(text)

    def need_enum(self, q):
        if q in self.enums_done: return
        self.enums_done.add(q)
        mod, name = unqual(q)
        node = self.crate.mods[mod].items['enums'][name]
        label = self.crate.mods[mod].label.rsplit('/', 1)[1]
        self.chunks.append(f'/-- `enum {name}` ({label} line {node.line}) -/\ninductive {lname(name)} where\n'
                           + '\n'.join(f'  | {v}' for v, _ in node.variants) + '\nderiving DecidableEq, Repr, Inhabited')

    def need_const(self, mod, name):
        if (mod, name) in self.consts_done: return
        self.consts_done.add((mod, name))
        node = self.crate.mods[mod].items['consts'][name]
        h = self.dummy(mod)
        h.scopes, h.tracked, h.deps = [{}], [], set()
        try:
            ty = h.sem(node.ty, node.line)
            r = h.expr(node.e, ty); h.unify(r[1], ty, node.line, f'const {name}'); r = h.expr(node.e, ty)
        except Unsupported as u:
            u.fn = f'const {qual(mod, name)}'; raise
        for d in sorted(x for x in h.deps if x[0] == 'const'): self.need_const(d[1], d[2])
        label = self.crate.mods[mod].label.rsplit('/', 1)[1]
        self.chunks.append(f'/-- `const {name}` ({label} line {node.line}) -/\n@[simp] def {lname(name)} : {h.lt(ty)} := {r[0]}')

    def find(self, key):
        if key[0] == 'fn':
            _, mod, name = key
            node = self.crate.mods[mod].items['fns'].get(name)
            return mod, node, lname(name)
        if key[0] == 'method':
            _, mod, tname, name = key
            node = self.crate.mods[mod].items['methods'].get((tname, name))
            return mod, node, f'{lname(tname)}.{lname(name)}'
        _, i = key
        fnode = self.crate.mods['errors'].items['froms'][i]
        return 'errors', fnode.fn, S.from_name(fnode)

    def ensure(self, key, line=None):
        if key in self.info: return self.info[key]
        mod, node, lean = self.find(key)
        what = '::'.join(str(x) for x in key[1:] if x != '')
        if node is None:
            u = Unsupported(f'function `{what}` not found (or its impl block is outside the subset)', line); raise u
        if key in self.in_progress:
            raise Unsupported(f'recursion through `{what}`', line)
        self.in_progress.append(key)
        try:
            saved = self.first_pass
            self.first_pass = True
            NFn(self, mod, node, lean).run()
            self.first_pass = saved
            tr = NFn(self, mod, node, lean)
            chunks = tr.run()
        except Unsupported as u:
            if not getattr(u, 'fn', None): u.fn = what
            raise
        finally:
            self.in_progress.pop()
        for d in sorted(x for x in tr.deps if x[0] == 'const'): self.need_const(d[1], d[2])
        for d in sorted(x for x in tr.deps if x[0] == 'from'): self.ensure(('from', d[1]))
        self.info[key] = tr.result_info
        if not self.first_pass:
            self.chunks.extend(chunks)
            self.fn_names.append(what)
        else:
            # translated while a caller was in its first pass: keep the text, it does not depend on the caller
            self.chunks.extend(chunks)
            self.fn_names.append(what)
        return self.info[key]


# constructs whose meaning the generated header states only when they occur (in this order)
NOTES = [
    ('letstruct', '`let S {{ a: x, b, .. }} = e;` is `let x := e.a; let b := e.b` (for a struct with one field: `e` itself).'),
    ('matcheff', '`match f(..) {{ .. }}` where evaluating the scrutinee needs statements (it fills a buffer, is a `&mut self` method,\n'
                 '    has a `?`) is `let t = f(..); match t {{ .. }}`; the pattern `()` is `()`.'),
    ('map', '`r.map(|x| e)` is `Except.map (fun x => e) r` on a `Result`, `Option.map (fun x => e) r` on an `Option`.'),
    ('split_at', '`s.split_at(n)` is `(s.take n, s.drop n)` (Rust panics when `n > s.len()`: totalised like a slice out of range).'),
    ('deferlet', '`let x = if c {{ stmts; a }} else {{ b }};` / `let x = match s {{ p => {{ stmts; a }}, .. }};` whose branches have\n'
                 '    statements is the statement `if c {{ stmts; x = a }} else {{ x = b }}` with `x` declared first (a deferred `let`).'),
    ('insert', '`o.insert(v)` on an `Option` place is `o = Some(v)`; its value, a `&mut` to the stored `v`, is `v` (a write through it\n'
               '    is refused); `x = f(..)?;` for a variable `x` is `let t = f(..)?; x = t`.'),
]

HEADER = '''/-
  GENERATED by tools/rs2lean_noise.py -- do not edit.
{sources}
  functions : {functions}
  Shallow embedding, one `def` per Rust `fn` (methods are `Type.method`), statement by statement: each group of lines is preceded
  by the Rust line it comes from.  The combinators and the glue for the orion crate are hand-written in
  KestrelModel/RsPrelude.lean, RsIO.lean and RsNoise.lean (read their headers first).
  * A `const` is a `@[simp] def` (so that `simp` sees through it: naming a literal does not change a proof); so is a function
    that is not in the translator's table TARGETS (a helper reached only because a wanted function calls it, an `impl From`).
  * usize, u64 are `Nat` (faithful while no value leaves its range: the nonce of a `CipherState` is at most 2 in the X pattern,
    slice bounds are below the 65535-byte message limit); u8 is UInt8, bool is Bool; slices, arrays, `Vec`, `VecDeque`, `&str`
    and `String` are `List`s (a string is its UTF-8 bytes); `Option` is `Option`; `Result<T, E>` is `Except E T`; tuples are pairs.
  * A `struct` with named fields is a `structure` with the same field names.  A struct with exactly one field (`PayloadKey`,
    `PublicKey`, `PrivateKey`) is modelled by that field: its literal and its field access are the identity (`Drop` / `Zeroize`
    impls are not modelled: they do not change what the functions return).  `NoiseEncryptMsg` / `NoiseDecryptMsg` are the
    structures of RsIO.lean; `NoiseError` is `Noise.Err` (`Decrypt` = decrypt, `DhError` = dh, `Other(msg)` = other: messages are
    not modelled); the unit structs `DhError`, `ChaPolyDecryptError` are `Unit`.
  * `&self` methods take `self`; a `&mut self` method takes `self` and returns its new value: alone when the Rust function returns
    `()`, else `(result, self)` (also when the result is an `Err`).  `p.f = e` and `p.m(..)` for a `&mut self` method rebuild the
    root variable: `let v := {{ v with f := .. }}`.
  * `e?` is `match e with | .error x => return Err(From::from(x)) | .ok v => …` (`From::from` = identity or the `impl From` of
    errors.rs); `.map_err(|x| e)` is `Except.mapError (fun x => e)`.  An `if` / `match` / `for` that can leave its block and is
    not last in it is `Rs.Step.andThen (..) (fun assigned-variables => rest)`; `for x in v` is `Rs.forInStep v (fun x state => ..)`.
  * `match` on an `Option`, a `Result`, a tuple of values or an enum is a Lean `match` (patterns `_`, a name, `None`, `Some(p)`,
    `Ok(p)`, `Err(p)`, `(p, q)`, a variant); `let x = match r {{ Ok(v) => v, Err(_) => return e }};` has the form of `?`.
    `a.checked_sub(b)` is `Rs.checkedSub a b`; `o.ok_or(e)` / `o.ok_or_else(|| e)` is `Rs.okOrElse o e`; `for x in v.iter()` is
    `for x in v`.  A hand-written `Clone::clone` is translated like any function but is NOT `@[simp]` (derived: the identity).
{notes}  * Panics are totalised: `Option::unwrap/expect` = `Rs.unwrap`, `Result::unwrap/expect` = `Rs.unwrapRes` (`default` in the
    panicking case), `.try_into().unwrap()` from a slice to an array and orion's `from_slice(..).unwrap()` are the identity
    (they panic on a wrong length), slices out of range as in RsPrelude.lean, and these statements are dropped:
{panics}
  * orion (record `RsNoise.Orion`, parameter `O`): `chacha20poly1305::seal/open` = `RsNoise.chapolySeal/chapolyOpen O` (they
    fill the output buffer), `Sha256::digest` = `O.sha256`, `HmacSha256::hmac` = `O.hmac`, `hkdf::derive_key` =
    `RsNoise.hkdfDerive O`, `x25519::key_agreement` = `Rs.okOr (O.dh ..)` (`Err` = all-zero shared secret),
    `x25519::PublicKey::try_from(&sk)` = `Rs.okOr (O.pub ..)`; orion's newtypes are their bytes.  `secure_random(n)` is `rand n`
    for a parameter `rand : Nat → List UInt8`; `Zeroizing::new` is the identity; `x.zeroize()` overwrites `x` with zeros;
    `u64::to_le_bytes` is `natLE 8`; `std::cmp::max` is `max`.
-/
import KestrelModel.RsNoise
set_option linter.unusedVariables false
namespace Kestrel.NoiseSrc
open Kestrel
'''


def translate(crate):
    tr = Translator(crate)
    for t in TARGETS:
        key = ('fn', t[0], t[1]) if len(t) == 2 else ('method', t[0], t[1], t[2])
        try:
            tr.ensure(key)
        except Unsupported as u:
            if not getattr(u, 'fn', None): u.fn = '::'.join(x for x in t if x)
            raise
    sources = '\n'.join(
        f'  source : {crate.mods[m].label}  (the part before `#[cfg(test)]`, {len(crate.mods[m].region.encode())} bytes)\n'
        f'  sha256 : {crate.mods[m].digest}' for m in ('', 'noise', 'errors'))
    panics = '\n'.join(f'      {f} line {ln} (`{fn}`): {text}' for f, fn, ln, text in sorted(tr.panics, key=lambda x: (x[0], x[2]))) or '      (none)'
    functions = ', '.join(tr.fn_names)
    notes = ''.join(f'  * {text.format()}\n' for key, text in NOTES if key in tr.notes)
    return HEADER.format(sources=sources, functions=functions, panics=panics, notes=notes) + '\n' + '\n\n'.join(tr.chunks) + '\n\nend Kestrel.NoiseSrc\n'


def main(argv):
    here = os.path.dirname(os.path.abspath(__file__))
    repo = os.environ.get('KESTREL_REPO', '/repo')
    out = os.path.join(here, '..', 'lean', 'KestrelModel', 'GeneratedNoise.lean')
    args = argv[1:]
    while args:
        a = args.pop(0)
        if a == '--repo' and args: repo = args.pop(0)
        elif a == '--out' and args: out = args.pop(0)
        else:
            print(f'usage: {argv[0]} [--repo DIR] [--out GeneratedNoise.lean]', file=sys.stderr); return 2
    srcdir = os.path.join(repo, 'src', 'crypto', 'src')
    try:
        crate = NCrate(srcdir)
    except OSError as ex:
        print(f'rs2lean_noise: cannot read sources under {srcdir}: {ex}', file=sys.stderr); return 2
    except Unsupported as u:
        print(f'rs2lean_noise: unsupported construct in {getattr(u, "fn", "?")} (line {u.line}): {u.what}', file=sys.stderr)
        return 3
    try:
        result = translate(crate)
    except Unsupported as u:
        where = f'in fn `{u.fn}`' if getattr(u, 'fn', None) else 'at top level'
        line = f' (line {u.line})' if u.line else ''
        print(f'rs2lean_noise: unsupported construct {where}{line}: {u.what}', file=sys.stderr)
        return 3
    old = None
    try:
        with open(out, encoding='utf-8') as f: old = f.read()
    except OSError:
        pass
    if old != result:
        tmp = out + '.tmp'
        with open(tmp, 'w', encoding='utf-8') as f: f.write(result)
        os.replace(tmp, out)
        print(f'rs2lean_noise: wrote {os.path.normpath(out)} ({len(result)} bytes)')
    else:
        print(f'rs2lean_noise: {os.path.normpath(out)} is up to date')
    return 0


if __name__ == '__main__':
    sys.exit(main(sys.argv))
