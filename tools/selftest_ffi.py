#!/usr/bin/env python3
"""
selftest_ffi.py -- robustness / sensitivity regression test of the translation of src/ffi/src/lib.rs (tools/rs2lean_ffi.py).

For a list of HARMLESS edits of src/ffi/src/lib.rs / src/ffi/kestrel-crypto.h the translator must still translate (exit 0) and
the proofs (KestrelProofs.FfiSrc, KestrelProps.C18ffi) must still build; for a list of BREAKING edits the translator must refuse
(exit 3) or a proof must fail to build.  Takes no arguments; standard library only.  Same conventions as
tools/selftest_keyring.py: every edit is a text substitution applied to a scratch copy of src/ffi/ (taken from repo-src/,
$KESTREL_REPO or /repo, which are only read), translated with KESTREL_REPO=<scratch> into a scratch copy of the lake project and
built there; everything lives in a temporary directory inside this working copy and is removed at the end; row `base` is the
unchanged source (it must reproduce the committed GeneratedFfi.lean and build).  Every seeded/B*-b*/patch.diff (harmless) and
seeded/C*-m*/patch.diff (breaking) that touches one of the two files is a row of its own (applied with `patch -p1`); a row of the
table may name seeded patches to be applied before its substitutions ("a harmless rewrite with a mistake in it": the rows
`…@B5-b6`).  For the breaking rows the table says how the row must be caught where that matters: 'proof' = the translator must
accept it and a proof must fail (a refusal would not show that the proofs look at the construct).
Exit status 0 iff every row is as expected.
Environment: SELFTEST_JOBS=<n> workers (default 3), SELFTEST_KEEP=1, SELFTEST_ONLY=<substring,substring>.
"""
import os, re, shutil, subprocess, sys, tempfile, time, queue
from concurrent.futures import ThreadPoolExecutor

ROOT = os.path.dirname(os.path.dirname(os.path.abspath(__file__)))
PRISTINE = os.path.join(ROOT, 'repo-src') if os.path.isdir(os.path.join(ROOT, 'repo-src')) else os.environ.get('KESTREL_REPO', '/repo')
RS, H = 'src/ffi/src/lib.rs', 'src/ffi/kestrel-crypto.h'
TRANSLATOR = os.path.join(ROOT, 'tools', 'rs2lean_ffi.py')
GENERATED = os.path.join('KestrelModel', 'GeneratedFfi.lean')
MODULES = ['KestrelProofs.FfiSrc', 'KestrelProps.C18ffi']

CALL = 'ktl_scrypt(kpass, ksalt, n, r, p, kderived_key.len())'
LET_PW = '    let kpass = std::slice::from_raw_parts(password, password_len);\n'
LET_SALT = '    let ksalt = std::slice::from_raw_parts(salt, salt_len);\n'
LET_OUT = '    let kderived_key = std::slice::from_raw_parts_mut(derived_key, dk_len);\n'
WRITE = '    kderived_key.copy_from_slice(dk.as_slice());\n'
USE = 'use kestrel_crypto::scrypt as ktl_scrypt;\n'

# B5-b6: `unsafe fn input_bytes<'a>(ptr: *const c_uchar, len: size_t) -> &'a [u8] { slice::from_raw_parts(ptr, len) }`
HELPER_SIG = "unsafe fn input_bytes<'a>(ptr: *const c_uchar, len: size_t) -> &'a [u8] {\n"
HELPER_BODY = '    slice::from_raw_parts(ptr, len)\n'
CALL_PW = 'input_bytes(password, password_len)'
CALL_SALT = 'input_bytes(salt, salt_len)'

# (name, kind, [(file, old, new, occurrences expected)], what it is[, [seeded patches applied first][, 'proof']])
HAND = [
    # ---- harmless
    ('H1-rename-locals', 'harmless',
     [(RS, 'kpass', 'pw_view', 2), (RS, 'ksalt', 'salt_view', 2), (RS, 'kderived_key', 'out', 3), (RS, 'dk.as_slice', 'derived.as_slice', 1),
      (RS, 'let dk =', 'let derived =', 1)], 'the four locals renamed'),
    ('H2-no-alias', 'harmless', [(RS, USE, '', 1), (RS, 'ktl_scrypt(', 'kestrel_crypto::scrypt(', 1)],
     'no `use … as`, the function called by its path'),
    ('H3-reorder-lets', 'harmless', [(RS, LET_PW + '\n' + LET_SALT, LET_SALT + '\n' + LET_PW, 1)], 'the two from_raw_parts lets exchanged'),
    ('H4-ref-for-as_slice', 'harmless', [(RS, 'dk.as_slice()', '&dk', 1)], '`dk.as_slice()` -> `&dk`'),
    ('H5-dk_len-for-len', 'harmless', [(RS, 'kderived_key.len()', 'dk_len', 1)], '`kderived_key.len()` -> `dk_len`'),
    ('H6-misleading-alias', 'harmless', [(RS, 'ktl_scrypt', 'sha256', 2)], 'the alias is called `sha256` (still kestrel_crypto::scrypt)'),
    ('H7-use-groups', 'harmless',
     [(RS, USE, 'use kestrel_crypto::{scrypt as ktl_scrypt};\nuse std::slice::{from_raw_parts, from_raw_parts_mut};\n', 1),
      (RS, 'std::slice::from_raw_parts', 'from_raw_parts', 3)], '`use` groups; from_raw_parts(_mut) called by their short names'),
    ('H8-inline-dk', 'harmless', [(RS, '    let dk = ' + CALL + ';\n\n', '', 1), (RS, 'dk.as_slice()', '&' + CALL, 1)],
     'the scrypt call inlined into copy_from_slice'),
    ('H9-all-of-the-above', 'harmless',
     [(RS, USE, '', 1), (RS, 'ktl_scrypt(', 'kestrel_crypto::scrypt(', 1), (RS, LET_PW + '\n' + LET_SALT, LET_SALT + '\n' + LET_PW, 1),
      (RS, 'dk.as_slice()', '&dk', 1), (RS, 'kderived_key.len()', 'dk_len', 1), (RS, 'kpass', 'a', 2), (RS, 'ksalt', 'b', 2)],
     'H1-H5 together'),
    ('H10-header-layout', 'harmless',
     [(H, '    const unsigned char* password,\n    size_t password_len,\n', '    unsigned char const *password, /* not NUL-terminated */ size_t password_len,\n', 1),
      (H, '    unsigned int n,', '    unsigned n, // cost', 1)], 'header: east const, comments, `unsigned` for `unsigned int`, line breaks'),
    # ---- breaking
    ('X1-salt-password-swapped', 'breaking', [(RS, 'ktl_scrypt(kpass, ksalt,', 'ktl_scrypt(ksalt, kpass,', 1)], 'salt and password exchanged in the call'),
    ('X2-r-p-swapped', 'breaking', [(RS, 'n, r, p, kderived_key', 'n, p, r, kderived_key', 1)], '`r` and `p` exchanged in the call'),
    ('X3-dk_len-const-call', 'breaking', [(RS, 'kderived_key.len()', '32', 1)], 'the requested length is the constant 32'),
    ('X4-dk_len-const-region', 'breaking', [(RS, 'from_raw_parts_mut(derived_key, dk_len)', 'from_raw_parts_mut(derived_key, 32)', 1)],
     'the output region has the constant length 32'),
    ('X5-subrange-write', 'breaking', [(RS, WRITE, '    kderived_key[..16].copy_from_slice(&dk[..16]);\n', 1)], 'copy_from_slice on a sub-range'),
    ('X6-write-to-password-cast', 'breaking', [(RS, 'from_raw_parts_mut(derived_key, dk_len)', 'from_raw_parts_mut(password as *mut c_uchar, dk_len)', 1)],
     'the write is aimed at `password` (cast to *mut)'),
    ('X7-write-to-password-view', 'breaking', [(RS, WRITE, '    kpass.copy_from_slice(dk.as_slice());\n', 1)], 'copy_from_slice through the password slice'),
    ('X8-write-to-password-sig', 'breaking',
     [(RS, 'password: *const c_uchar', 'password: *mut c_uchar', 1), (RS, 'from_raw_parts_mut(derived_key, dk_len)', 'from_raw_parts_mut(password, dk_len)', 1),
      (H, 'const unsigned char* password', 'unsigned char* password', 1)], '`password` made `*mut` on both sides and written to'),
    ('X9-extra-write-after', 'breaking', [(RS, WRITE, WRITE + '    kderived_key.copy_from_slice(ksalt);\n', 1)], 'a second write after the first'),
    ('X10-extra-write-before', 'breaking',
     [(RS, LET_OUT, LET_OUT + '    let scratch = std::slice::from_raw_parts_mut(derived_key, salt_len);\n    scratch.copy_from_slice(ksalt);\n', 1)],
     'an extra write before the scrypt call'),
    ('X11-header-salt_len-first', 'breaking', [(H, '    const unsigned char* salt,\n    size_t salt_len,\n', '    size_t salt_len,\n    const unsigned char* salt,\n', 1)],
     'header: `salt_len` before `salt`'),
    ('X12-header-r-p-swapped', 'breaking', [(H, '    unsigned int r,\n    unsigned int p,\n', '    unsigned int p,\n    unsigned int r,\n', 1)], 'header: `r` and `p` exchanged'),
    ('X13-alias-of-other-fn', 'breaking', [(RS, USE, 'use kestrel_crypto::sha256 as ktl_scrypt;\n', 1)], 'the alias `ktl_scrypt` names another function'),
    ('X14-pointer-arithmetic', 'breaking', [(RS, 'from_raw_parts_mut(derived_key, dk_len)', 'from_raw_parts_mut(derived_key.add(1), dk_len)', 1)], 'arithmetic on the output pointer'),
    ('X15-length-arithmetic', 'breaking', [(RS, 'from_raw_parts(password, password_len)', 'from_raw_parts(password, password_len - 1)', 1)], 'arithmetic on a length'),
    ('X16-lengths-swapped', 'breaking', [(RS, 'from_raw_parts(password, password_len)', 'from_raw_parts(password, salt_len)', 1),
                                         (RS, 'from_raw_parts(salt, salt_len)', 'from_raw_parts(salt, password_len)', 1)], 'the two input lengths exchanged'),
    ('X17-loop', 'breaking', [(RS, WRITE, '    for i in 0..dk_len {\n        kderived_key[i] = dk[i];\n    }\n', 1)], 'a loop instead of copy_from_slice'),
    ('X18-rust-params-reordered', 'breaking', [(RS, '    salt: *const c_uchar,\n    salt_len: size_t,\n', '    salt_len: size_t,\n    salt: *const c_uchar,\n', 1)],
     'lib.rs: `salt_len` before `salt` (header unchanged)'),
    ('X19-header-type', 'breaking', [(H, 'size_t dk_len', 'unsigned int dk_len', 1)], 'header: `dk_len` declared `unsigned int`'),
    ('X20-header-missing-const', 'breaking', [(H, 'const unsigned char* salt', 'unsigned char* salt', 1)], 'header: `salt` without `const`'),
    ('X21-no-write', 'breaking', [(RS, WRITE, '', 1)], 'the result is never written'),
    ('X22-not-exported', 'breaking', [(RS, '#[no_mangle]\n', '', 1)], 'without #[no_mangle]'),
    # ---- private helper functions (seeded/B5-b6 moves the two from_raw_parts calls into `input_bytes(ptr, len)`); harmless
    ('H11-helper-renamed@B5-b6', 'harmless',
     [(RS, 'input_bytes', 'scrypt_view', 3), (RS, "(ptr: *const c_uchar, len: size_t)", "(start: *const c_uchar, count: size_t)", 1),
      (RS, 'from_raw_parts(ptr, len)', 'from_raw_parts(start, count)', 1)], 'the helper and its parameters renamed', ['B5-b6']),
    ('H12-helper-params-reordered@B5-b6', 'harmless',
     [(RS, "(ptr: *const c_uchar, len: size_t)", "(len: size_t, ptr: *const c_uchar)", 1), (RS, CALL_PW, 'input_bytes(password_len, password)', 1),
      (RS, CALL_SALT, 'input_bytes(salt_len, salt)', 1)], 'the helper takes (len, ptr); the calls follow', ['B5-b6']),
    ('H13-helper-for-output@B5-b6', 'harmless',
     [(RS, '// Views', "unsafe fn output_bytes<'a>(n: size_t, to: *mut c_uchar) -> &'a mut [u8] {\n    slice::from_raw_parts_mut(to, n)\n}\n\n// Views", 1),
      (RS, 'slice::from_raw_parts_mut(derived_key, dk_len)', 'self::output_bytes(dk_len, derived_key)', 1)],
     'a second helper (other parameter order) for the output region, called as `self::…`', ['B5-b6']),
    ('H14-helper-nested-inline-attr@B5-b6', 'harmless',
     [(RS, '// Views', "#[inline]\nunsafe fn view<'a>(len: size_t, cap: size_t, ptr: *const c_uchar) -> &'a [u8] {\n    input_bytes(ptr, len)\n}\n\n// Views", 1),
      (RS, CALL_PW, 'view(password_len, salt_len, password)', 1), (RS, CALL_SALT, 'view(salt_len, password_len, salt)', 1)],
     'a helper that calls the helper, with an unused parameter and #[inline]', ['B5-b6']),
    # ---- … and breaking: the construct misused (to be caught by a proof, not by a refusal)
    ('X23-helper-salt-ptr-password-len@B5-b6', 'breaking', [(RS, CALL_PW, 'input_bytes(salt, password_len)', 1)],
     'the password view is made from the salt pointer', ['B5-b6'], 'proof'),
    ('X24-helper-calls-swapped@B5-b6', 'breaking', [(RS, CALL_PW, 'input_bytes(SALT)', 1), (RS, CALL_SALT, CALL_PW, 1), (RS, 'input_bytes(SALT)', CALL_SALT, 1)],
     'kpass is the salt view and ksalt the password view', ['B5-b6'], 'proof'),
    ('X25-helper-lengths-swapped@B5-b6', 'breaking', [(RS, CALL_PW, 'input_bytes(password, salt_len)', 1), (RS, CALL_SALT, 'input_bytes(salt, password_len)', 1)],
     'the two lengths exchanged between the helper calls', ['B5-b6'], 'proof'),
    ('X26-helper-body-zero-len@B5-b6', 'breaking', [(RS, HELPER_BODY, '    slice::from_raw_parts(ptr, 0)\n', 1)], 'the helper returns an empty view', ['B5-b6'], 'proof'),
    ('X27-helper-wrong-position@B5-b6', 'breaking',
     [(RS, "(ptr: *const c_uchar, len: size_t)", "(ptr: *const c_uchar, cap: size_t, len: size_t)", 1), (RS, CALL_PW, 'input_bytes(password, password_len, salt_len)', 1),
      (RS, CALL_SALT, 'input_bytes(salt, salt_len, password_len)', 1)], 'helper (ptr, cap, len), called as if it were (ptr, len, cap)', ['B5-b6'], 'proof'),
    ('X28-helper-reordered-calls-not@B5-b6', 'breaking',
     [(RS, "(ptr: *const c_uchar, len: size_t)", "(ptr: *const c_uchar, other: size_t, len: size_t)", 1), (RS, HELPER_BODY, '    slice::from_raw_parts(ptr, other)\n', 1),
      (RS, CALL_PW, 'input_bytes(password, salt_len, password_len)', 1), (RS, CALL_SALT, 'input_bytes(salt, password_len, salt_len)', 1)],
     'the helper body uses the wrong one of two length parameters', ['B5-b6'], 'proof'),
    ('X29-helper-nested-swapped@B5-b6', 'breaking',
     [(RS, '// Views', "unsafe fn view<'a>(len: size_t, cap: size_t, ptr: *const c_uchar) -> &'a [u8] {\n    input_bytes(ptr, cap)\n}\n\n// Views", 1),
      (RS, CALL_PW, 'view(password_len, salt_len, password)', 1), (RS, CALL_SALT, 'view(salt_len, password_len, salt)', 1)],
     'a helper that calls the helper with the wrong length', ['B5-b6'], 'proof'),
    ('X30-helper-output-to-password-len@B5-b6', 'breaking',
     [(RS, '// Views', "unsafe fn output_bytes<'a>(n: size_t, to: *mut c_uchar) -> &'a mut [u8] {\n    slice::from_raw_parts_mut(to, n)\n}\n\n// Views", 1),
      (RS, 'slice::from_raw_parts_mut(derived_key, dk_len)', 'output_bytes(password_len, derived_key)', 1)],
     'output helper called with the password length', ['B5-b6'], 'proof'),
    # … misuse that leaves the subset or alters the exported symbols (a refusal is the expected outcome)
    ('X31-helper-len-minus-1@B5-b6', 'breaking', [(RS, HELPER_BODY, '    slice::from_raw_parts(ptr, len - 1)\n', 1)], 'arithmetic on the length inside the helper', ['B5-b6']),
    ('X32-helper-no_mangle@B5-b6', 'breaking', [(RS, 'unsafe fn input_bytes', '#[no_mangle]\nunsafe fn input_bytes', 1)], 'the helper is exported (#[no_mangle])', ['B5-b6']),
    ('X33-helper-pub-extern@B5-b6', 'breaking', [(RS, 'unsafe fn input_bytes', '#[no_mangle]\npub unsafe extern "C" fn input_bytes', 1)],
     'the helper is an exported C function', ['B5-b6']),
    ('X34-helper-export_name@B5-b6', 'breaking', [(RS, 'unsafe fn input_bytes', '#[export_name = "scrypt_v2"]\nunsafe fn input_bytes', 1)],
     'the helper is exported under another name', ['B5-b6']),
    ('X35-helper-mut-from-const@B5-b6', 'breaking',
     [(RS, '// Views', "unsafe fn output_bytes<'a>(to: *const c_uchar, n: size_t) -> &'a mut [u8] {\n    slice::from_raw_parts_mut(to as *mut c_uchar, n)\n}\n\n// Views", 1),
      (RS, 'slice::from_raw_parts_mut(derived_key, dk_len)', 'output_bytes(password, dk_len)', 1)],
     'a helper that casts away `const`, used to write to `password`', ['B5-b6']),
    ('X36-helper-recursive@B5-b6', 'breaking', [(RS, HELPER_BODY, '    input_bytes(ptr, len)\n', 1)], 'the helper calls itself', ['B5-b6']),
]


def sh(cmd, cwd, env=None, timeout=3600):
    p = subprocess.run(cmd, cwd=cwd, env=env, stdout=subprocess.PIPE, stderr=subprocess.STDOUT, timeout=timeout)
    return p.returncode, p.stdout.decode('utf-8', 'replace')


def first_error(out, w):
    for l in out.splitlines():
        m = re.match(r'^error: (\S+\.lean):(\d+):(\d+): (.*)$', l)
        if m:
            d = decl_at(os.path.join(w, m.group(1)), int(m.group(2)))
            return f'[{d}] {"/".join(m.group(1).split("/")[-2:])}:{m.group(2)}: {m.group(4)[:60]}'
    for l in out.splitlines():
        if 'error' in l: return l.strip()[:110]
    return '?'


def decl_at(lean_file, lineno):
    try:
        with open(lean_file, encoding='utf-8') as f: ls = f.read().split('\n')
    except OSError:
        return ''
    pat = re.compile(r'^(theorem|lemma|def|example)\b\s*(\S*)')
    for j in range(min(lineno, len(ls)) - 1, -1, -1):
        m = pat.match(ls[j])
        if m: return 'example' if m.group(1) == 'example' else m.group(2)
    return ''


def files_of_patch(diff):
    with open(diff, encoding='utf-8') as f:
        return {m.group(1) for m in re.finditer(r'(?m)^\+\+\+ b/(\S+)', f.read())}


class Case:
    def __init__(self, name, kind, edits, what, patches=None, how=None):
        self.name, self.kind, self.edits, self.what, self.patches, self.how = name, kind, edits, what, patches or [], how
        self.translate = self.build = self.verdict = ''
        self.ok = False


def run_case(case, tmp, workers):
    tree = os.path.join(tmp, 'repo-' + case.name)
    try:
        shutil.copytree(os.path.join(PRISTINE, 'src', 'ffi'), os.path.join(tree, 'src', 'ffi'), ignore=shutil.ignore_patterns('target'))
        for pt in case.patches:
            diff = os.path.join(ROOT, 'seeded', pt, 'patch.diff')
            outside = files_of_patch(diff) - {RS, H}
            if outside: raise RuntimeError(f'seeded/{pt} also changes {", ".join(sorted(outside))}')
            rc, out = sh(['patch', '-p1', '--no-backup-if-mismatch', '-i', diff], tree)
            if rc != 0: raise RuntimeError(f'seeded/{pt} does not apply: {out.strip()[-80:]}')
        for rel, old, new, count in case.edits:
            path = os.path.join(tree, rel)
            with open(path, encoding='utf-8') as f: text = f.read()
            if text.count(old) != count:
                raise RuntimeError(f'edit `{old.strip()[:40]}` matches {text.count(old)} times, expected {count}')
            with open(path, 'w', encoding='utf-8') as f: f.write(text.replace(old, new))
    except Exception as ex:
        case.translate, case.verdict = f'SETUP ERROR: {ex}', 'ERROR'
        return case
    w = workers.get()
    try:
        gen = os.path.join(w, GENERATED)
        rc, out = sh([sys.executable, TRANSLATOR, '--repo', tree, '--out', gen], ROOT)
        if rc == 3:
            case.translate, case.build = 'refused(3): ' + out.strip().split('unsupported construct', 1)[-1].strip()[:120], '-'
        elif rc != 0:
            case.translate, case.build = f'EXIT {rc}: {out.strip()[-100:]}', '-'
        else:
            case.translate = 'ok'
            if case.name == 'base':
                with open(gen, 'rb') as f1, open(os.path.join(ROOT, 'lean', GENERATED), 'rb') as f2:
                    case.translate = 'ok, = committed file' if f1.read() == f2.read() else 'ok, DIFFERS from the committed file'
            rc2, out2 = sh(['lake', 'build'] + MODULES, w)
            case.build = 'ok' if rc2 == 0 else 'FAILS ' + first_error(out2, w)
    finally:
        workers.put(w)
    tr_ok, refused, b_ok = case.translate.startswith('ok'), case.translate.startswith('refused(3)'), case.build == 'ok'
    if case.kind == 'harmless':
        case.ok = tr_ok and b_ok and 'DIFFERS' not in case.translate
        case.verdict = 'ok (accepted)' if case.ok else 'FALSE ALARM'
    elif case.how == 'proof' and refused:
        case.verdict = 'REFUSED (a failing proof is expected)'
    elif refused or (tr_ok and case.build.startswith('FAILS')):
        case.ok, case.verdict = True, 'ok (caught)'
    else:
        case.verdict = 'NOT CAUGHT' if tr_ok and b_ok else 'ERROR'
    return case


def main():
    if len(sys.argv) > 1:
        print(__doc__); return 2
    jobs = max(1, int(os.environ.get('SELFTEST_JOBS', '3')))
    only = [s for s in os.environ.get('SELFTEST_ONLY', '').split(',') if s]
    cases = [Case('base', 'harmless', [], 'unchanged source')]
    seeded = os.path.join(ROOT, 'seeded')
    for d in sorted(os.listdir(seeded)) if os.path.isdir(seeded) else []:
        m = re.match(r'^([BC])\d+-[bm]\d+$', d)
        diff = os.path.join(seeded, d, 'patch.diff')
        if not m or not os.path.exists(diff) or not (files_of_patch(diff) & {RS, H}): continue
        if files_of_patch(diff) - {RS, H}: continue       # also changes files this translation does not read: the area of another self-test
        cases.append(Case(d, 'harmless' if m.group(1) == 'B' else 'breaking', [], 'seeded ' + ('harmless' if m.group(1) == 'B' else 'breaking') + ' patch', [d]))
    cases += [Case(*h) for h in HAND]
    if only: cases = [c for c in cases if c.name == 'base' or any(s in c.name for s in only)]
    tmp = tempfile.mkdtemp(prefix='.selftest_ffi_', dir=ROOT)
    t0 = time.time()
    try:
        workers = queue.Queue()
        for i in range(min(jobs, len(cases))):
            w = os.path.join(tmp, f'lean-{i}')
            shutil.copytree(os.path.join(ROOT, 'lean'), w, symlinks=True)
            workers.put(w)
        with ThreadPoolExecutor(max_workers=jobs) as ex:
            done = list(ex.map(lambda c: run_case(c, tmp, workers), cases))
    finally:
        if os.environ.get('SELFTEST_KEEP'): print(f'scratch directory kept: {tmp}')
        else: shutil.rmtree(tmp, ignore_errors=True)
    wn = max(len(c.name) for c in done)
    print(f'{"edit".ljust(wn)} | kind     | verdict       | translate / build')
    print('-' * (wn + 70))
    for c in done:
        detail = c.translate if c.build in ('-', '') else f'translates; build {c.build}' if c.translate == 'ok' else f'{c.translate}; build {c.build}'
        print(f'{c.name.ljust(wn)} | {c.kind.ljust(8)} | {c.verdict.ljust(13)} | {detail}')
    bad = [c for c in done if not c.ok]
    h = [c for c in done if c.kind == 'harmless']
    b = [c for c in done if c.kind == 'breaking']
    print('-' * (wn + 70))
    print(f'harmless accepted: {sum(c.ok for c in h)}/{len(h)}   breaking caught: {sum(c.ok for c in b)}/{len(b)}   ({time.time() - t0:.0f} s, {jobs} workers)')
    if bad:
        print('NOT AS EXPECTED: ' + ', '.join(c.name for c in bad))
        return 1
    print('all rows as expected')
    return 0


if __name__ == '__main__':
    sys.exit(main())
