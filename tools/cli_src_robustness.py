#!/usr/bin/env python3
"""
cli_src_robustness.py -- robustness self-test of the main.rs translation (tools/rs2lean_cli.py) and its proofs.

For each change to a COPY of the Rust sources: run the translator; if it accepts, put the generated file in place, rebuild
the Cli*Src proof and property modules and (for changes that must be caught) also run the generated argument handling
against the model (tools/cli_src_compare.py).  The original generated file is restored at the end.

  breaking changes  must be refused (exit 3) or translated and break the proof;
  harmless rewrites should be accepted with the proofs still going through.
  usage: cli_src_robustness.py [--only NAME]
"""
import os, sys, shutil, subprocess, tempfile, time

HERE = os.path.dirname(os.path.abspath(__file__))
ROOT = os.path.normpath(os.path.join(HERE, '..'))
# the pristine Rust sources: repo-src/ inside a development copy, otherwise $KESTREL_REPO, otherwise /repo (only read, copied to a scratch directory)
PRISTINE = os.path.join(ROOT, 'repo-src') if os.path.isdir(os.path.join(ROOT, 'repo-src')) else os.environ.get('KESTREL_REPO', '/repo')
LEAN = os.path.join(ROOT, 'lean')
GEN = os.path.join(LEAN, 'KestrelModel', 'GeneratedCli.lean')
SRC = PRISTINE
TARGETS = ['KestrelProofs.CliSrc', 'KestrelProps.CliSrc', 'KestrelProofs.CliCmdSrc', 'KestrelProps.CliCmdSrc',
           'KestrelProofs.CliStreamSrc', 'KestrelProps.CliStreamSrc', 'KestrelProofs.CliGenKeySrc', 'KestrelProps.CliGenKeySrc']


def sub(text, old, new, count=1, nth=0):
    """replace the nth (0-based) occurrence (count=1) or all occurrences (count=0)"""
    assert old in text, f'pattern not found: {old!r}'
    if count == 0: return text.replace(old, new)
    parts = text.split(old)
    assert len(parts) > nth + 1, f'occurrence {nth} of {old!r} not found'
    return old.join(parts[:nth + 1]) + new + old.join(parts[nth + 1:])


FREE_BLOCK = '''    if matches.free.len() > 1 {
        return Err("Invalid usage".to_string());
    }
'''
HELPER = '''
fn at_most_one_free(matches: &getopts::Matches) -> Result<(), String> {
    if matches.free.len() > 1 {
        return Err("Invalid usage".to_string());
    }

    Ok(())
}
'''


def m1(t): return sub(t, '"dec" | "decrypt" => {\n            let args = slice_args(&args, 2);', '"decrypt" => {\n            let args = slice_args(&args, 2);')
def m2(t): return sub(t, 'decrypt_opts.reqopt("t", "to", "Recipient key name", "NAME");', 'decrypt_opts.optopt("t", "to", "Recipient key name", "NAME");')
def m3(t): return sub(t, 'if matches.free.len() > 1 {', 'if matches.free.len() >= 1 {')
def m4(t): return sub(t, 'let env_pass = matches.opt_present("env-pass");', 'let env_pass = true;')
def m5(t): return sub(t, 'if args.len() <= 1 || args.contains(&"--help") || args.contains(&"-h") {', 'if args.len() <= 1 || args[1] == "--help" || args[1] == "-h" {')
def m6(t): return sub(sub(t, '"gen" | "generate" => {', '"generate" => {'), '"change-pass" => {', '"gen" | "change-pass" => {')
def h1(t):
    t = sub(t, 'encrypt_opts', 'eopts', count=0)
    t = sub(t, '    let infile = if matches.free.len() == 1 {\n        Some(matches.free[0].clone())\n    } else {\n        None\n    };\n\n    let to = matches.opt_str("t").unwrap();\n    let from',
            '    let input_file = if matches.free.len() == 1 {\n        Some(matches.free[0].clone())\n    } else {\n        None\n    };\n\n    let to = matches.opt_str("t").unwrap();\n    let from')
    return sub(t, '    Ok(EncryptOptions {\n        infile,', '    Ok(EncryptOptions {\n        infile: input_file,')
def h2(t):
    assert t.count(FREE_BLOCK) == 4
    return t.replace(FREE_BLOCK, '    at_most_one_free(&matches)?;\n') + HELPER


CASES = [
    ('1-alias-dec-removed', 'break', m1),
    ('2-reqopt-t-to-optopt-in-parse_decrypt', 'break', m2),
    ('3-free-len-gt-1-to-ge-1', 'break', m3),
    ('4-opt_present-env-pass-to-true', 'break', m4),
    ('5-help-check-only-args1', 'break', m5),
    ('6-gen-alias-to-ChangePass', 'break', m6),
    ('H1-rename-locals', 'harmless', h1),
    ('H2-free-check-into-helper', 'harmless', h2),
]


def run(cmd, **kw):
    t0 = time.time()
    p = subprocess.run(cmd, capture_output=True, text=True, **kw)
    return p.returncode, (p.stdout + p.stderr), time.time() - t0


def main():
    only = None
    if len(sys.argv) == 3 and sys.argv[1] == '--only': only = sys.argv[2]
    backup = GEN + '.orig'
    shutil.copyfile(GEN, backup)
    results = []
    try:
        for name, kind, fn in CASES:
            if only and only != name: continue
            tmp = tempfile.mkdtemp(prefix='clirob-')
            repo = os.path.join(tmp, 'repo')
            os.makedirs(os.path.join(repo, 'src', 'cli', 'src'))
            shutil.copyfile(os.path.join(SRC, 'src', 'cli', 'Cargo.toml'), os.path.join(repo, 'src', 'cli', 'Cargo.toml'))
            for f in ('main.rs', 'commands.rs'):
                shutil.copyfile(os.path.join(SRC, 'src', 'cli', 'src', f), os.path.join(repo, 'src', 'cli', 'src', f))
            mp = os.path.join(repo, 'src', 'cli', 'src', 'main.rs')
            with open(mp) as f: text = f.read()
            with open(mp, 'w') as f: f.write(fn(text))
            out = os.path.join(tmp, 'GeneratedCli.lean')
            shutil.copyfile(backup, out)
            rc, log, _ = run([sys.executable, os.path.join(HERE, 'rs2lean_cli.py'), '--repo', repo, '--out', out])
            if rc == 3:
                results.append((name, kind, 'REFUSED: ' + log.strip().split('\n')[-1]))
                shutil.rmtree(tmp); continue
            if rc != 0:
                results.append((name, kind, f'translator error {rc}: {log.strip()}')); shutil.rmtree(tmp); continue
            shutil.copyfile(out, GEN)
            rc, log, dt = run(['lake', 'build'] + TARGETS, cwd=LEAN)
            if rc == 0:
                verdict = f'translated; PROOFS GO THROUGH ({dt:.0f} s)'
            else:
                errs = [l for l in log.split('\n') if l.startswith('error:')]
                first = errs[0][:160] if errs else log.strip().split('\n')[-1][:160]
                verdict = f'translated; PROOF BREAKS ({len(errs)} errors; first: {first})'
            if kind == 'break':
                rc2, log2, _ = run(['lake', 'build', 'kmodel'], cwd=LEAN)
                if rc2 == 0:
                    rc3, log3, _ = run([sys.executable, os.path.join(HERE, 'cli_src_compare.py')])
                    verdict += '; run against the model: ' + log3.strip().split('\n')[-1][:140]
                else:
                    verdict += '; kmodel does not build with it'
            results.append((name, kind, verdict))
            shutil.rmtree(tmp)
    finally:
        shutil.copyfile(backup, GEN)
        os.remove(backup)
        run(['lake', 'build', 'KestrelModel.GeneratedCli', 'kmodel'] + TARGETS, cwd=LEAN)
    ok = True
    for name, kind, verdict in results:
        good = ('REFUSED' in verdict or 'PROOF BREAKS' in verdict) if kind == 'break' else 'GO THROUGH' in verdict
        ok = ok and good
        print(f'[{"ok" if good else "!!"}] {kind:8} {name}: {verdict}')
    return 0 if ok else 1


if __name__ == '__main__':
    sys.exit(main())
