#!/usr/bin/env python3
"""
cli_src_robustness.py -- robustness / sensitivity regression test of the CLI translation (tools/rs2lean_cli.py: src/cli/src/main.rs
and commands.rs -> lean/KestrelModel/GeneratedCli.lean) and of its proofs (KestrelProofs / KestrelProps . Cli{Src,CmdSrc,StreamSrc,GenKeySrc,FullSrc}).

For a list of HARMLESS changes of the Rust sources the translator must still translate (exit 0) and all the proof / property modules
must still build; for a list of BREAKING changes the translator must refuse (exit 3) or a proof must fail to build.  Rows whose
expected outcome is something else (a known refusal of a harmless rewrite, a breaking patch outside the translated part) carry the
expected outcome in the table KNOWN below, with the reason; they count as "as expected" only when exactly that happens.

  * the changes are: every seeded/B*-b*/patch.diff (harmless) and every seeded/C*-m*/patch.diff (breaking) whose diff touches
    src/cli/src/main.rs, commands.rs or errors.rs (the others are counted as "not applicable"), and the hand-made edits of HAND below
    (text substitutions, some on top of a seeded harmless patch: "a harmless rewrite with a mistake in it");
  * every change is applied to a scratch copy of repo-src/, translated with `--repo <scratch>` into a scratch copy of the lake
    project (lean/ with its build directory, one copy per worker), and built there with `lake build <modules>`;
  * everything lives in a temporary directory created inside this working copy and removed at the end; repo-src/ and the
    committed lean/ are only read;
  * row `base` is the unchanged source: it must translate to exactly the committed generated file and build;
  * a breaking row with `proof` in its expectation must be caught BY A FAILING PROOF (a refusal is then not as expected): these are
    the misuses of constructs the translator accepts;
  * exit status 0 iff every row is as expected.   Environment: SELFTEST_JOBS=<n> workers (default 4), SELFTEST_KEEP=1 keeps the
    scratch directory, SELFTEST_ONLY=<substring,substring> runs only the rows whose name contains one of the substrings.
"""
import os, re, shutil, subprocess, sys, tempfile, time, queue
from concurrent.futures import ThreadPoolExecutor

ROOT = os.path.dirname(os.path.dirname(os.path.abspath(__file__)))
PRISTINE = os.path.join(ROOT, 'repo-src') if os.path.isdir(os.path.join(ROOT, 'repo-src')) else os.environ.get('KESTREL_REPO', '/repo')
MAIN, CMDS = 'src/cli/src/main.rs', 'src/cli/src/commands.rs'
TOUCH = [MAIN, CMDS, 'src/cli/src/errors.rs']
TRANSLATOR = os.path.join(ROOT, 'tools', 'rs2lean_cli.py')
GENERATED = os.path.join('KestrelModel', 'GeneratedCli.lean')
MODULES = ['KestrelProofs.CliSrc', 'KestrelProps.CliSrc', 'KestrelProofs.CliCmdSrc', 'KestrelProps.CliCmdSrc',
           'KestrelProofs.CliStreamSrc', 'KestrelProps.CliStreamSrc', 'KestrelProofs.CliGenKeySrc', 'KestrelProps.CliGenKeySrc',
           'KestrelProofs.CliFullSrc', 'KestrelProps.CliFullSrc']

# ---------------------------------------------------------------------------------------------- hand-made edits
# (name, kind, seeded patches applied first, [(file, old, new, number of occurrences expected)], what it is)
#   kind: 'harmless' | 'breaking' (refusal or failing proof) | 'breaking-proof' (must be caught by a failing proof)

FREE_BLOCK = '''    if matches.free.len() > 1 {
        return Err("Invalid usage".to_string());
    }
'''
HELPER = '''
fn at_most_one_free(matches: &getopts::Matches) -> Result<(), String> {
    if matches.free.len() > 1 {
        return Err("Invalid usage".to_string());
    }

    Ok(())
}
'''
INFILE_ENC = '''    let infile = if matches.free.len() == 1 {
        Some(matches.free[0].clone())
    } else {
        None
    };

    let to = matches.opt_str("t").unwrap();
    let from'''

HAND = [
    # ---- the rows of the first version of this test
    ('X1-alias-dec-removed', 'breaking', [], [(MAIN, '"dec" | "decrypt" => {\n            let args = slice_args(&args, 2);', '"decrypt" => {\n            let args = slice_args(&args, 2);', 1)],
     'alias `dec` removed from try_main'),
    ('X2-reqopt-t-to-optopt', 'breaking', [], [(MAIN, 'decrypt_opts.reqopt("t", "to", "Recipient key name", "NAME");', 'decrypt_opts.optopt("t", "to", "Recipient key name", "NAME");', 1)],
     '`-t` of decrypt no longer required'),
    ('X3-free-len-ge-1', 'breaking', [], [(MAIN, 'if matches.free.len() > 1 {', 'if matches.free.len() >= 1 {', 4)], '`> 1` -> `>= 1` in the free-argument test'),
    ('X4-env-pass-true', 'breaking', [], [(MAIN, 'let env_pass = matches.opt_present("env-pass");', 'let env_pass = true;', 7)], '`--env-pass` always on'),
    ('X5-help-only-args1', 'breaking', [], [(MAIN, 'if args.len() <= 1 || args.contains(&"--help") || args.contains(&"-h") {', 'if args.len() <= 1 || args[1] == "--help" || args[1] == "-h" {', 1)],
     'help only as the first argument'),
    ('X6-gen-alias-to-ChangePass', 'breaking', [], [(MAIN, '"gen" | "generate" => {', '"generate" => {', 1), (MAIN, '"change-pass" => {', '"gen" | "change-pass" => {', 1)],
     'alias `gen` moved to change-pass'),
    ('H1-rename-locals', 'harmless', [],
     [(MAIN, 'encrypt_opts', 'eopts', 13),
      (MAIN, INFILE_ENC, INFILE_ENC.replace('let infile =', 'let input_file ='), 1),
      (MAIN, '    Ok(EncryptOptions {\n        infile,', '    Ok(EncryptOptions {\n        infile: input_file,', 1)],
     'locals of parse_encrypt renamed'),
    ('H2-free-check-into-helper', 'harmless', [], [(MAIN, FREE_BLOCK, '    at_most_one_free(&matches)?;\n', 4), (MAIN, '\nfn parse_key(', HELPER + '\nfn parse_key(', 1)],
     'the free-argument test extracted into a helper'),
    # ---- harmless: hand-made uses of the constructs of the second batch (matches!, slice patterns, guards on a binding)
    ('H3-matches-slice', 'harmless', [], [(MAIN, 'if args.is_empty() {\n        return Err("Invalid usage".to_string());\n    }\n\n    match args[0] {\n        "gen"',
                                           'if matches!(args, []) {\n        return Err("Invalid usage".to_string());\n    }\n\n    match args[0] {\n        "gen"', 1)],
     'parse_key tests for no arguments with `matches!(args, [])`'),
    ('H4-matches-guard', 'harmless', [], [(MAIN, 'if args.is_empty() {\n        return Err("Invalid usage".to_string());\n    }\n\n    match args[0] {\n        "gen"',
                                           'if matches!(args.len(), n if n < 1) {\n        return Err("Invalid usage".to_string());\n    }\n\n    match args[0] {\n        "gen"', 1)],
     'parse_key tests for no arguments with `matches!(args.len(), n if n < 1)`'),
    # ---- breaking: a mistake inside each construct the translator accepts since the second batch -- each must be caught BY A PROOF
    ('X7-b6-guard-arms-swapped', 'breaking-proof', ['B7-b6'],
     [(CMDS, 'None if isatty(Stream::Stdin) => Err(anyhow!("Please specify an input file.")),\n        None => Ok(Box::new(std::io::stdin())),',
       'None if isatty(Stream::Stdin) => Ok(Box::new(std::io::stdin())),\n        None => Err(anyhow!("Please specify an input file.")),', 1)],
     'B7-b6 (match guards) with the bodies of the guarded arm and of its fall-through arm exchanged'),
    ('X8-b6-guard-on-wrong-arm', 'breaking', ['B7-b6'],
     [(CMDS, 'Some(p) => Ok(Box::new(OnDemandFile::new(p))),', 'Some(p) if is_text => Ok(Box::new(OnDemandFile::new(p))),\n        Some(_) => Err(anyhow!("Please specify an output file.")),', 1)],
     'B7-b6 with a guard on the `Some` arm of open_output: a named output file is refused for binary output'),
    ('X9-b5-tuple-component-negated', 'breaking-proof', ['B7-b5'], [(CMDS, '(Box::new(file), already_exists)', '(Box::new(file), !already_exists)', 1)],
     'B7-b5 (tuple pattern in `let`) yielding the wrong second component: a new keyring file starts with a newline'),
    ('X10-b5-tuple-arms-swapped', 'breaking-proof', ['B7-b5'],
     [(CMDS, 'let (mut keyring, leading_newline): (Box<dyn Write>, bool)', 'let (mut keyring, _unused): (Box<dyn Write>, bool)', 1),
      (CMDS, 'let key_output = if leading_newline {', 'let leading_newline = false;\n    let key_output = if leading_newline {', 1)],
     'B7-b5 ignoring the destructured flag: a key appended to an existing keyring is not set off by a newline'),
    ('X11-b2-map-wrong-constructor', 'breaking-proof', ['B8-b2'], [(MAIN, 'parse_pass_encrypt(args).map(PasswordCommand::Encrypt)', 'parse_pass_encrypt(args).map(PasswordCommand::Decrypt)', 1)],
     'B8-b2 (`.map(Constructor)`) wrapping the options of `password encrypt` as a Decrypt command'),
    ('X12-b2-map_err-swallows', 'breaking-proof', ['B8-b2'],
     [(MAIN, 'let matches = gen_opts.parse(args).map_err(|e| e.to_string())?;', 'let matches = gen_opts.parse(slice_args(args, 1)).map_err(|e| e.to_string())?;', 1)],
     'B8-b2 whose `key generate` parses the arguments cut once more'),
    ('X13-b1-slice-pattern-drops-file', 'breaking-proof', ['B8-b1'], [(MAIN, '[infile] => Ok(Some(infile.clone())),', '[_infile] => Ok(None),', 1)],
     'B8-b1 (slice patterns) whose one-element arm forgets the input file'),
    ('X14-b1-slice-pattern-two-files', 'breaking', ['B8-b1'], [(MAIN, '[infile] => Ok(Some(infile.clone())),', '[infile] | [infile, _] => Ok(Some(infile.clone())),', 1)],
     'B8-b1 accepting two free arguments (an or-pattern that binds: refused, or a failing proof)'),
    ('X15-b3-get-wrong-split', 'breaking-proof', ['B8-b3'], [(MAIN, 'args.get(idx..).unwrap_or(&[])', 'args.get(idx + 1..).unwrap_or(&[])', 1)],
     'B8-b3 (`slice::get(range)` / `unwrap_or`) cutting one argument too many'),
    ('X16-b3-collect-ignores-non-utf8', 'breaking-proof', ['B8-b3'],
     [(MAIN, '.map(str::to_string)\n                .ok_or_else(|| anyhow!("Arguments must be valid UTF-8"))', '.map(str::to_string)\n                .ok_or_else(|| anyhow!("Arguments must be valid"))', 1)],
     'B8-b3 (`collect` into a Result) with another error for an argument that is not UTF-8'),
    ('X17-b3-const-wrong', 'breaking-proof', ['B7-b3'], [(CMDS, 'const ENV_PASSWORD: &str = "KESTREL_PASSWORD";', 'const ENV_PASSWORD: &str = "KESTREL_NEW_PASSWORD";', 1)],
     'B7-b3 (named constants) whose password variable is the one for the new password'),
    ('X18-b3-nested-pattern-swapped', 'breaking-proof', ['B7-b3'],
     [(CMDS, 'match std::env::var(ENV_KEYRING) {\n            Ok(loc) => PathBuf::from(loc),\n            Err(std::env::VarError::NotPresent) => {\n                return Err(anyhow!(\n                    "Specify a keyring with -k or set the KESTREL_KEYRING env var"\n                ));\n            }',
       'match std::env::var(ENV_KEYRING) {\n            Ok(loc) => PathBuf::from(loc),\n            Err(std::env::VarError::NotPresent) => PathBuf::from("keyring.txt"),', 1)],
     'B7-b3 (nested `Err(VarError::..)` patterns) falling back to a default keyring file when the variable is not set'),
    ('X19-b1-helper-ne', 'breaking-proof', ['B7-b1'], [(CMDS, '        if infile == outfile {\n            return Err(anyhow!("Input and output files must be different."));', '        if infile != outfile {\n            return Err(anyhow!("Input and output files must be different."));', 1)],
     'B7-b1 whose helper refuses DIFFERENT paths'),
    ('X20-matches-slice-one', 'breaking-proof', [], [(MAIN, 'if args.is_empty() {\n        return Err("Invalid usage".to_string());\n    }\n\n    match args[0] {\n        "gen"',
                                           'if matches!(args, [_]) {\n        return Err("Invalid usage".to_string());\n    }\n\n    match args[0] {\n        "gen"', 1)],
     'H3 with the pattern `[_]`: `key gen` without options is refused (and no arguments index out of range)'),
    ('X21-matches-guard-lt-2', 'breaking-proof', [], [(MAIN, 'if args.is_empty() {\n        return Err("Invalid usage".to_string());\n    }\n\n    match args[0] {\n        "gen"',
                                           'if matches!(args.len(), n if n < 2) {\n        return Err("Invalid usage".to_string());\n    }\n\n    match args[0] {\n        "gen"', 1)],
     'H4 with the guard `n < 2`'),
    ('X22-b4-loop-guard-never', 'breaking-proof', ['B7-b4'], [(CMDS, 'if env_pass || !passterm::isatty(Stream::Stdin) {', 'if env_pass && passterm::isatty(Stream::Stdin) {', 2)],
     'B7-b4 (restructured unlock loops) whose early return is never taken: with --env-pass the same wrong password is tried again and again'),
    ('X23-b5-separator-swapped', 'breaking-proof', ['B7-b5'], [(CMDS, 'let separator = if isatty(Stream::Stdout) { "\\n" } else { "" };', 'let separator = if isatty(Stream::Stdout) { "" } else { "\\n" };', 1)],
     'B7-b5 whose change-pass separator has its branches exchanged'),
    ('X24-b5-hoisted-rest-wrong-index', 'breaking-proof', ['B8-b5'], [(MAIN, 'let rest = slice_args(&args, 2);', 'let rest = slice_args(&args, 1);', 1)],
     'B8-b5 (hoisted `slice_args`) cutting at the wrong position'),
]

# rows whose expected outcome is not the default one: name -> (expected prefix of the outcome, reason)
#   outcomes: 'accepted' (translates and builds), 'refused', 'proof' (translates, a proof fails), 'unchanged' (the generated file is
#   the committed one: the change is outside the translated part)
KNOWN = {
    'C08-m3': ('accepted', 'the changed `eprintln!` is in the branch of the unlock loop that asks again on a terminal; no terminal is attached in the setting of the '
                           'model (RsCli.isatty = false), so the translated function is equal on every state of the model (the change is caught by the differential harness)'),
    'B8-b4': ('refused', 'KNOWN REFUSAL: `let command: fn(PasswordOptions) -> PasswordCommand = match .. { .. => PasswordCommand::Encrypt, .. }` needs function-typed '
                         'values (not in the subset); and the patch removes parse_pass_encrypt / parse_pass_decrypt, which cli_source_parse_pass_encrypt / _decrypt name'),
}

# ---------------------------------------------------------------------------------------------- machinery


def sh(cmd, cwd, env=None, timeout=3600):
    p = subprocess.run(cmd, cwd=cwd, env=env, stdout=subprocess.PIPE, stderr=subprocess.STDOUT, timeout=timeout)
    return p.returncode, p.stdout.decode('utf-8', 'replace')


def files_of_patch(path):
    out = set()
    with open(path, encoding='utf-8', errors='replace') as f:
        for line in f:
            m = re.match(r'^(?:\+\+\+|---) [ab]/(\S+)', line)
            if m: out.add(m.group(1))
    return out


def apply_patch(patch, tree):
    rc, out = sh(['patch', '-p1', '-s', '-f', '--no-backup-if-mismatch', '-i', patch], tree)
    if rc != 0:
        raise RuntimeError(f'patch does not apply: {out.strip()[:200]}')


def first_error(out):
    lines = out.splitlines()
    for l in lines:
        m = re.match(r'^error: (\S+\.lean):(\d+):(\d+): (.*)$', l)
        if m:
            return f'{"/".join(m.group(1).split("/")[-2:])}:{m.group(2)}: {m.group(4)[:70]}'
    for l in lines:
        if 'error' in l: return l.strip()[:110]
    return (lines[-1].strip()[:110] if lines else '?')


def decl_at(lean_file, lineno):
    """name of the declaration containing the line (for the table)"""
    try:
        with open(lean_file, encoding='utf-8') as f: ls = f.read().split('\n')
    except OSError:
        return ''
    pat = re.compile(r'^(?:@\[[^\]]*\]\s*)?(?:private\s+)?(theorem|lemma|def|example|instance|abbrev)\b\s*(\S*)')
    i = min(lineno, len(ls)) - 1
    rng = range(i, min(i + 12, len(ls))) if ls[i].lstrip().startswith('/-') else range(i, -1, -1)
    for j in rng:
        m = pat.match(ls[j])
        if m: return 'example' if m.group(1) == 'example' else m.group(2)
    return ''


class Case:
    def __init__(self, name, kind, patches, edits, what):
        self.name, self.kind, self.patches, self.edits, self.what = name, kind, patches, edits, what
        self.translate = self.build = self.verdict = self.outcome = ''
        self.ok = False
        self.secs = 0.0


def run_case(case, tmp, workers):
    t0 = time.time()
    tree = os.path.join(tmp, 'repo-' + case.name)
    try:
        os.makedirs(os.path.join(tree, 'src'))
        shutil.copytree(os.path.join(PRISTINE, 'src', 'cli'), os.path.join(tree, 'src', 'cli'))
        for p in case.patches:
            pd = os.path.join(ROOT, 'seeded', p, 'patch.diff')
            # only the part of the patch that is about the CLI crate (the other crates are not copied)
            with open(pd, encoding='utf-8', errors='replace') as f: text = f.read()
            parts = re.split(r'(?m)^(?=diff --git )', text)
            keep = ''.join(x for x in parts if re.match(r'diff --git a/src/cli/', x))
            part = os.path.join(tree, f'{p}.diff')
            with open(part, 'w', encoding='utf-8') as f: f.write(keep)
            apply_patch(part, tree)
        for rel, old, new, count in case.edits:
            path = os.path.join(tree, rel)
            with open(path, encoding='utf-8') as f: text = f.read()
            if text.count(old) != count:
                raise RuntimeError(f'edit `{old.strip()[:40]}` matches {text.count(old)} times, expected {count}')
            text = text.replace(old, new)
            with open(path, 'w', encoding='utf-8') as f: f.write(text)
    except Exception as ex:
        case.translate, case.verdict, case.outcome = f'SETUP ERROR: {ex}', 'ERROR', 'error'
        return case
    w = workers.get()
    try:
        gen = os.path.join(w, GENERATED)
        committed = os.path.join(ROOT, 'lean', GENERATED)
        shutil.copyfile(committed, gen)
        rc, out = sh([sys.executable, TRANSLATOR, '--repo', tree, '--out', gen], ROOT)
        if rc == 3:
            msg = out.strip().split('unsupported construct', 1)[-1].strip()
            case.translate, case.build, case.outcome = f'refused(3): {msg[:120]}', '-', 'refused'
        elif rc != 0:
            case.translate, case.build, case.outcome = f'EXIT {rc}: {out.strip()[-100:]}', '-', 'error'
        else:
            case.translate = 'ok'
            with open(gen, 'rb') as f1, open(committed, 'rb') as f2:
                same = f1.read() == f2.read()
            if case.name == 'base':
                case.translate = 'ok, = committed file' if same else 'ok, DIFFERS from the committed file'
            elif same:
                case.translate = 'ok, generated file unchanged'
            rc2, out2 = sh(['lake', 'build'] + MODULES, w)
            if rc2 == 0:
                case.build = 'ok'
                case.outcome = 'unchanged' if same and case.name != 'base' else 'accepted'
            else:
                fe = first_error(out2)
                m = re.match(r'^(\S+\.lean):(\d+): ', fe)
                where = ''
                if m and os.path.exists(os.path.join(w, m.group(1))):
                    d = decl_at(os.path.join(w, m.group(1)), int(m.group(2)))
                    if d: where = f' [{d}]'
                case.build = f'FAILS{where}: {fe}'
                case.outcome = 'proof'
    finally:
        workers.put(w)
    if not os.environ.get('SELFTEST_KEEP'): shutil.rmtree(tree, ignore_errors=True)
    if case.name in KNOWN:
        want = KNOWN[case.name][0]
        case.ok = case.outcome == want
        case.verdict = f'ok (known: {want})' if case.ok else f'NOT AS KNOWN ({want})'
    elif case.kind == 'harmless':
        case.ok = case.outcome in ('accepted', 'unchanged') and 'DIFFERS' not in case.translate
        case.verdict = 'ok (accepted)' if case.ok else 'FALSE ALARM'
    elif case.kind == 'breaking-proof':
        case.ok = case.outcome == 'proof'
        case.verdict = 'ok (caught by a proof)' if case.ok else ('REFUSED, not caught by a proof' if case.outcome == 'refused' else 'NOT CAUGHT')
    else:
        case.ok = case.outcome in ('refused', 'proof')
        case.verdict = 'ok (caught)' if case.ok else ('NOT CAUGHT' if case.outcome in ('accepted', 'unchanged') else 'ERROR')
    case.secs = time.time() - t0
    return case


def main():
    if len(sys.argv) > 1:
        print(__doc__); return 2
    jobs = max(1, int(os.environ.get('SELFTEST_JOBS', '4')))
    only = [s for s in os.environ.get('SELFTEST_ONLY', '').split(',') if s]
    cases = [Case('base', 'harmless', [], [], 'unchanged source')]
    na, nb = [], []
    for d in sorted(os.listdir(os.path.join(ROOT, 'seeded'))):
        p = os.path.join(ROOT, 'seeded', d, 'patch.diff')
        m = re.match(r'^([BC])\d+-[bm]\d+$', d)
        if not m or not os.path.exists(p): continue
        touches = bool(files_of_patch(p) & set(TOUCH))
        if m.group(1) == 'B':
            if touches: cases.append(Case(d, 'harmless', [d], [], 'seeded harmless patch'))
            else: nb.append(d)
        elif touches:
            cases.append(Case(d, 'breaking', [d], [], 'seeded breaking patch'))
        else:
            na.append(d)
    for name, kind, patches, edits, what in HAND:
        cases.append(Case(name, kind, patches or [], edits, what))
    if only: cases = [c for c in cases if c.name == 'base' or any(s in c.name for s in only)]
    tmp = tempfile.mkdtemp(prefix='.selftest_cli_', dir=ROOT)
    t0 = time.time()
    try:
        workers = queue.Queue()
        for i in range(min(jobs, len(cases))):
            w = os.path.join(tmp, f'lean-{i}')
            shutil.copytree(os.path.join(ROOT, 'lean'), w, symlinks=True)
            workers.put(w)
        with ThreadPoolExecutor(max_workers=jobs) as ex:
            done = list(ex.map(lambda c: run_case(c, tmp, workers), cases))
    finally:
        if os.environ.get('SELFTEST_KEEP'): print(f'scratch directory kept: {tmp}')
        else: shutil.rmtree(tmp, ignore_errors=True)
    wn = max(len(c.name) for c in done)
    print(f'{"patch".ljust(wn)} | kind           | verdict                | translate / build')
    print('-' * (wn + 70))
    for c in done:
        detail = c.translate if c.build in ('-', '') else f'translates; build {c.build}' if c.translate == 'ok' else f'{c.translate}; build {c.build}'
        print(f'{c.name.ljust(wn)} | {c.kind.ljust(14)} | {c.verdict.ljust(22)} | {detail}  ({c.secs:.0f} s)')
    bad = [c for c in done if not c.ok]
    h = [c for c in done if c.kind == 'harmless']
    b = [c for c in done if c.kind != 'harmless']
    print('-' * (wn + 70))
    for n, (want, why) in sorted(KNOWN.items()):
        if any(c.name == n for c in done): print(f'known: {n} -> {want}: {why}')
    print(f'not applicable (diff does not touch {", ".join(TOUCH)}): {len(na)} seeded breaking patches, {len(nb)} seeded harmless patches')
    print(f'harmless accepted: {sum(c.outcome in ("accepted", "unchanged") for c in h)}/{len(h)}   '
          f'breaking caught: {sum(c.outcome in ("refused", "proof") for c in b)}/{len(b)} '
          f'(by a proof: {sum(c.outcome == "proof" for c in b)}, refused: {sum(c.outcome == "refused" for c in b)})   '
          f'rows as expected: {sum(c.ok for c in done)}/{len(done)}   ({time.time() - t0:.0f} s, {jobs} workers)')
    if bad:
        print('NOT AS EXPECTED: ' + ', '.join(c.name for c in bad))
        return 1
    print('all rows as expected')
    return 0


if __name__ == '__main__':
    sys.exit(main())
