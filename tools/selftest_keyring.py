#!/usr/bin/env python3
"""
selftest_keyring.py -- robustness / sensitivity regression test of the keyring translation.

For a list of HARMLESS changes of src/cli/src/keyring.rs the translator tools/rs2lean_keyring.py must still translate (exit 0)
and the equality proofs (KestrelProofs.KeyringSrc, KestrelProps.KeyringSrc) must still build; for a list of BREAKING changes the
translator must refuse (exit 3) or the proofs must fail to build.  Takes no arguments; standard library only.

  * the changes are: every seeded/B*-b*/patch.diff (harmless: B6-b1 .. b6) and every seeded/C*-m*/patch.diff (breaking) whose diff
    touches keyring.rs (the others are counted as "not applicable"), and the hand-made edits listed in HAND below (text substitutions; some of them
    are applied on top of a seeded harmless patch: "a harmless rewrite with a mistake in it");
  * every change is applied to a scratch copy of repo-src/, translated with KESTREL_REPO=<scratch> into a scratch copy of the lake
    project (lean/ with its build directory, one copy per worker), and built there with `lake build <modules>`;
  * everything lives in a temporary directory created inside this working copy and removed at the end; repo-src/ and the
    committed lean/ (incl. lean/KestrelModel/GeneratedKeyring.lean) are only read;
  * for `base` and the seeded harmless patches the modules that use the generated keyring functions (KestrelProps.Source and the
    KestrelProps.Cli*Src modules) are built as well (SELFTEST_DOWNSTREAM=0 switches that off);
  * row `base` is the unchanged source: it must translate to exactly the committed generated file and build -- without it a
    broken proof file would make every breaking row "fail to build" for the wrong reason;
  * exit status 0 iff every row is as expected.   Environment: SELFTEST_JOBS=<n> workers (default 4), SELFTEST_KEEP=1 keeps the
    scratch directory, SELFTEST_ONLY=<substring,substring> runs only the rows whose name contains one of the substrings.
"""
import os, re, shutil, subprocess, sys, tempfile, threading, time, queue
from concurrent.futures import ThreadPoolExecutor

ROOT = os.path.dirname(os.path.dirname(os.path.abspath(__file__)))
# the pristine Rust sources: repo-src/ inside a development copy, otherwise $KESTREL_REPO, otherwise /repo (only read, copied to a scratch directory)
PRISTINE = os.path.join(ROOT, 'repo-src') if os.path.isdir(os.path.join(ROOT, 'repo-src')) else os.environ.get('KESTREL_REPO', '/repo')
REL = 'src/cli/src/keyring.rs'                       # the translated file(s)
TRANSLATED = [REL]
TRANSLATOR = os.path.join(ROOT, 'tools', 'rs2lean_keyring.py')
GENERATED = os.path.join('KestrelModel', 'GeneratedKeyring.lean')
MODULES = ['KestrelProofs.KeyringSrc', 'KestrelProps.KeyringSrc']
# the modules that USE the generated keyring functions (the capstone and the translated CLI): built as well for the seeded harmless patches
DOWNSTREAM = ['KestrelProps.Source', 'KestrelProps.CliSrc', 'KestrelProps.CliCmdSrc', 'KestrelProps.CliFullSrc', 'KestrelProps.CliGenKeySrc',
              'KestrelProps.CliStreamSrc']

# ---------------------------------------------------------------------------------------------- hand-made edits
# (name, kind, seeded patch applied first or None, [(old, new, number of occurrences expected)], what it is)

DUP_PK_TEST = '''
            if k.public_key.as_str() == key_public.unwrap().as_str() {
                return Err(KeyringError::ParseConfig(format!(
                    "Found duplicate public key: {}",
                    k.public_key.as_str()
                )));
            }
'''
DUP_LOOP = '''        for k in keys.iter() {
            if &k.name == key_name.unwrap() {
                return Err(KeyringError::ParseConfig(format!(
                    "Found duplicate name: {}",
                    &k.name
                )));
            }
''' + DUP_PK_TEST + '''        }
'''
DUP_ANY = '''        if keys
            .iter()
            .any(|k| &k.name == key_name.unwrap() || k.public_key.as_str() == key_public.unwrap().as_str())
        {
            return Err(KeyringError::ParseConfig(
                "Found duplicate name or public key".into(),
            ));
        }
'''
DUP_ANY_NAME_ONLY = '''        if keys.iter().any(|k| &k.name == key_name.unwrap()) {
            return Err(KeyringError::ParseConfig("Found duplicate name".into()));
        }
'''
DUP_ANY_TWO = '''        if keys.iter().any(|k| &k.name == key_name.unwrap()) {
            return Err(KeyringError::ParseConfig("Found duplicate name".into()));
        }
        if keys.iter().any(|k| k.public_key.as_str() == key_public.unwrap().as_str()) {
            return Err(KeyringError::ParseConfig("Found duplicate public key".into()));
        }
'''
FINAL_ADD = '''        } else {
            Keyring::add_key(
                &mut keys,
                key_name.as_ref(),
                key_public.as_ref(),
                key_private.as_ref(),
            )?;
        }
'''
DECL_NAME = '        let mut key_name: Option<String> = None;\n'
DECL_PUBLIC = '        let mut key_public: Option<EncodedPk> = None;\n'
DECL_PRIVATE = '        let mut key_private: Option<EncodedSk> = None;\n'
DECL_FOUND = '        let mut key_found = false;\n'

PK_MATCH = '''        match Base64::decode_to_vec(s, None) {
            Ok(s) => {
                if s.len() != 36 {
                    return Err("Invalid Public Key length");
                }
            }
            Err(_) => {
                return Err("Invalid Public Key format");
            }
        }

        Ok(EncodedPk(s.into()))
'''
PK_QMARK = '''        let bytes = Base64::decode_to_vec(s, None).map_err(|_| "Invalid Public Key format")?;
        if bytes.len() != 36 {
            return Err("Invalid Public Key length");
        }

        Ok(EncodedPk(s.into()))
'''
VALID_BODY = '''        if name.is_empty() || name.len() > MAX_NAME_SIZE {
            return false;
        }

        // The parser removes every tab from a line, so a name containing
        // one could not be read back from the keyring.
        if name.contains('\\t') {
            return false;
        }

        true
'''
VALID_EXPR = '''        // The parser removes every tab from a line, so a name containing
        // one could not be read back from the keyring.
        !name.is_empty() && name.len() <= MAX_NAME_SIZE && !name.contains('\\t')
'''
GET_KEY_FIND = "        self.keys.iter().find(|&key| key.name.as_str() == name)\n"
GET_KEY_LOOP = '''        for key in self.keys.iter() {
            if key.name.as_str() == name {
                return Some(key);
            }
        }
        None
'''
KEY_BRANCH = '''                if key_found {
                    if key_name.is_none() {
                        return Err(KeyringError::ParseConfig("Key must have a Name".into()));
                    } else if key_public.is_none() {
                        return Err(KeyringError::ParseConfig(
                            "Key must have a PublicKey".into(),
                        ));
                    } else {
                        Keyring::add_key(
                            &mut keys,
                            key_name.as_ref(),
                            key_public.as_ref(),
                            key_private.as_ref(),
                        )?;
                        key_name = None;
                        key_public = None;
                        key_private = None;
                    }
                }
'''
KEY_BRANCH_FLAT = '''                if key_found {
                    if key_name.is_none() {
                        return Err(KeyringError::ParseConfig("Key must have a Name".into()));
                    }
                    if key_public.is_none() {
                        return Err(KeyringError::ParseConfig(
                            "Key must have a PublicKey".into(),
                        ));
                    }
                    Keyring::add_key(
                        &mut keys,
                        key_name.as_ref(),
                        key_public.as_ref(),
                        key_private.as_ref(),
                    )?;
                    key_name = None;
                    key_public = None;
                    key_private = None;
                }
'''
ADD_TAIL = DUP_LOOP + '''
        let key = Key {
            name: key_name.unwrap().clone(),
            public_key: key_public.unwrap().clone(),
            private_key: key_private.map(|k| k.to_owned()),
        };
'''
ADD_TAIL_HOISTED = '''        let name = key_name.unwrap();
        let public = key_public.unwrap();
        for k in keys.iter() {
            if &k.name == name {
                return Err(KeyringError::ParseConfig(format!(
                    "Found duplicate name: {}",
                    &k.name
                )));
            }

            if k.public_key.as_str() == public.as_str() {
                return Err(KeyringError::ParseConfig(format!(
                    "Found duplicate public key: {}",
                    k.public_key.as_str()
                )));
            }
        }

        let key = Key {
            name: name.clone(),
            public_key: public.clone(),
            private_key: key_private.map(|k| k.to_owned()),
        };
'''
ENC_ARRAY = '''        let mut encoded = [0u8; 36];
        encoded[..32].copy_from_slice(pk);
        encoded[32..].copy_from_slice(&checksum[..4]);
'''
ENC_VEC = '''        let mut encoded = Vec::with_capacity(36);
        encoded.extend_from_slice(pk);
        encoded.extend_from_slice(&checksum[..4]);
'''
NAME_MATCH = '''                let name = match cleaned_line.split_once('=') {
                    Some((_, n)) => n.trim(),
                    None => {
                        return Err(KeyringError::ParseConfig(
                            "Name must be set to something".into(),
                        ))
                    }
                };
'''
NAME_LET_ELSE = '''                let Some((_, n)) = cleaned_line.split_once('=') else {
                    return Err(KeyringError::ParseConfig(
                        "Name must be set to something".into(),
                    ));
                };
                let name = n.trim();
'''
NAME_LOOP = '''        for key in &self.keys {
            if key.public_key.as_str() == pk.as_str() {
                return Some(key.name.clone());
            }
        }
        None
'''
NAME_IF_LET = '''        if let Some(key) = self.keys.iter().find(|key| key.public_key.as_str() == pk.as_str()) {
            return Some(key.name.clone());
        }
        None
'''
DERIVE_KEY = '''    /// The key a private key is locked under.
    fn derive_key(password: &[u8], salt: &[u8]) -> Zeroizing<Vec<u8>> {
        Zeroizing::new(kestrel_crypto::scrypt(password, salt, SCRYPT_N, SCRYPT_R, SCRYPT_P, 32))
    }

    /// Decrypt a private key.
'''
SELF_EDITS = [('Ok(EncodedPk(s.into()))', 'Ok(Self(s.into()))', 1), ('Ok(EncodedSk(s.into()))', 'Ok(Self(s.into()))', 1),
              ('let keys = Keyring::parse_config(config)?;', 'let keys = Self::parse_config(config)?;', 1),
              ('Ok(Keyring { keys })', 'Ok(Self { keys })', 1), ('Result<Keyring, KeyringError>', 'Result<Self, KeyringError>', 1),
              ('Keyring::add_key(', 'Self::add_key(', 2), ('Keyring::valid_key_name(name)', 'Self::valid_key_name(name)', 1)]
RENAME_STATE = [('key_name', 'cur_name', 15), ('valid_cur_name', 'valid_key_name', 2), ('key_public', 'cur_public', 13), ('key_private', 'cur_private', 8), ('key_found', 'in_section', 7)]
HOIST_DERIVE = [('    /// Decrypt a private key.\n', DERIVE_KEY, 1),
                ('        let key = kestrel_crypto::scrypt(password, &salt, SCRYPT_N, SCRYPT_R, SCRYPT_P, 32);\n        let key = Zeroizing::new(key);\n',
                 '        let key = Keyring::derive_key(password, &salt);\n', 1),
                ('        let key = kestrel_crypto::scrypt(password, salt, SCRYPT_N, SCRYPT_R, SCRYPT_P, 32);\n        let key = Zeroizing::new(key);\n',
                 '        let key = Keyring::derive_key(password, salt);\n', 1)]

# ---- `let (a, b) = match (x, y) { (P, Q) => (v, w), .. => { return .. } };` (seeded/B6-b4) and `let (a, b) = if c { .. } else { .. };`
B4_PK_ARM = '''            (Some(_), None) => {
                return Err(KeyringError::ParseConfig(
                    "Key must have a PublicKey".into(),
                ));
            }
'''
DEC_LEN_AND_SPLIT = '''        if enc_pk_bytes.len() < PUBLIC_KEY_LEN {
            return Err(KeyringError::PublicKeyLength);
        }
        let pk = &enc_pk_bytes[..32];
        let checksum = &enc_pk_bytes[32..];
'''
DEC_LET_IF_RETURN = '''        let (pk, checksum) = if enc_pk_bytes.len() < PUBLIC_KEY_LEN {
            return Err(KeyringError::PublicKeyLength);
        } else {
            enc_pk_bytes.split_at(32)
        };
'''
DEC_SPLIT = '''        let pk = &enc_pk_bytes[..32];
        let checksum = &enc_pk_bytes[32..];
'''
DEC_LET_IF_PURE = '''        let (pk, checksum) = if enc_pk_bytes.len() == 36 {
            enc_pk_bytes.split_at(32)
        } else {
            (&enc_pk_bytes[..32], &enc_pk_bytes[32..])
        };
'''

HAND = [
    # ---- harmless, in the spirit of seeded/B*
    ('H1-rename-cleaned_line', 'harmless', None, [('cleaned_line', 'stripped', 13)],
     'local `cleaned_line` of parse_config renamed'),
    ('H2-reorder-decls', 'harmless', None, [(DECL_NAME + DECL_PUBLIC, DECL_PUBLIC + DECL_NAME, 1)],
     'declarations `let mut key_name` / `let mut key_public` of parse_config exchanged'),
    ('H3-any-for-dup-loop', 'harmless', None, [(DUP_LOOP, DUP_ANY, 1)],
     'duplicate loop of add_key written as `if keys.iter().any(|k| ..)`'),
    ('H4-reorder-all-decls', 'harmless', None,
     [(DECL_NAME + DECL_PUBLIC + DECL_PRIVATE + DECL_FOUND, DECL_FOUND + DECL_PRIVATE + DECL_PUBLIC + DECL_NAME, 1),
      ('        let mut keys = Vec::<Key>::new();\n\n', '', 1),
      ('        for line in config.lines() {', '        let mut keys = Vec::<Key>::new();\n        for line in config.lines() {', 1)],
     'all five loop variables of parse_config declared in the opposite order'),
    ('H5-two-any', 'harmless', None, [(DUP_LOOP, DUP_ANY_TWO, 1)],
     'duplicate loop of add_key written as two `if keys.iter().any(..)` (same class of error)'),
    ('H6-b1+b2+b3', 'harmless', ['B6-b1', 'B6-b2', 'B6-b3'], [], 'the three seeded harmless patches together'),
    # ---- harmless: further rewrites in the same spirit (clippy `use_self`, `match` -> `?`, tail expressions, loops <-> iterators,
    #      renamed / hoisted locals, flattened `else if`, let-else, if-let, split_at, extracted helper with a `Zeroizing` result)
    ('H7-use-self', 'harmless', None, SELF_EDITS, '`Self` for the own type in constructors, paths and the return type'),
    ('H8-try_from-question-mark', 'harmless', None, [(PK_MATCH, PK_QMARK, 1)], '`match` of EncodedPk::try_from written with `map_err(..)?`'),
    ('H9-valid_key_name-expression', 'harmless', None, [(VALID_BODY, VALID_EXPR, 1)], 'valid_key_name as one boolean expression'),
    ('H10-get_key-loop', 'harmless', None, [(GET_KEY_FIND, GET_KEY_LOOP, 1)], 'get_key as a `for` loop with early return'),
    ('H11-rename-state-vars', 'harmless', None, RENAME_STATE, 'the loop variables of parse_config (and parameters of add_key) renamed'),
    ('H12-flattened-else-if', 'harmless', None, [(KEY_BRANCH, KEY_BRANCH_FLAT, 1)], '`else if` / `else` after returning branches flattened'),
    ('H13-hoisted-unwraps', 'harmless', None, [(ADD_TAIL, ADD_TAIL_HOISTED, 1)], 'the `unwrap()`s of add_key hoisted out of the loop'),
    ('H14-encode-with-vec', 'harmless', None, [(ENC_ARRAY, ENC_VEC, 1)], 'encode_public_key builds a Vec instead of filling an array'),
    ('H15-let-else', 'harmless', None, [(NAME_MATCH, NAME_LET_ELSE, 1)], '`match .. { Some(..) => .., None => return }` as `let .. else`'),
    ('H16-if-let', 'harmless', None, [(NAME_LOOP, NAME_IF_LET, 1)], 'get_name_from_key with `if let Some(key) = ..find(..)`'),
    ('H17-split_at', 'harmless', None,
     [('        let pk = &enc_pk_bytes[..32];\n        let checksum = &enc_pk_bytes[32..];\n', '        let (pk, checksum) = enc_pk_bytes.split_at(32);\n', 1)],
     'decode_public_key with `split_at`'),
    ('H18-derive_key-helper', 'harmless', None, HOIST_DERIVE, 'the scrypt call of lock / unlock extracted into a helper returning `Zeroizing<Vec<u8>>`'),
    ('H20-reworded-messages', 'harmless', None,
     [('"Invalid Public Key length"', '"Public key has the wrong length"', 1), ('"Could not decode private key"', '"Private key is not base64"', 1),
      ('"Duplicate Name found"', '"Name given twice"', 1)], 'error messages reworded (the class of every error stays)'),
    ('H21-add_key-match-on-pair', 'harmless', None,
     [('''        if key_name.is_none() && key_public.is_some() {
            return Err(KeyringError::ParseConfig("Key must have a Name".into()));
        } else if key_name.is_some() && key_public.is_none() {
            return Err(KeyringError::ParseConfig(
                "Key must have a PublicKey".into(),
            ));
        } else if key_name.is_none() && key_public.is_none() {
            return Err(KeyringError::ParseConfig(
                "Key must have a Name and PublicKey".into(),
            ));
        }
''', '''        match (key_name, key_public) {
            (None, Some(_)) => return Err(KeyringError::ParseConfig("Key must have a Name".into())),
            (Some(_), None) => {
                return Err(KeyringError::ParseConfig(
                    "Key must have a PublicKey".into(),
                ))
            }
            (None, None) => {
                return Err(KeyringError::ParseConfig(
                    "Key must have a Name and PublicKey".into(),
                ))
            }
            (Some(_), Some(_)) => {}
        }
''', 1)], 'the three presence tests of add_key as one `match` on the pair'),
    ('H22-unlock-split_at', 'harmless', None,
     [('''        let version_aad = &key_bytes[..4];
''', '''        let (version_aad, rest) = key_bytes.split_at(4);
''', 1),
      ('''        let salt = &key_bytes[4..36];
        let ciphertext = &key_bytes[36..84];
''', '''        let (salt, ciphertext) = rest.split_at(32);
''', 1)], 'unlock_private_key cuts the blob with `split_at`'),
    ('H23-lock-to_vec', 'harmless', None,
     [('''        let mut encoded_bytes = Vec::<u8>::new();

        encoded_bytes.extend_from_slice(&PRIVATE_KEY_VERSION);
''', '''        let mut encoded_bytes = Vec::with_capacity(PRIVATE_KEY_CT_LEN);
        encoded_bytes.extend_from_slice(&PRIVATE_KEY_VERSION);
''', 1)], 'lock_private_key reserves the buffer with `Vec::with_capacity`'),
    ('H24-inlined-format-arg', 'harmless', None,
     [('"[Key]\\nName = {}\\nPublicKey = {}\\nPrivateKey = {}\\n",\n            name,\n', '"[Key]\\nName = {name}\\nPublicKey = {}\\nPrivateKey = {}\\n",\n', 1)],
     'serialize_key with the inlined format argument `{name}` (clippy uninlined_format_args)'),
    ('H25-try_from-tail-match', 'harmless', None,
     [('''        match Base64::decode_to_vec(s, None) {
            Ok(s) => {
                if s.len() != PRIVATE_KEY_CT_LEN {
                    return Err("Invalid Private Key length");
                }
            }
            Err(_) => {
                return Err("Could not decode private key");
            }
        }

        Ok(EncodedSk(s.into()))
''', '''        match Base64::decode_to_vec(s, None) {
            Ok(bytes) => {
                if bytes.len() == PRIVATE_KEY_CT_LEN {
                    Ok(EncodedSk(s.into()))
                } else {
                    Err("Invalid Private Key length")
                }
            }
            Err(_) => Err("Could not decode private key"),
        }
''', 1)], 'EncodedSk::try_from as one `match` expression (no `return`)'),
    ('H26-valid_key_name-tail-if', 'harmless', None,
     [(VALID_BODY, '''        if name.is_empty() || name.len() > MAX_NAME_SIZE {
            false
        } else {
            // The parser removes every tab from a line, so a name containing
            // one could not be read back from the keyring.
            !name.contains('\\t')
        }
''', 1)], 'valid_key_name as an `if` expression'),
    ('H27-let-if-value', 'harmless', None,
     [('''        let key = Key {
            name: key_name.unwrap().clone(),
            public_key: key_public.unwrap().clone(),
            private_key: key_private.map(|k| k.to_owned()),
        };
''', '''        let private_key = if let Some(sk) = key_private { Some(sk.clone()) } else { None };
        let key = Key {
            name: key_name.unwrap().clone(),
            public_key: key_public.unwrap().clone(),
            private_key,
        };
''', 1)], 'add_key copies the optional private key with an `if let` expression'),
    # ---- the tuple `let` with a `match` / `if` initialiser whose arms yield a tuple or leave the function (seeded/B6-b4 is the harmless use)
    ('H28-let-tuple-if-return', 'harmless', None, [(DEC_LEN_AND_SPLIT, DEC_LET_IF_RETURN, 1)],
     'decode_public_key: length test and split as one `let (pk, checksum) = if short { return Err } else { split_at(32) };`'),
    ('H29-let-tuple-if-pure', 'harmless', None, [(DEC_SPLIT, DEC_LET_IF_PURE, 1)],
     'decode_public_key: `let (pk, checksum) = if c { split_at(32) } else { (&b[..32], &b[32..]) };` (no early exit inside)'),
    ('X38-b4-arm-returns-ok', 'breaking', ['B6-b4'],
     [(B4_PK_ARM, '            (Some(_), None) => {\n                return Ok(());\n            }\n', 1)],
     'B6-b4 whose `(Some(_), None)` arm leaves with `Ok(())`: a section without PublicKey is silently skipped'),
    ('X39-b4-arm-yields-unwrap', 'breaking', ['B6-b4'],
     [(B4_PK_ARM, '            (Some(name), None) => (name, key_public.unwrap()),\n', 1)],
     'B6-b4 whose `(Some(_), None)` arm no longer returns but yields a tuple (`unwrap` of `None`: Rust panics; the totalised model adds a key)'),
    ('X40-b4-wrong-component', 'breaking', ['B6-b4'],
     [('            if &k.name == name {\n', '            if k.name.as_str() == public_key.as_str() {\n', 1)],
     'B6-b4 whose duplicate-name test uses the other component of the destructured pair'),
    ('X41-b4-arms-exchanged', 'breaking', ['B6-b4'],
     [('            (Some(name), Some(public_key)) => (name, public_key),\n            (None, Some(_)) => {\n                return Err(KeyringError::ParseConfig("Key must have a Name".into()));\n            }\n',
       '            (Some(name), Some(public_key)) => {\n                return Err(KeyringError::ParseConfig("Key must have a Name".into()));\n            }\n'
       '            (None, Some(public_key)) => (&public_key.0, public_key),\n', 1)],
     'B6-b4 with the yielding arm and a returning arm exchanged: complete keys are rejected, a key without Name is added under its public key'),
    ('X42-let-tuple-if-swapped', 'breaking', None, [(DEC_LEN_AND_SPLIT, DEC_LET_IF_RETURN.replace('(pk, checksum)', '(checksum, pk)'), 1)],
     'H28 with the components of the tuple pattern exchanged'),
    ('X43-let-tuple-if-branches-exchanged', 'breaking', None,
     [(DEC_LEN_AND_SPLIT, DEC_LET_IF_RETURN.replace('enc_pk_bytes.len() < PUBLIC_KEY_LEN', 'enc_pk_bytes.len() >= PUBLIC_KEY_LEN'), 1)],
     'H28 with the condition negated (the returning and the yielding branch exchanged)'),
    ('X44-let-tuple-if-pure-swapped', 'breaking', None,
     [(DEC_SPLIT, DEC_LET_IF_PURE.replace('(pk, checksum)', '(checksum, pk)'), 1)],
     'H29 with the components of the tuple pattern exchanged'),
    ('X45-b5-split_at-31', 'breaking', ['B6-b5'], [('let (salt, ciphertext) = rest.split_at(32);', 'let (salt, ciphertext) = rest.split_at(31);', 1)],
     'B6-b5 with a 31 byte salt'),
    ('X46-b6-len-lt', 'breaking', ['B6-b6'], [('if decoded.len() != 36 {', 'if decoded.len() < 36 {', 1)], 'B6-b6 with `<` for `!=`'),
    # ---- breaking: the edits of the original robustness test
    ('X1-dup-pk-test-removed', 'breaking', None, [(DUP_PK_TEST, '', 1)], 'duplicate-public-key test of add_key removed'),
    ('X2-name-len-ge', 'breaking', None, [('name.len() > MAX_NAME_SIZE', 'name.len() >= MAX_NAME_SIZE', 1)], '`>` -> `>=`'),
    ('X3-slots-swapped', 'breaking', None,
     [('} else if key_public.is_some() {', '} else if key_PRIVATE.is_some() {', 1),
      ('} else if key_private.is_some() {', '} else if key_public.is_some() {', 1),
      ('key_PRIVATE', 'key_private', 1)],
     '`key_public.is_some()` <-> `key_private.is_some()` in the duplicate-field tests'),
    ('X4a-trim-dropped-name', 'breaking', None, [('Some((_, n)) => n.trim(),', 'Some((_, n)) => n,', 1)], '`.trim()` after split_once dropped (Name)'),
    ('X4b-trim-dropped-pk', 'breaking', None, [('Some((_, pk)) => pk.trim(),', 'Some((_, pk)) => pk,', 1)], '`.trim()` after split_once dropped (PublicKey)'),
    ('X4c-trim-dropped-sk', 'breaking', None, [('Some((_, sk)) => sk.trim(),', 'Some((_, sk)) => sk,', 1)], '`.trim()` after split_once dropped (PrivateKey)'),
    ('X5-Nam', 'breaking', None, [('starts_with("Name")', 'starts_with("Nam")', 1)], '`starts_with("Name")` -> `"Nam"`'),
    ('X6-final-add_key-removed', 'breaking', None, [(FINAL_ADD, '        }\n', 1)], 'final add_key call of parse_config removed'),
    ('X7-36-to-35', 'breaking', None, [('if s.len() != 36 {', 'if s.len() != 35 {', 1)], 'literal 36 -> 35 in EncodedPk::try_from'),
    ('X8-key_found-dropped', 'breaking', None, [('                key_found = true;\n', '', 1)], '`key_found = true;` dropped'),
    # ---- breaking: mistakes inside the harmless rewrites (sensitivity of whatever makes the harmless ones pass)
    ('X9-any-name-only', 'breaking', None, [(DUP_LOOP, DUP_ANY_NAME_ONLY, 1)], 'H3 without the public-key half'),
    ('X10-found-starts-true', 'breaking', None, [(DECL_FOUND, '        let mut key_found = true;\n', 1)], 'initial value of `key_found`'),
    ('X11-reorder+swapped-reset', 'breaking', None,
     [(DECL_NAME + DECL_PUBLIC, DECL_PUBLIC + DECL_NAME, 1),
      ('                        key_private = None;\n', '', 1)],
     'H2 plus: `key_private = None;` after add_key dropped'),
    ('X12-b3-without-trim', 'breaking', ['B6-b3'], [('.map(|(_, value)| value.trim())', '.map(|(_, value)| value)', 1)], 'B6-b3 whose helper does not trim'),
    ('X13-b3-wrong-line', 'breaking', ['B6-b3'], [('Keyring::field_value(&cleaned_line, "PublicKey")?', 'Keyring::field_value(line, "PublicKey")?', 1)],
     'B6-b3 whose PublicKey call passes the raw line'),
    ('X14-b2-checksum-len-3', 'breaking', ['B6-b2'], [('const CHECKSUM_LEN: usize = 4;', 'const CHECKSUM_LEN: usize = 3;', 1)], 'B6-b2 with a wrong constant'),
    ('X15-b2-salt-len-31', 'breaking', ['B6-b2'], [('const SALT_LEN: usize = 32;', 'const SALT_LEN: usize = 31;', 1)], 'B6-b2 with a wrong constant'),
    ('X16-b2-scrypt-key-len', 'breaking', ['B6-b2'], [('const SCRYPT_KEY_LEN: usize = 32;', 'const SCRYPT_KEY_LEN: usize = 16;', 1)], 'B6-b2 with a wrong constant'),
    ('X17-b1-find-negated', 'breaking', ['B6-b1'], [('.find(|key| key.public_key.as_str() == pk.as_str())', '.find(|key| key.public_key.as_str() != pk.as_str())', 1)],
     'B6-b1 whose find tests `!=`'),
    ('X18-b1-final-add-inside-if', 'breaking', ['B6-b1'],
     [('        // Add the last [Key] section of the file\n', '        if key_name.is_some() {\n', 1),
      ('            key_private.as_ref(),\n        )?;\n\n        Ok(keys)', '            key_private.as_ref(),\n        )?;\n        }\n\n        Ok(keys)', 1)],
     'B6-b1 whose final add_key is skipped when no Name was seen'),
    ('X24-expr-lt', 'breaking', None, [(VALID_BODY, VALID_EXPR.replace('<=', '<'), 1)], 'H9 with `<` for `<=`'),
    ('X25-loop-get_key-ne', 'breaking', None, [(GET_KEY_FIND, GET_KEY_LOOP.replace('== name', '!= name'), 1)], 'H10 testing `!=`'),
    ('H19-flattened-without-redundant-pk-test', 'harmless', None,
     [(KEY_BRANCH, KEY_BRANCH_FLAT.replace('''                    if key_public.is_none() {
                        return Err(KeyringError::ParseConfig(
                            "Key must have a PublicKey".into(),
                        ));
                    }
''', ''), 1)], 'H12 without the PublicKey test: a [Key] section without PublicKey then fails in add_key, with the same error'),
    ('X27-hoisted-swapped', 'breaking', None, [(ADD_TAIL, ADD_TAIL_HOISTED.replace('if &k.name == name {', 'if k.public_key.as_str() == name {'), 1)],
     'H13 comparing the public key with the name'),
    ('X28-encode-vec-3', 'breaking', None, [(ENC_ARRAY, ENC_VEC.replace('[..4]', '[..3]'), 1)], 'H14 with a 3 byte checksum'),
    ('X29-qmark-lt', 'breaking', None, [(PK_MATCH, PK_QMARK.replace('!= 36', '< 36'), 1)], 'H8 with `<` for `!=`'),
    ('X30-derive_key-r-twice', 'breaking', None, HOIST_DERIVE + [('salt, SCRYPT_N, SCRYPT_R, SCRYPT_P, 32))', 'salt, SCRYPT_N, SCRYPT_R, SCRYPT_R, 32))', 1)], 'H18 with a wrong scrypt parameter'),
    ('X31-split_at-31', 'breaking', None,
     [('        let pk = &enc_pk_bytes[..32];\n        let checksum = &enc_pk_bytes[32..];\n', '        let (pk, checksum) = enc_pk_bytes.split_at(31);\n', 1)],
     'H17 splitting at 31'),
    ('X32-let-else-no-trim', 'breaking', None, [(NAME_MATCH, NAME_LET_ELSE.replace('n.trim()', 'n'), 1)], 'H15 without trim'),
    ('X33-unlock-split_at-31', 'breaking', None,
     [('''        let version_aad = &key_bytes[..4];
''', '''        let (version_aad, rest) = key_bytes.split_at(4);
''', 1),
      ('''        let salt = &key_bytes[4..36];
        let ciphertext = &key_bytes[36..84];
''', '''        let (salt, ciphertext) = rest.split_at(31);
''', 1)], 'H22 with a 31 byte salt'),
    ('X34-inlined-wrong-var', 'breaking', None,
     [('"[Key]\\nName = {}\\nPublicKey = {}\\nPrivateKey = {}\\n",\n            name,\n', '"[Key]\\nName = {name}\\nPublicKey = {}\\nPrivateKey = {}\\n",\n', 1),
      ('            public_key.as_str(),\n            private_key.as_str()\n', '            private_key.as_str(),\n            public_key.as_str()\n', 1)],
     'H24 with the two remaining arguments exchanged'),
    ('X35-pair-match-missing-arm', 'breaking', None,
     [('        } else if key_name.is_none() && key_public.is_none() {\n            return Err(KeyringError::ParseConfig(\n                "Key must have a Name and PublicKey".into(),\n            ));\n        }\n',
       '        }\n', 1)], 'add_key without the (None, None) test: `unwrap` of `None` (Rust panics; the totalised model adds a key with an empty name)'),
    ('X36-tail-match-le', 'breaking', None,
     [('''        match Base64::decode_to_vec(s, None) {
            Ok(s) => {
                if s.len() != PRIVATE_KEY_CT_LEN {
                    return Err("Invalid Private Key length");
                }
            }
            Err(_) => {
                return Err("Could not decode private key");
            }
        }

        Ok(EncodedSk(s.into()))
''', '''        match Base64::decode_to_vec(s, None) {
            Ok(bytes) => {
                if bytes.len() >= PRIVATE_KEY_CT_LEN {
                    Ok(EncodedSk(s.into()))
                } else {
                    Err("Invalid Private Key length")
                }
            }
            Err(_) => Err("Could not decode private key"),
        }
''', 1)], 'H25 with `>=` for `==`'),
    ('X37-let-if-drops-sk', 'breaking', None,
     [('''            private_key: key_private.map(|k| k.to_owned()),
''', '''            private_key: if key_name.is_some() { None } else { key_private.map(|k| k.to_owned()) },
''', 1)], 'add_key forgets the private key (an `if` value inside a struct literal: refused, or a failing proof)'),
    ('X19-scrypt-n', 'breaking', None, [('const SCRYPT_N: u32 = 32768;', 'const SCRYPT_N: u32 = 16384;', 1)], 'scrypt cost parameter'),
    ('X20-max-name-size', 'breaking', None, [('const MAX_NAME_SIZE: usize = 128;', 'const MAX_NAME_SIZE: usize = 127;', 1)], 'named constant changed'),
    ('X21-tab-not-removed', 'breaking', None, [("cleaned_line.retain(|c| c != '\\t');", "cleaned_line.retain(|c| c != ' ');", 1)], 'retain removes blanks instead of tabs'),
    ('X22-get_key-by-pk', 'breaking', None, [('.find(|&key| key.name.as_str() == name)', '.find(|&key| key.public_key.as_str() == name)', 1)], 'get_key compares the wrong field'),
    ('X23-serialize-order', 'breaking', None, [('"[Key]\\nName = {}\\nPublicKey = {}\\nPrivateKey = {}\\n"', '"[Key]\\nName = {}\\nPrivateKey = {}\\nPublicKey = {}\\n"', 1)], 'serialize_key writes the fields in another order'),
]

# ---------------------------------------------------------------------------------------------- machinery


def sh(cmd, cwd, env=None, timeout=3600):
    p = subprocess.run(cmd, cwd=cwd, env=env, stdout=subprocess.PIPE, stderr=subprocess.STDOUT, timeout=timeout)
    return p.returncode, p.stdout.decode('utf-8', 'replace')


def files_of_patch(path):
    out = set()
    with open(path, encoding='utf-8', errors='replace') as f:
        for line in f:
            m = re.match(r'^(?:\+\+\+|---) [ab]/(\S+)', line)
            if m: out.add(m.group(1))
    return out


def apply_patch(patch, tree):
    rc, out = sh(['patch', '-p1', '-s', '-f', '--no-backup-if-mismatch', '-i', patch], tree)
    if rc != 0:
        raise RuntimeError(f'patch does not apply: {out.strip()[:200]}')


def first_error(out):
    lines = out.splitlines()
    for i, l in enumerate(lines):
        m = re.match(r'^error: (\S+\.lean):(\d+):(\d+): (.*)$', l)
        if m:
            return f'{"/".join(m.group(1).split("/")[-2:])}:{m.group(2)}: {m.group(4)[:70]}'
    for l in lines:
        if 'error' in l: return l.strip()[:110]
    return (lines[-1].strip()[:110] if lines else '?')


def decl_at(lean_file, lineno):
    """name of the declaration containing the line (for the table)"""
    try:
        with open(lean_file, encoding='utf-8') as f: ls = f.read().split('\n')
    except OSError:
        return ''
    pat = re.compile(r'^(?:@\[[^\]]*\]\s*)?(?:private\s+)?(theorem|lemma|def|example|instance|abbrev)\b\s*(\S*)')
    i = min(lineno, len(ls)) - 1
    rng = range(i, min(i + 12, len(ls))) if ls[i].lstrip().startswith('/-') else range(i, -1, -1)
    for j in rng:
        m = pat.match(ls[j])
        if m: return 'example' if m.group(1) == 'example' else m.group(2)
    return ''


class Case:
    def __init__(self, name, kind, patches, edits, what):
        self.name, self.kind, self.patches, self.edits, self.what = name, kind, patches, edits, what
        self.translate = self.build = self.verdict = ''
        self.ok = False
        self.secs = 0.0
        self.downstream = (kind == 'harmless' and not edits and os.environ.get('SELFTEST_DOWNSTREAM', '1') != '0'
                           and all(os.path.exists(os.path.join(ROOT, 'lean', *m.split('.')) + '.lean') for m in DOWNSTREAM))


def run_case(case, tmp, workers):
    t0 = time.time()
    tree = os.path.join(tmp, 'repo-' + case.name)
    try:
        shutil.copytree(PRISTINE, tree)
        for p in case.patches:
            apply_patch(os.path.join(ROOT, 'seeded', p, 'patch.diff'), tree)
        if case.edits:
            path = os.path.join(tree, REL)
            with open(path, encoding='utf-8') as f: text = f.read()
            for old, new, count in case.edits:
                if text.count(old) != count:
                    raise RuntimeError(f'edit `{old.strip()[:40]}` matches {text.count(old)} times, expected {count}')
                text = text.replace(old, new)
            with open(path, 'w', encoding='utf-8') as f: f.write(text)
    except Exception as ex:
        case.translate, case.verdict = f'SETUP ERROR: {ex}', 'ERROR'
        return case
    w = workers.get()
    try:
        gen = os.path.join(w, GENERATED)
        env = dict(os.environ, KESTREL_REPO=tree)
        rc, out = sh([sys.executable, TRANSLATOR, '--out', gen], ROOT, env)
        if rc == 3:
            msg = out.strip().split('unsupported construct', 1)[-1].strip()
            case.translate, case.build = f'refused(3): {msg[:100]}', '-'
        elif rc != 0:
            case.translate, case.build = f'EXIT {rc}: {out.strip()[-100:]}', '-'
        else:
            case.translate = 'ok'
            if case.name == 'base':
                with open(gen, 'rb') as f1, open(os.path.join(ROOT, 'lean', GENERATED), 'rb') as f2:
                    case.translate = 'ok, = committed file' if f1.read() == f2.read() else 'ok, DIFFERS from the committed file'
            mods = MODULES + (DOWNSTREAM if case.downstream else [])
            rc2, out2 = sh(['lake', 'build'] + mods, w)
            if rc2 == 0:
                case.build = 'ok'
            else:
                fe = first_error(out2)
                m = re.match(r'^(\S+\.lean):(\d+): ', fe)
                where = ''
                if m and os.path.exists(os.path.join(w, m.group(1))):
                    d = decl_at(os.path.join(w, m.group(1)), int(m.group(2)))
                    if d: where = f' [{d}]'
                case.build = f'FAILS{where}: {fe}'
    finally:
        workers.put(w)
    if not os.environ.get('SELFTEST_KEEP'): shutil.rmtree(tree, ignore_errors=True)
    tr_ok, refused, b_ok = case.translate.startswith('ok'), case.translate.startswith('refused(3)'), case.build == 'ok'
    if case.kind == 'harmless':
        case.ok = tr_ok and b_ok and 'DIFFERS' not in case.translate
        case.verdict = 'ok (accepted)' if case.ok else 'FALSE ALARM'
    else:
        if refused or (tr_ok and case.build.startswith('FAILS')):
            case.ok, case.verdict = True, 'ok (caught)'
        elif tr_ok and b_ok:
            case.verdict = 'NOT CAUGHT'
        else:
            case.verdict = 'ERROR'
    case.secs = time.time() - t0
    return case


def main():
    if len(sys.argv) > 1:
        print(__doc__); return 2
    jobs = max(1, int(os.environ.get('SELFTEST_JOBS', '4')))
    only = [s for s in os.environ.get('SELFTEST_ONLY', '').split(',') if s]
    cases = [Case('base', 'harmless', [], [], 'unchanged source')]
    na, nb = [], []
    for d in sorted(os.listdir(os.path.join(ROOT, 'seeded'))):
        p = os.path.join(ROOT, 'seeded', d, 'patch.diff')
        m = re.match(r'^([BC])\d+-[bm]\d+$', d)
        if not m or not os.path.exists(p): continue
        touches = bool(files_of_patch(p) & set(TRANSLATED))
        if m.group(1) == 'B':       # harmless maintenance changes (seeded/B6-b1 .. b6 are the ones in keyring.rs)
            if touches: cases.append(Case(d, 'harmless', [d], [], 'seeded harmless patch'))
            else: nb.append(d)
        elif touches:
            cases.append(Case(d, 'breaking', [d], [], 'seeded breaking patch'))
        else:
            na.append(d)
    for name, kind, patches, edits, what in HAND:
        cases.append(Case(name, kind, patches or [], edits, what))
    if only: cases = [c for c in cases if c.name == 'base' or any(s in c.name for s in only)]
    tmp = tempfile.mkdtemp(prefix='.selftest_keyring_', dir=ROOT)
    t0 = time.time()
    try:
        workers = queue.Queue()
        for i in range(min(jobs, len(cases))):
            w = os.path.join(tmp, f'lean-{i}')
            shutil.copytree(os.path.join(ROOT, 'lean'), w, symlinks=True)
            workers.put(w)
        with ThreadPoolExecutor(max_workers=jobs) as ex:
            done = list(ex.map(lambda c: run_case(c, tmp, workers), cases))
    finally:
        if os.environ.get('SELFTEST_KEEP'): print(f'scratch directory kept: {tmp}')
        else: shutil.rmtree(tmp, ignore_errors=True)
    wn = max(len(c.name) for c in done)
    print(f'{"patch".ljust(wn)} | kind     | verdict       | translate / build')
    print('-' * (wn + 60))
    for c in done:
        detail = c.translate if c.build in ('-', '') else f'translates; build {c.build}' if c.translate == 'ok' else f'{c.translate}; build {c.build}'
        print(f'{c.name.ljust(wn)} | {c.kind.ljust(8)} | {c.verdict.ljust(13)} | {detail}')
    bad = [c for c in done if not c.ok]
    h = [c for c in done if c.kind == 'harmless']
    b = [c for c in done if c.kind == 'breaking']
    print('-' * (wn + 60))
    print(f'not applicable (diff does not touch {REL}): {len(na)} seeded breaking patches, {len(nb)} seeded harmless patches')
    print(f'harmless accepted: {sum(c.ok for c in h)}/{len(h)}   breaking caught: {sum(c.ok for c in b)}/{len(b)}   '
          f'({time.time() - t0:.0f} s, {jobs} workers)')
    if bad:
        print('NOT AS EXPECTED: ' + ', '.join(c.name for c in bad))
        return 1
    print('all rows as expected')
    return 0


if __name__ == '__main__':
    sys.exit(main())
