#!/usr/bin/env python3
"""
rs2lean_containers.py -- translate the SECRET CONTAINERS of src/crypto/src/lib.rs and src/cli/src/commands.rs into Lean 4: every
`struct` that has an `impl Drop`, an `impl Zeroize` or derives `Zeroize` / `ZeroizeOnDrop` (found from the source: no type name
occurs in this tool) becomes a Lean `structure` with ALL its fields, together with the translated bodies of `Zeroize::zeroize`,
`Drop::drop`, `Clone::clone` and `Clone::clone_from`, and with predicates generated from the field list (`allWiped`, `sameShape`,
`blocks`).

  input : $KESTREL_REPO/src/crypto/src/lib.rs, $KESTREL_REPO/src/cli/src/commands.rs   (KESTREL_REPO defaults to /repo; --repo DIR)
  output: <this dir>/../lean/KestrelModel/GeneratedContainers.lean                       (--out FILE; written only when changed)
  exit  : 0 ok; 2 = usage / unreadable input; 3 = a construct outside the supported subset (message names the item and the line;
          the previous output stays in place)

Built on tools/rs2lean_noise.py (-> rs2lean_stream.py -> rs2lean_scrypt.py): tokenizer, type parser, Pratt parser for blocks and
expressions.  This file adds: tuple structs and `x.0`, attributes kept per item and per field (`#[derive(..)]`,
`#[zeroize(skip)]`), a strict item scanner (an `impl` of Drop / Zeroize / ZeroizeOnDrop / Clone that cannot be parsed is an error,
not skipped), and a translation of the bodies that knows only the following.

Field types (anything else is refused):
  Vec<u8>, [u8; N], String                      -> List UInt8   (the contents of the memory block the field owns)  "can hold bytes"
  u8 .. u128, i8 .. i128, usize, isize          -> Nat                                                              not byte-carrying
  Option<T>, OnceLock<T>, OnceCell<T>           -> Option T'    (T' the translation of T; no nesting of these three)
  RefCell<T>, Box<T>                            -> T'
  Zeroizing<T>                                  -> T', and the field wipes itself in the drop glue (zeroize 1.8.1 lib.rs 713-720)

Statements of `zeroize(&mut self)`, `drop(&mut self)`, `clone_from(&mut self, source: &Self)`:
  P.zeroize();                 P a place: `self`, `self.f`, `self.0`, a `let` / `if let` alias of one, seen through `&mut`, `*`, `( )`,
                               `[..]`, .as_mut_slice() .as_mut() .deref_mut() .as_mut_vec() .as_bytes_mut() .as_mut_str()
                               .iter_mut() and, on a RefCell field, .get_mut() .borrow_mut().  The meaning is that of the zeroize
                               crate for the type of P (lean/KestrelModel/RsZeroize.lean): bytes -> zeros of the same length,
                               integer -> 0, Option -> on the payload, `self` -> the container's own `zeroize`.
                               `self.f.zeroize()` on OnceLock / OnceCell / RefCell is refused (no such impl: does not compile).
  P[a..b].zeroize();           a, b integer literals or absent                  -> RsZeroize.bytesRange
  E.zeroize();  E contains .clone() .to_vec() .to_owned() .to_string() .cloned() .take()
                               a TEMPORARY is wiped: `self` is unchanged (a comment says so)
  P.fill(0);                   as zeros of the same length, and the write is listed in `nonVolatileWrites` (an ordinary store)
  let x = &mut P; / let x = E; an alias of a place, or a temporary
  if let Some(x) = P.as_mut() / &mut P / P.get_mut() (OnceLock, OnceCell) { .. }    x is the payload of the Option field P
  self.f = E;                  (clone_from) the old block of f is released AS IT IS (wiped first when f is Zeroizing), then f := E
                               (f a `[u8; N]`: overwritten in place, nothing is released)
  *self = E;                   (clone_from) the old value is dropped: `blocks (drop self)` are released, then self := E
  self.f.clone_from(&E); self.f.copy_from_slice(&E);     overwrite in place, nothing is released
  E (a value)                  `source`, `source.f`, `self.f` through & .clone() .to_vec() .to_owned() .as_slice() ..; `source.clone()`;
                               `None`, `X::new()`, `X::default()` (empty)
`clone(&self) -> Self`: one struct literal / tuple-struct call whose fields are values as above.
Everything else (`if`, `match`, loops, calls of other functions, `unsafe`, `return`, macros, generic containers, a `Drop` on an
enum) is refused with exit 3: the tool fails closed.

Derives: `#[derive(Clone)]` -> `clone` is the field-wise copy; `#[derive(Zeroize)]` -> zeroize of every field not marked
`#[zeroize(skip)]`, in order; `#[derive(ZeroizeOnDrop)]` -> `Drop::drop` does the same (documented behaviour of zeroize_derive; that
crate is not vendored here, so this part rests on the documentation in zeroize-1.8.1/src/lib.rs lines 60-140).  Without any
`Drop`, `drop` is the identity followed by the drop glue.  `clone_from`, when not written by hand, is the default
`*self = source.clone()`.
"""
import sys, os, re, hashlib

sys.path.insert(0, os.path.dirname(os.path.abspath(__file__)))
import rs2lean_scrypt as B
import rs2lean_noise as N
from rs2lean_scrypt import Unsupported, Node, lname

# ------------------------------------------------------------------------------------------------ tables

FILES = [('src/crypto/src/lib.rs', 'lib.rs'), ('src/cli/src/commands.rs', 'commands.rs')]
INT_NAMES = {'u8', 'u16', 'u32', 'u64', 'u128', 'usize', 'i8', 'i16', 'i32', 'i64', 'i128', 'isize'}
OPTION_LIKE = {'Option', 'OnceLock', 'OnceCell'}
TRANSPARENT = {'RefCell', 'Box', 'Zeroizing'}
# traits, by their path after resolving the `use` declarations (`core` = `std`)
TRAITS = {
    ('Drop',): 'Drop', ('std', 'ops', 'Drop'): 'Drop',
    ('Clone',): 'Clone', ('std', 'clone', 'Clone'): 'Clone',
    ('zeroize', 'Zeroize'): 'Zeroize', ('zeroize', 'ZeroizeOnDrop'): 'ZeroizeOnDrop',
}
# receiver adapters that hand out the same memory
VIEW_METHODS = {'as_mut_slice', 'as_mut', 'deref_mut', 'as_mut_vec', 'as_bytes_mut', 'as_mut_str', 'iter_mut', 'as_slice', 'as_ref',
                'as_bytes', 'as_str', 'deref', 'iter', 'borrow'}
CELL_METHODS = {'get_mut', 'borrow_mut'}
# receiver adapters that make a new value
COPY_METHODS = {'clone', 'to_vec', 'to_owned', 'to_string', 'cloned', 'take', 'into_boxed_slice', 'into_bytes'}
RESERVED_LOCALS = {'released'}


# ------------------------------------------------------------------------------------------------ parser

class CParser(N.NParser):
    """the expression / type / block parser of rs2lean_noise.py plus `x.0`, and a strict item scanner"""

    def parse_postfix(self, e):
        while True:
            tok = self.peek()
            if self.accept('('):
                e = Node('call', tok.line, f=e, args=self.parse_args(')'))
            elif self.accept('['):
                ix = self.parse_expr(); self.expect(']')
                e = Node('index', tok.line, e=e, ix=ix)
            elif self.at('.') and self.peek(1).kind == 'id':
                self.next(); name = self.ident()
                if self.at('::'): raise Unsupported('turbofish', tok.line)
                if self.accept('('):
                    e = Node('mcall', tok.line, recv=e, name=name.text, args=self.parse_args(')'))
                else:
                    e = Node('field', tok.line, e=e, name=name.text)
            elif self.at('.') and self.peek(1).kind == 'int':
                self.next(); ix = self.next()
                if ix.suffix is not None or not str(ix.text).isdigit(): raise Unsupported('tuple field access', tok.line)
                e = Node('field', tok.line, e=e, name=str(ix.val))
            elif self.accept('?'):
                e = Node('try', tok.line, e=e)
            else:
                return e

    def derive_list(self, attr):
        """`derive ( A , b :: C )` -> [['A'], ['b', 'C']]"""
        if not attr or attr[0] != 'derive': return []
        out, cur = [], []
        for t in attr[2:-1] + [',']:
            if t == ',':
                if cur: out.append(cur)
                cur = []
            elif t != '::': cur.append(t)
        return out

    def scan(self):
        """all structs (with derives and per-field attributes), the names of the enums, the `use` map, and every impl of
        Drop / Zeroize / ZeroizeOnDrop / Clone"""
        uses, structs, enums, impls = {}, {}, {}, []
        attrs = []
        while self.peek().kind != 'eof':
            tok = self.peek()
            if self.at('#'):
                attrs.append(self.attribute()); continue
            if self.at('use'):
                self.parse_use(uses); attrs = []; continue
            if self.accept('pub'):
                if self.at('('): self.skip_balanced()
                continue
            if self.at('struct'):
                self.parse_struct(structs, attrs); attrs = []; continue
            if self.at('enum'):
                self.next(); name = self.ident(); enums[name.text] = name.line
                self.skip_item(); attrs = []; continue
            if self.at('unsafe') and self.at('impl', 1):
                self.next()
            if self.at('impl'):
                self.parse_impl_strict(impls, attrs); attrs = []; continue
            self.skip_item(); attrs = []
        return uses, structs, enums, impls

    def parse_struct(self, structs, attrs):
        line = self.expect('struct').line
        name = self.ident().text
        derives = [d for a in attrs for d in self.derive_list(a)]
        gated = any(a and a[0] == 'cfg' for a in attrs)
        st = Node('struct', line, name=name, derives=derives, fields=[], form='unit', error=None, gated=gated, end=line)
        start = self.i
        try:
            if self.at('<'): raise Unsupported('generic struct', line)
            if self.at('where'): raise Unsupported('`where` clause on a struct', line)
            if self.accept(';'):
                pass
            elif self.at('{'):
                st.form = 'named'
                self.next()
                fattrs = []
                while not self.accept('}'):
                    if self.at('#'): fattrs.append(self.attribute()); continue
                    if self.accept('pub'):
                        if self.at('('): self.skip_balanced()
                    fname = self.ident(); self.expect(':')
                    st.fields.append(Node('fielddecl', fname.line, name=fname.text, ty=self.parse_type(), attrs=fattrs))
                    fattrs = []
                    if not self.at('}'): self.expect(',')
            elif self.at('('):
                st.form = 'tuple'
                self.next()
                fattrs, k = [], 0
                while not self.accept(')'):
                    if self.at('#'): fattrs.append(self.attribute()); continue
                    if self.accept('pub'):
                        if self.at('('): self.skip_balanced()
                    fl = self.peek().line
                    st.fields.append(Node('fielddecl', fl, name=str(k), ty=self.parse_type(), attrs=fattrs))
                    fattrs = []; k += 1
                    if not self.at(')'): self.expect(',')
                self.expect(';')
            else:
                raise Unsupported(f'struct body starting with `{self.peek().text}`', line)
        except Unsupported as u:
            st.error = u
            self.i = start; self.skip_item()
        st.end = self.t[self.i - 1].line if self.i > 0 else line
        if name in structs: st.error = Unsupported(f'two structs named `{name}`', line)
        structs[name] = st

    def parse_impl_strict(self, impls, attrs):
        tok = self.expect('impl')
        start = self.i
        generic = self.at('<')
        if generic: self.skip_angles()
        try:
            first = self.parse_type()
        except Unsupported:
            self.i = start; self.skip_item(); return
        trait, selfty = None, first
        if self.accept('for'):
            trait = first
            try:
                selfty = self.parse_type()
            except Unsupported:
                selfty = None
        if trait is None or not (isinstance(trait, tuple) and trait[0] == 'named'):
            self.skip_item(); return                                    # inherent impl, or a generic trait (TryFrom<..>, From<..>)
        node = Node('impl', tok.line, trait_path=list(trait[1]), selfty=selfty, generic=generic, fns={}, order=[], start=self.i,
                    gated=any(a and a[0] == 'cfg' for a in attrs))
        impls.append(node)
        self.skip_item()
        node.stop = self.i

    def skip_angles(self):
        depth = 0
        while True:
            t = self.next()
            if t.kind == 'eof': raise Unsupported('unbalanced `<`', t.line)
            if t.text == '<': depth += 1
            elif t.text == '>': depth -= 1
            elif t.text == '>>': depth -= 2
            if depth <= 0: return

    def parse_impl_body(self, node, tname):
        """the functions of an impl block that matters, strictly"""
        self.i = node.start
        if self.at('where'): raise Unsupported('`where` clause on an impl', node.line)
        self.expect('{')
        while not self.accept('}'):
            if self.at('#'):
                a = self.attribute()
                if a and a[0] == 'cfg': raise Unsupported('#[cfg] inside an impl block', node.line)
                continue
            if self.accept('pub'): continue
            if not self.at('fn'): raise Unsupported(f'item `{self.peek().text}` in an impl block', self.peek().line)
            self.cur_impl = (tname, {})
            fn = self.parse_fn_sig()
            self.fn = f'{tname}::{fn.name}'
            fn.body = self.parse_block()
            self.fn = None
            self.cur_impl = None
            if fn.name in node.fns: raise Unsupported(f'two functions named `{fn.name}` in one impl', fn.line)
            node.fns[fn.name] = fn; node.order.append(fn.name)


# ------------------------------------------------------------------------------------------------ types

class Field:
    def __init__(self, rust, lean, shape, wrappers, selfwipe, skip, line, rust_ty, inline=False):
        self.rust, self.lean, self.shape, self.wrappers = rust, lean, shape, wrappers
        self.inline = inline       # `[u8; N]` directly in the struct: an assignment overwrites the bytes in place
        self.selfwipe, self.skip, self.line, self.rust_ty = selfwipe, skip, line, rust_ty

    @property
    def base(self): return self.shape[1] if isinstance(self.shape, tuple) else self.shape

    @property
    def is_opt(self): return isinstance(self.shape, tuple)

    @property
    def bytes(self): return self.base == 'bytes'

    def lean_type(self):
        b = 'List UInt8' if self.base == 'bytes' else 'Nat'
        return f'Option ({b})' if self.is_opt else b


def resolve_path(path, uses):
    p = list(uses[path[0]]) + list(path[1:]) if path[0] in uses else list(path)
    if p and p[0] in ('core', 'alloc'): p[0] = 'std'
    return tuple(p)


def lower_type(ty, uses, line):
    """(shape, wrappers, selfwipe): shape = 'bytes' | 'nat' | ('opt', 'bytes' | 'nat')"""
    if isinstance(ty, str):
        if ty in INT_NAMES: return 'nat', [], False
        raise Unsupported(f'field type `{ty}`', line)
    if ty[0] == 'list':
        if ty[2] != 'own': raise Unsupported('a borrowed slice as a field', line)
        if ty[1] != 'u8': raise Unsupported(f'an array of `{N.type_text(ty[1]) if hasattr(N, "type_text") else ty[1]}` (only arrays of u8)', line)
        return 'bytes', [], False
    if ty[0] == 'named':
        p = resolve_path(ty[1], uses)
        if len(p) == 1 and p[0] in INT_NAMES: return 'nat', [], False
        if p[-1] == 'String' and p in (('String',), ('std', 'string', 'String')): return 'bytes', [], False
        raise Unsupported(f'field type `{"::".join(ty[1])}` (only Vec<u8>, [u8; N], String, integers and '
                          f'Option / OnceLock / OnceCell / RefCell / Box / Zeroizing of these)', line)
    if ty[0] == 'option':
        shape, wr, sw = lower_type(ty[1], uses, line)
        if isinstance(shape, tuple): raise Unsupported('nested Option / OnceLock / OnceCell', line)
        return ('opt', shape), ['Option'] + wr, sw
    if ty[0] == 'generic':
        p = resolve_path(ty[1], uses)
        head, args = p[-1], ty[2]
        if head == 'Vec' and len(args) == 1:
            if args[0] != 'u8': raise Unsupported('a Vec of something other than u8', line)
            return 'bytes', [], False
        if head in OPTION_LIKE and len(args) == 1:
            shape, wr, sw = lower_type(args[0], uses, line)
            if isinstance(shape, tuple): raise Unsupported('nested Option / OnceLock / OnceCell', line)
            return ('opt', shape), [head] + wr, sw
        if head in TRANSPARENT and len(args) == 1:
            shape, wr, sw = lower_type(args[0], uses, line)
            return shape, [head] + wr, sw or head == 'Zeroizing'
        raise Unsupported(f'field type `{"::".join(ty[1])}<..>` (resolved: {"::".join(p)}; only Vec<u8>, Option, OnceLock, OnceCell, '
                          f'RefCell, Box, Zeroizing)', line)
    raise Unsupported('this field type', line)


# ------------------------------------------------------------------------------------------------ containers

class Container:
    def __init__(self, st, label, uses, src_lines):
        self.st, self.name, self.label, self.uses, self.src = st, st.name, label, uses, src_lines
        self.fields = []
        self.impls = {}            # 'Drop' | 'Zeroize' | 'ZeroizeOnDrop' | 'Clone' -> impl node
        self.derives = set()
        self.non_volatile = []

    def field(self, rust):
        for f in self.fields:
            if f.rust == rust: return f
        return None


class Body:
    """translation of one method body into a chain of `let`s over the state variable `self` (and `released`)"""

    def __init__(self, c, fn, kind):
        self.c, self.fn, self.kind = c, fn, kind     # kind: 'zeroize' | 'drop' | 'clone_from'
        self.out = []
        self.source = None                           # name of the `source` parameter of clone_from
        self.locals = {}                             # name -> ('alias', field, view) | ('temp',) | ('payload', field)

    def bad(self, what, line): raise Unsupported(what, line)

    def comment(self, line, ind):
        self.out.append(f'{ind}-- {line}: {self.c.src[line - 1].strip()}'.rstrip())

    # ---- places
    def peel(self, e):
        """-> ('self',) | ('field', Field, rng) | ('payload', Field) | ('temp',) | ('source', Field or None): what the expression denotes;
        rng = None or (lo, hi)"""
        copied = False
        rng = None
        cell = False
        while True:
            if e.kind == 'paren': e = e.e; continue
            if e.kind == 'ref': e = e.e; continue
            if e.kind == 'unary' and e.op == '*': e = e.e; continue
            if e.kind == 'mcall' and not e.args and e.name in VIEW_METHODS: e = e.recv; continue
            if e.kind == 'mcall' and not e.args and e.name in CELL_METHODS:
                cell = True; e = e.recv; continue
            if e.kind == 'mcall' and not e.args and e.name in COPY_METHODS:
                copied = True; e = e.recv; continue
            if e.kind == 'index':
                if e.ix.kind != 'range': self.bad('an element of a field (only ranges `[a..b]`)', e.line)
                if e.ix.lo is None and e.ix.hi is None:
                    e = e.e; continue
                if rng is not None: self.bad('a range of a range', e.line)
                lo = self.int_lit(e.ix.lo, 0)
                hi = self.int_lit(e.ix.hi, None)
                rng = (lo, hi); e = e.e; continue
            break
        if e.kind == 'mcall': self.bad(f'method `.{e.name}(..)` in a place expression', e.line)
        if e.kind == 'path' and len(e.path) == 1:
            n = e.path[0]
            if n == 'self':
                if rng is not None: self.bad('a range of `self`', e.line)
                return ('temp',) if copied else ('self',)
            if self.source is not None and n == self.source:
                return ('source', None)
            if n in self.locals:
                loc = self.locals[n]
                if loc[0] == 'temp' or copied: return ('temp',)
                if loc[0] == 'payload':
                    if rng is not None: self.bad('a range of an `if let` payload', e.line)
                    return ('payload', loc[1])
                if rng is not None and loc[2] is not None: self.bad('a range of a range', e.line)
                return ('field', loc[1], rng if rng is not None else loc[2])
            self.bad(f'`{n}` is not `self`, a field of it, or a local', e.line)
        if e.kind == 'field':
            root = e.e
            while root.kind in ('paren', 'ref') or (root.kind == 'unary' and root.op == '*'): root = root.e
            if root.kind == 'path' and len(root.path) == 1 and root.path[0] in ('self', self.source):
                f = self.c.field(e.name)
                if f is None: self.bad(f'`{self.c.name}` has no field `{e.name}`', e.line)
                if root.path[0] == 'self':
                    if cell and 'RefCell' not in f.wrappers and not set(f.wrappers) & OPTION_LIKE:
                        self.bad(f'.get_mut() / .borrow_mut() on the field `{f.rust}`, which is not a RefCell / OnceLock / OnceCell', e.line)
                    if copied: return ('temp',)
                    return ('field', f, rng)
                return ('source', f)
            self.bad('a field of something other than `self` / the source', e.line)
        self.bad(f'expression of kind `{e.kind}` where a place is expected', e.line)

    def int_lit(self, e, default):
        if e is None: return default
        while e.kind == 'paren': e = e.e
        if e.kind == 'lit': return int(e.val)
        self.bad('a range bound that is not an integer literal', e.line)

    # ---- zeroize of a place
    def zeroize_field_text(self, f, rng, line, what='zeroize'):
        """Lean text of the new value of field f after `self.f<view>.zeroize()`"""
        if rng is not None:
            if not f.bytes or f.is_opt: self.bad(f'a range of the field `{f.rust}`, which is not a byte block', line)
            lo, hi = rng
            hi_t = str(hi) if hi is not None else f'self.{f.lean}.length'
            return f'RsZeroize.bytesRange {lo} {hi_t} self.{f.lean}'
        prim = 'RsZeroize.bytes' if f.bytes else 'RsZeroize.nat'
        if f.is_opt: return f'RsZeroize.opt {prim} self.{f.lean}'
        return f'{prim} self.{f.lean}'

    def check_zeroize_compiles(self, f, place_expr, line):
        """`self.f.zeroize()` directly on a OnceLock / OnceCell / RefCell does not exist in the zeroize crate"""
        e = place_expr
        saw_cell = False
        while True:
            if e.kind in ('paren', 'ref'): e = e.e; continue
            if e.kind == 'unary' and e.op == '*': e = e.e; continue
            if e.kind == 'mcall' and e.name in CELL_METHODS: saw_cell = True; e = e.recv; continue
            if e.kind == 'mcall': e = e.recv; continue
            if e.kind == 'index': e = e.e; continue
            break
        outer = f.wrappers[0] if f.wrappers else None
        if outer in ('OnceLock', 'OnceCell'):
            self.bad(f'`.zeroize()` on the {outer} field `{f.rust}` (the zeroize crate has no impl for {outer}; reach the payload with '
                     f'`if let Some(x) = self.{f.rust}.get_mut()`)', line)
        if outer == 'RefCell' and not saw_cell:
            self.bad(f'`.zeroize()` on the RefCell field `{f.rust}` (no such impl; use .get_mut() / .borrow_mut())', line)

    def wipe(self, recv, line, ind, prim):
        """`recv.zeroize()` / `recv.fill(0)`"""
        p = self.peel(recv)
        if p[0] == 'temp':
            self.out.append(f'{ind}-- (a temporary copy is wiped: `self` is unchanged)')
            return
        if p[0] == 'source': self.bad('a write to the source of clone_from (a `&Self`)', line)
        if p[0] == 'self':
            if prim != 'zeroize': self.bad(f'`self.{prim}(..)`', line)
            if not self.c.has_zeroize(): self.bad(f'`self.zeroize()` but `{self.c.name}` has no `Zeroize` impl or derive', line)
            if self.kind == 'zeroize': self.bad('`self.zeroize()` inside `zeroize` (unbounded recursion)', line)
            self.out.append(f'{ind}let self := {self.c.name}.zeroize self')
            return
        if p[0] == 'payload':
            f = p[1]
            x = self.payload_name
            primf = 'RsZeroize.bytes' if f.bytes else 'RsZeroize.nat'
            self.out.append(f'{ind}let {x} := {primf} {x}')
            self.out.append(f'{ind}let self := {{ self with {f.lean} := some {x} }}')
        else:
            f, rng = p[1], p[2]
            if not self.via_local(recv): self.check_zeroize_compiles(f, recv, line)
            self.out.append(f'{ind}let self := {{ self with {f.lean} := {self.zeroize_field_text(f, rng, line)} }}')
        if prim != 'zeroize':
            self.c.non_volatile.append(f'{self.c.label}:{line}: {self.c.src[line - 1].strip()}')

    def via_local(self, e):
        while True:
            if e.kind in ('paren', 'ref'): e = e.e; continue
            if e.kind == 'unary': e = e.e; continue
            if e.kind == 'mcall': e = e.recv; continue
            if e.kind == 'index': e = e.e; continue
            break
        return e.kind == 'path' and e.path[0] in self.locals

    # ---- values (right-hand sides)
    def value(self, e, f, line):
        """Lean text of a value of the type of field f"""
        x = e
        while x.kind in ('paren', 'ref'): x = x.e
        if x.kind == 'path' and x.path == ['None']:
            if not f.is_opt: self.bad(f'`None` for the field `{f.rust}`', line)
            return 'none'
        if x.kind == 'call' and x.f.kind == 'path' and x.f.path[-1] in ('new', 'default') and not x.args:
            return 'none' if f.is_opt else ('[]' if f.bytes else '0')
        if x.kind == 'call' and x.f.kind == 'path' and x.f.path[-1] in ('new', 'from', 'Some') and len(x.args) == 1 and len(x.f.path) <= 2:
            inner = self.value(x.args[0], f, line)          # Box::new(v), Zeroizing::new(v), RefCell::new(v): the payload
            if x.f.path[-1] == 'Some' or (x.f.path[0] in OPTION_LIKE and x.f.path[-1] == 'from'):
                if not f.is_opt: self.bad(f'`Some(..)` for the field `{f.rust}`', line)
                return f'some ({inner})' if not inner.startswith('some') else inner
            if x.f.path[0] in TRANSPARENT: return inner
            self.bad(f'call of `{"::".join(x.f.path)}`', line)
        p = self.peel(e)
        if p[0] == 'source' and p[1] is not None:
            g = p[1]
            if g.shape != f.shape: self.bad(f'the field `{g.rust}` assigned to the field `{f.rust}` of another type', line)
            return f'{lname(self.source)}.{g.lean}'
        if p[0] == 'field':
            g = p[1]
            if p[2] is not None or g.shape != f.shape: self.bad('this value', line)
            return f'self.{g.lean}'
        if p[0] == 'temp':
            # a copy of a field of self (`self.f.clone()`): peel again without the copy
            y = e
            while True:
                if y.kind in ('paren', 'ref'): y = y.e; continue
                if y.kind == 'mcall' and not y.args and (y.name in COPY_METHODS or y.name in VIEW_METHODS): y = y.recv; continue
                break
            if y.kind == 'field' and y.e.kind == 'path' and y.e.path == ['self']:
                g = self.c.field(y.name)
                if g is not None and g.shape == f.shape: return f'self.{g.lean}'
        self.bad('this expression as the value of a field', line)

    def struct_value(self, e, line):
        """Lean text of a value of the container type"""
        x = e
        while x.kind in ('paren', 'ref'): x = x.e
        if x.kind == 'mcall' and x.name == 'clone' and not x.args:
            p = self.peel(x.recv)
            if p == ('source', None):
                if not self.c.has_clone(): self.bad('`.clone()` of a type without Clone', line)
                return f'{self.c.name}.clone {lname(self.source)}'
        self.bad('this expression as a new value of `*self` (only `source.clone()`)', line)

    # ---- statements
    payload_name = None

    def stmt(self, s, ind):
        line = s.line
        self.comment(line, ind)
        if s.kind == 'let':
            if s.name in RESERVED_LOCALS or s.name in ('self', self.source): self.bad(f'a local named `{s.name}`', line)
            p = self.peel(s.init)
            if p[0] == 'temp': self.locals[s.name] = ('temp',)
            elif p[0] == 'field':
                x = s.init
                while x.kind == 'paren': x = x.e
                if x.kind != 'ref' or not x.mut:
                    # `let k = self.key;` moves out of a `&mut self`: does not compile, unless Copy ([u8; N]: a copy)
                    self.locals[s.name] = ('temp',)
                    self.out.append(f'{ind}-- (`{s.name}` is a copy)')
                else:
                    self.locals[s.name] = ('alias', p[1], p[2])
            else: self.bad('this `let`', line)
            return
        if s.kind == 'expr' and s.e.kind == 'if':
            return self.if_let(s.e, ind)
        if s.kind == 'expr' and s.e.kind == 'mcall':
            e = s.e
            if e.name == 'zeroize' and not e.args: return self.wipe(e.recv, line, ind, 'zeroize')
            if e.name == 'fill' and len(e.args) == 1:
                a = e.args[0]
                while a.kind == 'paren': a = a.e
                if a.kind != 'lit' or int(a.val) != 0: self.bad('`.fill(x)` with x other than the literal 0', line)
                return self.wipe(e.recv, line, ind, 'fill')
            if self.kind == 'clone_from' and e.name in ('clone_from', 'copy_from_slice', 'clone_from_slice') and len(e.args) == 1:
                p = self.peel(e.recv)
                if p[0] != 'field' or p[2] is not None: self.bad(f'`.{e.name}(..)` on something that is not a whole field of `self`', line)
                f = p[1]
                self.out.append(f'{ind}-- (the block of `{f.rust}` is overwritten in place: nothing is released; what the old block held beyond the '
                                f'new length is not modelled)')
                self.out.append(f'{ind}let self := {{ self with {f.lean} := {self.value(e.args[0], f, line)} }}')
                return
            self.bad(f'method call `.{e.name}(..)` as a statement', line)
        if s.kind == 'expr' and s.e.kind == 'assign':
            if self.kind != 'clone_from': self.bad('an assignment', line)
            e = s.e
            if e.op != '=': self.bad(f'`{e.op}`', line)
            pl = e.place
            while pl.kind == 'paren': pl = pl.e
            if pl.kind == 'unary' and pl.op == '*':
                p = self.peel(pl.e)
                if p != ('self',): self.bad('an assignment through `*` to something other than `self`', line)
                new = self.struct_value(e.e, line)
                self.out.append(f'{ind}-- (the old value of `*self` is dropped: `Drop::drop`, then the blocks are released)')
                self.out.append(f'{ind}let released := released ++ {self.c.name}.blocks ({self.c.name}.drop self)')
                self.out.append(f'{ind}let self := {new}')
                return
            if pl.kind == 'field':
                p = self.peel(pl)
                if p[0] != 'field' or p[2] is not None: self.bad('this assignment', line)
                f = p[1]
                new = self.value(e.e, f, line)
                if f.bytes and f.inline:
                    self.out.append(f'{ind}-- (`{f.rust_ty}` lives inside the struct: the bytes are overwritten in place, nothing is released)')
                elif f.bytes:
                    blk = ('RsZeroize.blocksOpt' if f.is_opt else 'RsZeroize.blocks')
                    if f.selfwipe:
                        old = f'({self.zeroize_field_text(f, None, line)})'
                        self.out.append(f'{ind}-- (the old `{f.rust_ty}` is dropped by its own drop glue: Zeroizing wipes it, then the block is released)')
                    else:
                        old = f'self.{f.lean}'
                        self.out.append(f'{ind}-- (the old `{f.rust_ty}` is dropped by its own drop glue: the block is released AS IT IS)')
                    self.out.append(f'{ind}let released := released ++ {blk} {old}')
                self.out.append(f'{ind}let self := {{ self with {f.lean} := {new} }}')
                return
            self.bad('this assignment', line)
        if s.kind == 'return': self.bad('`return`', line)
        if s.kind == 'for': self.bad('a loop', line)
        if s.kind == 'expr' and s.e.kind == 'call':
            self.bad(f'call of `{"::".join(s.e.f.path) if s.e.f.kind == "path" else "?"}` (calls of other functions are not followed)', line)
        self.bad(f'statement of kind `{s.kind if s.kind != "expr" else s.e.kind}`', line)

    def if_let(self, e, ind):
        line = e.line
        if e.cond.kind != 'letsome':
            self.bad('`if` (the wipe must not depend on a condition; only `if let Some(x) = <Option field>` is supported)', line)
        if self.payload_name is not None: self.bad('nested `if let`', line)
        c = e.cond.e
        x = c
        getter = None
        while True:
            if x.kind in ('paren', 'ref'): x = x.e; continue
            if x.kind == 'mcall' and not x.args and x.name in ('as_mut', 'get_mut', 'as_deref_mut'):
                getter = x.name; x = x.recv; continue
            break
        p = self.peel(x)
        if p[0] == 'temp':
            self.bad('`if let` on a temporary', line)
        if p[0] != 'field' or p[2] is not None or not p[1].is_opt:
            self.bad('`if let Some(x) = ..` on something that is not an Option / OnceLock / OnceCell field of `self`', line)
        f = p[1]
        outer = f.wrappers[0]
        if outer in ('OnceLock', 'OnceCell') and getter != 'get_mut':
            self.bad(f'`if let Some(..)` on the {outer} field `{f.rust}` without .get_mut()', line)
        if outer == 'Option' and getter == 'get_mut': self.bad('.get_mut() on an Option', line)
        var = e.cond.var
        if var in RESERVED_LOCALS or var in ('self', self.source): self.bad(f'a payload named `{var}`', line)
        if e.els is not None: self.bad('`if let .. else`', line)
        self.out.append(f'{ind}let self := match self.{f.lean} with')
        self.out.append(f'{ind}  | some {lname(var)} =>')
        self.payload_name = lname(var)
        saved = dict(self.locals)
        self.locals[var] = ('payload', f)
        if e.then.tail is not None: self.bad('a value at the end of an `if let` block', e.then.tail.line)
        for s in e.then.stmts: self.stmt(s, ind + '    ')
        self.locals = saved
        self.payload_name = None
        self.out.append(f'{ind}    self')
        self.out.append(f'{ind}  | none => self')

    def run(self):
        fn = self.fn
        if fn.body.tail is not None:
            t = fn.body.tail
            # a final `self.zeroize()` without `;`
            fn.body.stmts.append(Node('expr', t.line, e=t)); fn.body.tail = None
        for s in fn.body.stmts: self.stmt(s, '  ')
        return self.out


def clean(lines):
    """source lines joined for a Lean comment: `//` comments dropped, comment brackets defused"""
    t = ' '.join(re.sub(r'//.*$', '', x).strip() for x in lines)
    return re.sub(r'\s+', ' ', t).replace('-/', '- /').replace('/-', '/ -').strip()


def sig_text(c, fn):
    return clean(c.src[fn.line - 1:fn.body.line]).rstrip('{').strip()


def container_methods(Container):
    def has_zeroize(self): return 'Zeroize' in self.impls or 'Zeroize' in self.derives
    def has_drop(self): return 'Drop' in self.impls or 'ZeroizeOnDrop' in self.derives
    def has_clone(self): return 'Clone' in self.impls or 'Clone' in self.derives
    Container.has_zeroize, Container.has_drop, Container.has_clone = has_zeroize, has_drop, has_clone
container_methods(Container)


def emit_container(c):
    T = c.name
    out = []
    st = c.st
    decl = clean(c.src[st.line - 1:st.end])
    der = ', '.join(sorted(c.derives)) or 'none'
    out.append(f'/-- `{decl}` ({c.label} line {st.line}); derives that matter: {der} -/')
    out.append(f'structure {T} where')
    for f in c.fields:
        note = f'-- {f.rust_ty}' + ('   (wipes itself when dropped)' if f.selfwipe else '') + ('   #[zeroize(skip)]' if f.skip else '')
        out.append(f'  {f.lean} : {f.lean_type()}    {note}')
    if not c.fields: out.append('  mk ::')
    out.append('deriving Repr, DecidableEq')
    out.append('')
    out.append(f'namespace {T}')
    out.append('')
    # ---- data
    rows = ', '.join(f'("{f.rust}", {"true" if f.bytes else "false"})' for f in c.fields)
    out.append('/-- the fields as the source declares them, each with the flag "can hold bytes" -/')
    out.append(f'def fields : List (String × Bool) := [{rows}]')
    out.append('')
    byte_fields = [f for f in c.fields if f.bytes]
    def conj(parts, empty='True'): return ' ∧ '.join(parts) if parts else empty
    out.append('/-- EVERY byte-carrying field holds zeros only (generated from the field list) -/')
    out.append(f'def allWiped (v : {T}) : Prop :=\n  ' +
               conj([f'RsZeroize.{"wipedOpt" if f.is_opt else "wiped"} v.{f.lean}' for f in byte_fields]))
    out.append('')
    out.append('/-- every byte-carrying field of `w` has the size it has in `v` (generated from the field list) -/')
    out.append(f'def sameShape (v w : {T}) : Prop :=\n  ' +
               conj([f'RsZeroize.{"sameLenOpt" if f.is_opt else "sameLen"} v.{f.lean} w.{f.lean}' for f in byte_fields]))
    out.append('')
    out.append('/-- the memory blocks the value owns (generated from the field list) -/')
    out.append(f'def blocks (v : {T}) : List (List UInt8) :=\n  ' +
               (' ++ '.join(f'RsZeroize.{"blocksOpt" if f.is_opt else "blocks"} v.{f.lean}' for f in byte_fields) or '[]'))
    out.append('')
    if len(c.fields) == 1 and c.fields[0].shape == 'bytes':
        f = c.fields[0]
        out.append(f'/-- the struct has exactly one field, a block of bytes: the value made of `b`, and the bytes of a value -/')
        out.append(f'def ofBytes (b : List UInt8) : {T} := {{ {f.lean} := b }}')
        out.append(f'def bytes (v : {T}) : List UInt8 := v.{f.lean}')
        out.append('')
    # ---- zeroize
    if 'Zeroize' in c.impls:
        imp = c.impls['Zeroize']
        fn = imp.fns.get('zeroize')
        if fn is None: raise Unsupported(f'`impl Zeroize for {T}` without `fn zeroize`', imp.line)
        if fn.self_kind != 'mut' or fn.params: raise Unsupported('`zeroize` must take `&mut self` only', fn.line)
        if len(imp.order) != 1: raise Unsupported(f'`impl Zeroize for {T}` with other functions than `zeroize`', imp.line)
        b = Body(c, fn, 'zeroize')
        lines = b.run()
        out.append(f'/-- `impl Zeroize for {T}`: `{sig_text(c, fn)}` ({c.label} line {fn.line}) -/')
        out.append(f'def zeroize (self : {T}) : {T} :=')
        out += lines + ['  self', '']
    elif 'Zeroize' in c.derives:
        out.append(f'/-- `#[derive(Zeroize)]`: every field not marked `#[zeroize(skip)]`, in order -/')
        out.append(f'def zeroize (self : {T}) : {T} :=')
        b = Body(c, None, 'zeroize')
        for f in c.fields:
            if f.skip: out.append(f'  -- field `{f.rust}`: #[zeroize(skip)]'); continue
            if f.wrappers and f.wrappers[0] in ('OnceLock', 'OnceCell', 'RefCell'):
                raise Unsupported(f'#[derive(Zeroize)] with the {f.wrappers[0]} field `{f.rust}` (no Zeroize impl: does not compile)', f.line)
            out.append(f'  -- field `{f.rust}`')
            out.append(f'  let self := {{ self with {f.lean} := {b.zeroize_field_text(f, None, f.line)} }}')
        out += ['  self', '']
    # ---- drop
    glue = []
    for f in c.fields:
        if f.selfwipe:
            b = Body(c, None, 'drop')
            glue.append(f'  -- drop glue of the field `{f.rust}` ({f.rust_ty}): Zeroizing wipes itself')
            glue.append(f'  let self := {{ self with {f.lean} := {b.zeroize_field_text(f, None, f.line)} }}')
    if 'Drop' in c.impls:
        imp = c.impls['Drop']
        fn = imp.fns.get('drop')
        if fn is None or len(imp.order) != 1: raise Unsupported(f'`impl Drop for {T}` must have exactly `fn drop`', imp.line)
        if fn.self_kind != 'mut' or fn.params: raise Unsupported('`drop` must take `&mut self` only', fn.line)
        if 'ZeroizeOnDrop' in c.derives: raise Unsupported(f'`impl Drop for {T}` and #[derive(ZeroizeOnDrop)] (conflicting impls)', imp.line)
        b = Body(c, fn, 'drop')
        lines = b.run()
        out.append(f'/-- `impl Drop for {T}`: `{sig_text(c, fn)}` ({c.label} line {fn.line})' + (', followed by the drop glue of the fields' if glue else '') + ' -/')
        out.append(f'def drop (self : {T}) : {T} :=')
        out += lines + glue + ['  self', '']
    elif 'ZeroizeOnDrop' in c.derives:
        out.append(f'/-- `#[derive(ZeroizeOnDrop)]`: a `Drop` that zeroizes every field not marked `#[zeroize(skip)]` -/')
        out.append(f'def drop (self : {T}) : {T} :=')
        b = Body(c, None, 'drop')
        for f in c.fields:
            if f.skip: out.append(f'  -- field `{f.rust}`: #[zeroize(skip)]'); continue
            if f.wrappers and f.wrappers[0] in ('OnceLock', 'OnceCell', 'RefCell'):
                raise Unsupported(f'#[derive(ZeroizeOnDrop)] with the {f.wrappers[0]} field `{f.rust}` (no Zeroize impl: does not compile)', f.line)
            out.append(f'  -- field `{f.rust}`')
            out.append(f'  let self := {{ self with {f.lean} := {b.zeroize_field_text(f, None, f.line)} }}')
        out += glue + ['  self', '']
    else:
        out.append(f'/-- `{T}` has NO `Drop` (no impl, no #[derive(ZeroizeOnDrop)]): only the drop glue of the fields runs -/')
        out.append(f'def drop (self : {T}) : {T} :=')
        out += glue + ['  self', '']
    out.append(f'/-- is there an `impl ZeroizeOnDrop for {T} {{}}` (a marker trait without methods) or the derive? -/')
    out.append(f'def zeroizeOnDropMarker : Bool := {"true" if ("ZeroizeOnDrop" in c.impls or "ZeroizeOnDrop" in c.derives) else "false"}')
    out.append('')
    # ---- clone
    hand_clone = 'Clone' in c.impls
    out.append(f'/-- Clone: derived / written by hand / absent; is `clone_from` written by hand? -/')
    out.append(f'def hasClone : Bool := {"true" if c.has_clone() else "false"}')
    out.append(f'def cloneDerived : Bool := {"true" if "Clone" in c.derives else "false"}')
    hand_cf = hand_clone and 'clone_from' in c.impls['Clone'].fns
    out.append(f'def cloneFromHandwritten : Bool := {"true" if hand_cf else "false"}')
    out.append('')
    if hand_clone and 'Clone' in c.derives: raise Unsupported(f'`impl Clone for {T}` and #[derive(Clone)]', c.impls['Clone'].line)
    if hand_clone:
        imp = c.impls['Clone']
        for n in imp.order:
            if n not in ('clone', 'clone_from'): raise Unsupported(f'`impl Clone for {T}` with a function `{n}`', imp.fns[n].line)
        fn = imp.fns.get('clone')
        if fn is None: raise Unsupported(f'`impl Clone for {T}` without `fn clone`', imp.line)
        if fn.self_kind != 'ref' or fn.params: raise Unsupported('`clone` must take `&self` only', fn.line)
        if fn.body.stmts or fn.body.tail is None: raise Unsupported('`clone` must be a single expression', fn.line)
        b = Body(c, fn, 'clone')
        t = fn.body.tail
        while t.kind == 'paren': t = t.e
        vals = {}
        if t.kind == 'structlit' and t.path in ([T], ['Self']) and st.form == 'named':
            for fname, val in t.fields:
                f = c.field(fname)
                if f is None or f.rust in vals: raise Unsupported(f'field `{fname}` in the literal', t.line)
                vals[f.rust] = b.value(val, f, t.line)
        elif t.kind == 'call' and t.f.kind == 'path' and t.f.path in ([T], ['Self']) and st.form == 'tuple':
            if len(t.args) != len(c.fields): raise Unsupported('number of fields in the tuple-struct value', t.line)
            for f, val in zip(c.fields, t.args): vals[f.rust] = b.value(val, f, t.line)
        else:
            raise Unsupported('`clone` must be a literal of the struct', t.line)
        missing = [f.rust for f in c.fields if f.rust not in vals]
        if missing: raise Unsupported(f'field(s) {missing} missing in the literal', t.line)
        out.append(f'/-- `impl Clone for {T}`: `{sig_text(c, fn)}` ({c.label} line {fn.line}) -/')
        out.append(f'def clone (self : {T}) : {T} :=')
        out.append(f'  -- {t.line}: {c.src[t.line - 1].strip()} ..')
        out.append('  { ' + ', '.join(f'{f.lean} := {vals[f.rust]}' for f in c.fields) + ' }' if c.fields else '  {}')
        out.append('')
    elif 'Clone' in c.derives:
        out.append(f'/-- `#[derive(Clone)]`: every field is cloned (`Vec<u8>::clone`, `[u8; N]::clone`, .. are deep copies) -/')
        out.append(f'def clone (self : {T}) : {T} :=')
        out.append('  { ' + ', '.join(f'{f.lean} := self.{f.lean}' for f in c.fields) + ' }' if c.fields else '  {}')
        out.append('')
    if c.has_clone():
        if hand_cf:
            fn = c.impls['Clone'].fns['clone_from']
            if fn.self_kind != 'mut' or len(fn.params) != 1: raise Unsupported('`clone_from` must take `&mut self` and the source', fn.line)
            b = Body(c, fn, 'clone_from')
            b.source = fn.params[0][0]
            if b.source in RESERVED_LOCALS: raise Unsupported(f'a parameter named `{b.source}`', fn.line)
            lines = b.run()
            out.append(f'/-- `impl Clone for {T}`: `{sig_text(c, fn)}` ({c.label} line {fn.line}); returns the new `self` and the blocks that were\n'
                       f'    released on the way, each with what it held at that moment -/')
            out.append(f'def cloneFrom (self {lname(b.source)} : {T}) : {T} × List (List UInt8) :=')
            out.append('  let released : List (List UInt8) := []')
            out += lines + ['  (self, released)', '']
        else:
            out.append(f'/-- `clone_from` is not written by hand: the default `*self = source.clone()` (the old value is dropped: `Drop::drop`, then its\n'
                       f'    blocks are released); returns the new `self` and the released blocks, each with what it held at that moment -/')
            out.append(f'def cloneFrom (self source : {T}) : {T} × List (List UInt8) :=')
            out.append('  let released : List (List UInt8) := []')
            out.append(f'  let released := released ++ {T}.blocks ({T}.drop self)')
            out.append(f'  let self := {T}.clone source')
            out += ['  (self, released)', '']
    nv = ', '.join('"' + s.replace('\\', '\\\\').replace('"', '\\"') + '"' for s in c.non_volatile)
    out.append('/-- writes of zeros that do NOT go through the zeroize crate (`fill(0)`: an ordinary store the optimiser may remove) -/')
    out.append(f'def nonVolatileWrites : List String := [{nv}]')
    out.append('')
    out.append(f'end {T}')
    return '\n'.join(out)


# ------------------------------------------------------------------------------------------------ driver

def collect(text, label):
    cut = text.find('#[cfg(test)]')
    region = text if cut < 0 else text[:cut]
    src_lines = region.split('\n')
    p = CParser(B.tokenize(region, ext=True))
    uses, structs, enums, impls = p.scan()
    containers = {}
    def need(tname, line, why):
        if tname in containers: return containers[tname]
        if tname in enums: raise Unsupported(f'{why} for the enum `{tname}` (only structs)', line)
        if tname not in structs: raise Unsupported(f'{why} for `{tname}`, which is not a struct of this file', line)
        st = structs[tname]
        if st.gated: raise Unsupported(f'#[cfg] on the struct `{tname}`', st.line)
        if st.error is not None:
            raise Unsupported(f'struct `{tname}`: {st.error.what}', st.error.line or st.line)
        containers[tname] = Container(st, label, uses, src_lines)
        return containers[tname]
    # which structs are containers: a Drop / Zeroize / ZeroizeOnDrop impl, or a Zeroize / ZeroizeOnDrop derive
    marks = []
    for imp in impls:
        tr = TRAITS.get(resolve_path(imp.trait_path, uses))
        if tr is None: continue
        if imp.generic: raise Unsupported(f'generic `impl {tr}`', imp.line)
        if imp.gated: raise Unsupported(f'#[cfg] on an `impl {tr}`', imp.line)
        if not (isinstance(imp.selfty, tuple) and imp.selfty[0] == 'named' and len(imp.selfty[1]) == 1):
            raise Unsupported(f'`impl {tr}` for a type that is not a plain name', imp.line)
        marks.append((imp, tr, imp.selfty[1][0]))
    for name, st in structs.items():
        ds = set()
        for d in st.derives:
            tr = TRAITS.get(resolve_path(d, uses))
            if tr: ds.add(tr)
        if ds & {'Zeroize', 'ZeroizeOnDrop'}:
            need(name, st.line, 'a derive')
        st.derive_set = ds
    for imp, tr, tname in marks:
        if tr in ('Drop', 'Zeroize', 'ZeroizeOnDrop'): need(tname, imp.line, f'`impl {tr}`')
    for imp, tr, tname in marks:
        if tname not in containers: continue
        c = containers[tname]
        if tr in c.impls: raise Unsupported(f'two `impl {tr} for {tname}`', imp.line)
        if tr in c.st.derive_set: raise Unsupported(f'`impl {tr} for {tname}` and #[derive({tr})]', imp.line)
        try:
            p.parse_impl_body(imp, tname)
        except Unsupported as u:
            if not getattr(u, 'fn', None): u.fn = p.fn or f'impl {tr} for {tname}'
            raise
        c.impls[tr] = imp
    for c in containers.values():
        c.derives = set(c.st.derive_set)
        seen = set()
        for fd in c.st.fields:
            try:
                shape, wr, sw = lower_type(fd.ty, uses, fd.line)
            except Unsupported as u:
                u.fn = f'struct {c.name}'; raise
            lean = lname(fd.name) if c.st.form == 'named' else f'f{fd.name}'
            if lean in seen or lean in ('mk',): raise Unsupported(f'field name `{fd.name}`', fd.line)
            seen.add(lean)
            skip = any(a[:1] == ['zeroize'] and 'skip' in a for a in fd.attrs)
            rust_ty = re.sub(r'\s+', ' ', type_src(src_lines, fd, c.st))
            inline = isinstance(fd.ty, tuple) and fd.ty[0] == 'list'
            c.fields.append(Field(fd.name, lean, shape, wr, sw, skip, fd.line, rust_ty, inline))
    return region, containers


def type_src(src_lines, fd, st):
    """the text of the field's type, for the comment"""
    line = src_lines[fd.line - 1]
    if st.form == 'named':
        m = re.search(r'\b' + re.escape(fd.name) + r'\s*:\s*(.*?),?\s*(//.*)?$', line)
        return m.group(1).strip() if m else '?'
    m = re.search(r'\((.*)\)\s*;', ' '.join(src_lines[st.line - 1:st.end]))
    if not m: return '?'
    parts = [x.strip() for x in m.group(1).split(',') if x.strip()]
    k = int(fd.name)
    return re.sub(r'^pub(\([^)]*\))?\s+', '', parts[k]) if k < len(parts) and len(parts) == len(st.fields) else '?'


def translate(texts):
    chunks, hashes, names = [], [], []
    for (rel, label), text in zip(FILES, texts):
        try:
            region, containers = collect(text, label)
        except Unsupported as u:
            u.file = label; raise
        hashes.append((rel, region))
        for c in containers.values():
            if c.name in [n for n, _ in names]:
                u = Unsupported(f'two containers named `{c.name}`', c.st.line); u.file = label; raise u
            try:
                chunks.append(emit_container(c))
            except Unsupported as u:
                u.file = label
                if not getattr(u, 'fn', None): u.fn = c.name
                raise
            names.append((c.name, label))
    if not names: raise Unsupported('no struct with a Drop / Zeroize impl found', None)
    hdr = ''.join(f'  source : {rel}  (the part before `#[cfg(test)]`, {len(region.encode())} bytes, {region.count(chr(10))} lines)\n'
                  f'  sha256 : {hashlib.sha256(region.encode()).hexdigest()}\n' for rel, region in hashes)
    header = f'''/-
  GENERATED by tools/rs2lean_containers.py -- do not edit.
{hdr}  The secret containers of the two files: every struct with an `impl Drop`, an `impl Zeroize` or a Zeroize / ZeroizeOnDrop derive
  ({", ".join(f"`{n}` ({l})" for n, l in names)}), each as a Lean structure with ALL its fields (a field that can hold bytes is the contents
  of the memory block it owns), the bodies of `Zeroize::zeroize`, `Drop::drop`, `Clone::clone`, `Clone::clone_from` statement by
  statement (each group of lines is preceded by the Rust line it comes from), and, generated from the field list: `fields`,
  `allWiped` (every byte-carrying field is zero), `sameShape`, `blocks`; for a struct of one byte field `ofBytes` / `bytes`.
  `cloneFrom self source` returns the new `self` and the list of blocks released on the way, with their contents at that moment.
  Meaning of `x.zeroize()` per type: KestrelModel/RsZeroize.lean (zeroize 1.8.1).
-/
import KestrelModel.RsZeroize
set_option linter.unusedVariables false
namespace Kestrel.ContainersSrc
open Kestrel

/-- the containers found, with the file each comes from -/
def containers : List (String × String) := [{", ".join(f'("{n}", "{l}")' for n, l in names)}]
'''
    return header + '\n' + '\n\n'.join(chunks) + '\n\nend Kestrel.ContainersSrc\n'


def main(argv):
    here = os.path.dirname(os.path.abspath(__file__))
    repo = os.environ.get('KESTREL_REPO', '/repo')
    out = os.path.join(here, '..', 'lean', 'KestrelModel', 'GeneratedContainers.lean')
    args = argv[1:]
    while args:
        a = args.pop(0)
        if a == '--repo' and args: repo = args.pop(0)
        elif a == '--out' and args: out = args.pop(0)
        else:
            print(f'usage: {argv[0]} [--repo DIR] [--out GeneratedContainers.lean]', file=sys.stderr); return 2
    texts = []
    try:
        for rel, _ in FILES:
            with open(os.path.join(repo, rel), encoding='utf-8') as f: texts.append(f.read())
    except OSError as ex:
        print(f'rs2lean_containers: cannot read the sources: {ex}', file=sys.stderr); return 2
    try:
        result = translate(texts)
    except Unsupported as u:
        where = f'in `{u.fn}`' if getattr(u, 'fn', None) else 'at top level'
        file = getattr(u, 'file', None)
        line = f' ({file + " " if file else ""}line {u.line})' if u.line else (f' ({file})' if file else '')
        print(f'rs2lean_containers: unsupported construct {where}{line}: {u.what}', file=sys.stderr)
        return 3
    old = None
    try:
        with open(out, encoding='utf-8') as f: old = f.read()
    except OSError:
        pass
    if old != result:
        tmp = out + '.tmp'
        with open(tmp, 'w', encoding='utf-8') as f: f.write(result)
        os.replace(tmp, out)
        print(f'rs2lean_containers: wrote {os.path.normpath(out)} ({len(result)} bytes)')
    else:
        print(f'rs2lean_containers: {os.path.normpath(out)} is up to date')
    return 0


if __name__ == '__main__':
    sys.exit(main(sys.argv))
