#!/usr/bin/env python3
"""seeded_run.py <ID> <m1|m2> [props...]
Apply an independently produced breaking change (/tmp/mut/<ID>-out/<m>/patch.diff, confirmed by confirm_seeded.py) to /repo,
run the registered quick checks against it (default: all claimed properties), undo it, and record everything under
/verif/seeded/<ID>-<m>/ (patch.diff, the demonstration, NOTES.md, meta.json)."""
import json, os, re, shutil, subprocess, sys, time
from concurrent.futures import ThreadPoolExecutor
ID, M = sys.argv[1], sys.argv[2]
SRC = f"/tmp/mut/{ID}-out/{M}"
DST = f"/verif/seeded/{ID}-{M}"
manifest = json.load(open("/verif/MANIFEST.json"))
props = sys.argv[3:] or [c["property_id"] for c in manifest["checks"]]
def sh(cmd, cwd="/verif", timeout=3600):
    p = subprocess.run(cmd, cwd=cwd, shell=True, stdout=subprocess.PIPE, stderr=subprocess.STDOUT, timeout=timeout)
    return p.returncode, p.stdout.decode("utf-8", "replace")
os.makedirs(DST, exist_ok=True)
for f in os.listdir(SRC):
    s = os.path.join(SRC, f)
    if f in ("confirm.json",) or f.endswith(".log"):
        continue
    if os.path.isdir(s):
        shutil.copytree(s, os.path.join(DST, f), dirs_exist_ok=True, ignore=shutil.ignore_patterns("target"))
    else:
        shutil.copy(s, os.path.join(DST, "NOTES.md" if f == "README.md" else f))
confirm = json.load(open(os.path.join(SRC, "confirm.json"))) if os.path.exists(os.path.join(SRC, "confirm.json")) else {}
rc, out = sh("git status --short", cwd="/repo")
assert out.strip() == "", "/repo is not clean: " + out
results = {}
t0 = time.time()
# the evidence files must describe runs on the unchanged tree: keep them aside while the patched tree is checked
EV_BAK = "/verif/.cache/evidence-backup"
shutil.rmtree(EV_BAK, ignore_errors=True)
shutil.copytree("/verif/evidence", EV_BAK)
try:
    rc, out = sh(f"git apply {SRC}/patch.diff", cwd="/repo")
    assert rc == 0, out
    def run(p):
        rc, out = sh(f"./check {p} quick")
        lines = [l for l in out.splitlines() if l.startswith("VIOLATION") or l.startswith("KNOWN-FINDING")]
        detail = []
        for l in lines:
            m = re.search(r"replay=(\S+)", l)
            if m and os.path.exists(m.group(1)):
                r = json.load(open(m.group(1)))
                detail.append({"line": l.replace("/verif/", ""), "kind": r.get("kind"), "oracle": (r.get("oracle") or {}).get("name"), "detail": ((r.get("oracle") or {}).get("detail") or r.get("broken") or r.get("error") or "")[:400], "case": r.get("case")})
        return p, {"exit": rc, "violations": [d for d in detail if d["line"].startswith("VIOLATION")], "last_line": out.strip().splitlines()[-1] if out.strip() else ""}
    first = props[0] if ID not in props else ID
    p, r = run(first); results[p] = r            # does the (serialised) builds
    rest = [p for p in props if p != first]
    with ThreadPoolExecutor(max_workers=5) as ex:
        for p, r in ex.map(run, rest):
            results[p] = r
finally:
    sh("git checkout -- .", cwd="/repo")
    sh("git clean -fdq src", cwd="/repo")
    shutil.rmtree("/verif/evidence", ignore_errors=True)
    shutil.copytree(EV_BAK, "/verif/evidence")
# a run over a subset of the checks keeps what the other checks reported in the previous round (marked with that round)
_prev_path = os.path.join(DST, "meta.json")
if os.path.exists(_prev_path) and len(props) < len(manifest["checks"]):
    try:
        _pm = json.load(open(_prev_path))
        for _p, _r in (_pm.get("results") or {}).items():
            if _p not in results:
                _r.setdefault("from_round", _pm.get("round", "earlier round")); results[_p] = _r
    except Exception:
        pass
caught_by = sorted(p for p, r in results.items() if r["exit"] != 0)
with_input = sorted(p for p, r in results.items() if any(v["kind"] == "oracle" for v in r["violations"]))
prop = json.load(open(f"/tmp/mut/{ID}-out/property.json"))
notes = open(os.path.join(DST, "NOTES.md")).read() if os.path.exists(os.path.join(DST, "NOTES.md")) else ""
mm = re.search(r"(?is)(needs? to manifest|needed to manifest|what (exactly )?is needed|to manifest|trigger)[^\n]*\n(.{0,700})", notes)
needs = ((mm.group(3) if mm and mm.group(3) else notes[:600]) or "").strip()[:700]
meta = {
    "id": f"{ID}-{M}", "breaks_property": ID, "property_title": prop["title"],
    "produced_by": "independent sub-agent given only the property text and a scratch worktree of /repo (nothing from /verif)",
    "needs_to_manifest": needs,
    "confirmed": {"patch_applies": confirm.get("applies"), "baseline_tests_with_patch": confirm.get("tests_with_patch"), "demo_with_patch_exit": (confirm.get("demo_with_patch") or {}).get("rc"),
                  "demo_without_patch_exit": (confirm.get("demo_without_patch") or {}).get("rc"), "demo_cmd": (confirm.get("demo_with_patch") or {}).get("cmd"), "ok": confirm.get("confirmed")},
    "ran": [f"git -C /repo apply seeded/{ID}-{M}/patch.diff", *[f"./check {p} quick" for p in props], "git -C /repo checkout -- ."],
    "caught_by": caught_by, "caught_with_failing_input_by": with_input, "target_check_caught_it": ID in caught_by,
    "results": results, "wall_s": round(time.time() - t0, 1),
}
prev_path = os.path.join(DST, "meta.json")
hist = []
if os.path.exists(prev_path):
    try:
        pm = json.load(open(prev_path))
        hist = pm.get("history", [])
        hist.append(f"{pm.get('round', 'round 1')}: own check {'caught' if pm.get('target_check_caught_it') else 'MISSED'} it; caught by {pm.get('caught_by')}")
    except Exception:
        pass
meta["history"] = hist
meta["round"] = os.environ.get("VERIF_ROUND", f"round {len(hist) + 1}")
json.dump(meta, open(prev_path, "w"), indent=1)
print(f"{ID}-{M}: caught by {caught_by} (with failing input: {with_input}); target caught: {ID in caught_by}; {meta['wall_s']}s")
