#!/usr/bin/env python3
"""confirm_seeded.py <ID> : for each mutation /tmp/mut/<ID>-out/m<i>, in the scratch worktree /tmp/mut/<ID>:
   (a) apply patch, run the baseline test suite (must stay green); (b) run the demonstration (must fail);
   (c) revert, run the demonstration (must pass).  Writes /tmp/mut/<ID>-out/m<i>/confirm.json."""
import json, os, re, shutil, subprocess, sys
ID = sys.argv[1]
WT = f"/tmp/mut/{ID}"
def sh(cmd, cwd=None, timeout=3000):
    env = dict(os.environ, CARGO_NET_OFFLINE="true")
    p = subprocess.run(cmd, cwd=cwd, shell=True, stdout=subprocess.PIPE, stderr=subprocess.STDOUT, timeout=timeout, env=env)
    return p.returncode, p.stdout.decode("utf-8", "replace")
def run_demo(md):
    extra = None
    for f in os.listdir(md):
        if f.endswith(".rs"):
            extra = f
    if os.path.isdir(f"{md}/demo"):
        has_tests = os.path.isdir(f"{md}/demo/tests")
        cmd = "cargo test --offline 2>&1 | tail -40" if has_tests else "cargo run --offline 2>&1 | tail -40"
        # pipe loses the status: re-run quietly for the status
        rc, out = sh(("cargo test --offline" if has_tests else "cargo run --offline"), cwd=f"{md}/demo")
        return rc, out[-1500:], ("cargo test" if has_tests else "cargo run") + f" --offline (in {md}/demo)"
    if extra:
        dst = f"{WT}/src/cli/tests/{extra}"
        shutil.copy(f"{md}/{extra}", dst)
        rc, out = sh(f"cargo test --offline -p kestrel-cli --test {extra[:-3]}", cwd=WT)
        os.remove(dst)
        return rc, out[-1500:], f"copy {extra} to src/cli/tests; cargo test --offline -p kestrel-cli --test {extra[:-3]}"
    for name in ("demo.sh", "cli_demo.sh"):
        if os.path.exists(f"{md}/{name}"):
            rc, out = sh(f"bash {md}/{name} {WT}", cwd=md)
            return rc, out[-1500:], f"bash {name} {WT}"
    return None, "no demo found", ""
for m in (sys.argv[2:] or ["m1", "m2"]):
    md = f"/tmp/mut/{ID}-out/{m}"
    if not os.path.exists(f"{md}/patch.diff"):
        continue
    res = {"id": ID, "m": m}
    sh("git checkout -- . && git clean -fdq src", cwd=WT)
    rc, out = sh(f"git apply {md}/patch.diff", cwd=WT)
    res["applies"] = rc == 0
    rc, out = sh("cargo test --workspace --no-fail-fast --offline", cwd=WT)
    passed = sum(int(x) for x in re.findall(r"test result: ok\. (\d+) passed", out)); failed = sum(int(x) for x in re.findall(r"(\d+) failed", out))
    res["tests_with_patch"] = {"rc": rc, "passed": passed, "failed": failed}
    rc, out, how = run_demo(md)
    res["demo_with_patch"] = {"rc": rc, "tail": out[-600:], "cmd": how}
    sh("git checkout -- . && git clean -fdq src", cwd=WT)
    rc, out, how = run_demo(md)
    res["demo_without_patch"] = {"rc": rc, "tail": out[-300:]}
    if os.path.isdir(f"{md}/demo"):
        sh("cargo clean", cwd=f"{md}/demo")
    res["confirmed"] = bool(res["applies"] and res["tests_with_patch"]["rc"] == 0 and passed == 33 and res["demo_with_patch"]["rc"] not in (0, None) and res["demo_without_patch"]["rc"] == 0)
    json.dump(res, open(f"{md}/confirm.json", "w"), indent=1)
    print(ID, m, "confirmed" if res["confirmed"] else "NOT CONFIRMED", res["tests_with_patch"], res["demo_with_patch"]["rc"], res["demo_without_patch"]["rc"])
