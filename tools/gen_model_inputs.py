#!/usr/bin/env python3
"""Translator: regenerate the *data* part of the Lean model from /repo's current sources.

Writes lean/KestrelModel/Generated.lean (only when its content changes) and
.cache/generated.json (values + which extractions degraded to the committed default).

What is extracted (anchored regular expressions over the Rust text, never line numbers):
constants and magic numbers on both the encrypt and the decrypt side, header slice offsets,
scrypt parameters (both copies), key-format lengths, the Noise protocol name and token pattern,
the Drop/Zeroize table of the secret containers, and the panic-site inventory of the
untrusted-input paths.
"""
import json, os, re, sys, hashlib

REPO = os.environ.get("KESTREL_REPO", "/repo")
VERIF = os.path.dirname(os.path.dirname(os.path.abspath(__file__)))
OUT = os.path.join(VERIF, "lean", "KestrelModel", "Generated.lean")
CACHE = os.path.join(VERIF, ".cache")

DEFAULTS = {
    "encPrologue": [0x65, 0x67, 0x6B, 0x10],
    "encPassMagic": [0x65, 0x67, 0x6B, 0x20],
    "decAsymMagic": [0x65, 0x67, 0x6B, 0x10],
    "decPassMagic": [0x65, 0x67, 0x6B, 0x20],
    "chunkSize": 65536,
    "tagSize": 16,
    "scryptN": 32768, "scryptR": 8, "scryptP": 1,
    "krScryptN": 32768, "krScryptR": 8, "krScryptP": 1,
    "handshakeLen": 128,
    "saltLen": 32,
    "privateKeyVersion": [0x65, 0x67, 0x6B, 0x30],
    "maxNameSize": 128,
    "privateKeyCtLen": 84,
    "publicKeyLen": 32,
    "encodedPkLen": 36,
    "hashLen": 32, "dhLen": 32,
    "protocolName": "Noise_X_25519_ChaChaPoly_SHA256",
    "tokenPattern": ["E", "ES", "S", "SS"],
    "encHdrCtr": [0, 8], "encHdrLast": [8, 12], "encHdrLen": [12, 16],
    "decHdrLast": [8, 12], "decHdrLen": [12, 16],
    "skVersion": [0, 4], "skSalt": [4, 36], "skCt": [36, 84],
    "nonceOffset": 4,
    "lastFlagValue": 1,
}

degraded = []


def read(rel):
    try:
        with open(os.path.join(REPO, rel), encoding="utf-8") as f:
            return f.read()
    except OSError:
        return ""


def strip_tests(src):
    i = src.find("#[cfg(test)]")
    return src if i < 0 else src[:i]


def grab(name, src, pattern, conv):
    m = re.search(pattern, src, re.S)
    if not m:
        degraded.append(name)
        return DEFAULTS[name]
    try:
        return conv(m)
    except Exception:
        degraded.append(name)
        return DEFAULTS[name]


def bytes_list(m):
    return [int(x, 0) for x in re.findall(r"0x[0-9a-fA-F]+|\d+", m.group(1))]


def intval(m):
    s = m.group(1).replace("_", "")
    mm = re.fullmatch(r"(\d+)\s*<<\s*(\d+)", s)
    if mm:
        return int(mm.group(1)) << int(mm.group(2))
    return int(s, 0)


def rng(m):
    a = m.group(1) or "0"
    b = m.group(2)
    return [int(a), int(b) if b else 16]


def extract():
    enc = strip_tests(read("src/crypto/src/encrypt.rs"))
    dec = strip_tests(read("src/crypto/src/decrypt.rs"))
    lib = strip_tests(read("src/crypto/src/lib.rs"))
    noise = strip_tests(read("src/crypto/src/noise.rs"))
    kr = strip_tests(read("src/cli/src/keyring.rs"))
    cmds = strip_tests(read("src/cli/src/commands.rs"))
    v = {}
    v["encPrologue"] = grab("encPrologue", enc, r"const\s+PROLOGUE\s*:\s*\[u8;\s*4\]\s*=\s*\[([^\]]*)\]", bytes_list)
    v["encPassMagic"] = grab("encPassMagic", enc, r"const\s+PASS_FILE_MAGIC\s*:\s*\[u8;\s*4\]\s*=\s*\[([^\]]*)\]", bytes_list)
    v["decAsymMagic"] = grab("decAsymMagic", dec, r"let\s+asym_v1\s*=\s*\[([^\]]*)\]", bytes_list)
    v["decPassMagic"] = grab("decPassMagic", dec, r"let\s+pass_v1\s*=\s*\[([^\]]*)\]", bytes_list)
    v["chunkSize"] = grab("chunkSize", lib, r"const\s+CHUNK_SIZE\s*:\s*u32\s*=\s*([0-9_x<\s]+);", intval)
    v["tagSize"] = grab("tagSize", lib, r"const\s+TAG_SIZE\s*:\s*usize\s*=\s*([0-9_x]+);", intval)
    for nm, key, src in (("SCRYPT_N", "scryptN", lib), ("SCRYPT_R", "scryptR", lib), ("SCRYPT_P", "scryptP", lib),
                         ("SCRYPT_N", "krScryptN", kr), ("SCRYPT_R", "krScryptR", kr), ("SCRYPT_P", "krScryptP", kr)):
        v[key] = grab(key, src, r"const\s+" + nm + r"\s*:\s*u32\s*=\s*([0-9_x<\s]+);", intval)
    v["handshakeLen"] = grab("handshakeLen", dec, r"let\s+mut\s+handshake_message\s*=\s*\[0u8;\s*(\d+)\]", intval)
    v["saltLen"] = grab("saltLen", dec, r"let\s+mut\s+salt\s*=\s*\[0u8;\s*(\d+)\]", intval)
    v["privateKeyVersion"] = grab("privateKeyVersion", kr, r"const\s+PRIVATE_KEY_VERSION\s*:\s*\[u8;\s*4\]\s*=\s*\[([^\]]*)\]", bytes_list)
    v["maxNameSize"] = grab("maxNameSize", kr, r"const\s+MAX_NAME_SIZE\s*:\s*usize\s*=\s*(\d+);", intval)
    v["privateKeyCtLen"] = grab("privateKeyCtLen", kr, r"const\s+PRIVATE_KEY_CT_LEN\s*:\s*usize\s*=\s*(\d+);", intval)
    v["publicKeyLen"] = grab("publicKeyLen", kr, r"const\s+PUBLIC_KEY_LEN\s*:\s*usize\s*=\s*(\d+);", intval)
    v["encodedPkLen"] = grab("encodedPkLen", kr, r"impl\s+TryFrom<&str>\s+for\s+EncodedPk.*?s\.len\(\)\s*!=\s*(\d+)", intval)
    v["hashLen"] = grab("hashLen", noise, r"const\s+HASH_LEN\s*:\s*usize\s*=\s*(\d+);", intval)
    v["dhLen"] = grab("dhLen", noise, r"const\s+DH_LEN\s*:\s*usize\s*=\s*(\d+);", intval)
    v["protocolName"] = grab("protocolName", noise, r'SymmetricState::new\(\s*"([^"]+)"\s*\)', lambda m: m.group(1))
    v["tokenPattern"] = grab("tokenPattern", noise, r"let\s+pattern\s*=\s*vec!\[([^\]]*)\]",
                             lambda m: re.findall(r"Token::(\w+)", m.group(1)))
    v["encHdrCtr"] = grab("encHdrCtr", enc, r"chunk_header\[(\d*)\.\.(\d*)\]\s*\.copy_from_slice\(&chunk_number", rng)
    v["encHdrLast"] = grab("encHdrLast", enc, r"chunk_header\[(\d*)\.\.(\d*)\]\s*\.copy_from_slice\(&last_chunk_indicator_bytes", rng)
    v["encHdrLen"] = grab("encHdrLen", enc, r"chunk_header\[(\d*)\.\.(\d*)\]\s*\.copy_from_slice\(&ciphertext_length_bytes", rng)
    v["decHdrLast"] = grab("decHdrLast", dec, r"last_chunk_indicator_bytes\s*:\s*\[u8;\s*4\]\s*=\s*chunk_header\[(\d*)\.\.(\d*)\]", rng)
    v["decHdrLen"] = grab("decHdrLen", dec, r"ciphertext_length_bytes\s*:\s*\[u8;\s*4\]\s*=\s*chunk_header\[(\d*)\.\.(\d*)\]", rng)
    v["skVersion"] = grab("skVersion", kr, r"let\s+version_aad\s*=\s*&key_bytes\[(\d*)\.\.(\d*)\]", rng)
    v["skSalt"] = grab("skSalt", kr, r"let\s+salt\s*=\s*&key_bytes\[(\d*)\.\.(\d*)\]", rng)
    v["skCt"] = grab("skCt", kr, r"let\s+ciphertext\s*=\s*&key_bytes\[(\d*)\.\.(\d*)\]", rng)
    v["nonceOffset"] = grab("nonceOffset", lib, r"fn\s+chapoly_encrypt_noise.*?final_nonce_bytes\[(\d+)\.\.\]\s*\.copy_from_slice", intval)
    v["lastFlagValue"] = grab("lastFlagValue", dec, r"if\s+last_chunk_indicator\s*==\s*(\d+)\s*\{", intval)

    # Drop / Zeroize table for the secret containers
    def drop_info(src, ty, field_pat):
        has_drop = re.search(r"impl\s+Drop\s+for\s+" + ty + r"\s*\{[^}]*fn\s+drop\s*\(&mut\s+self\)\s*\{[^}]*self\.zeroize\(\)", src, re.S) is not None
        zm = re.search(r"impl\s+Zeroize\s+for\s+" + ty + r"\s*\{[^}]*fn\s+zeroize\s*\(&mut\s+self\)\s*\{([^}]*)\}", src, re.S)
        covers = bool(zm and re.search(field_pat, zm.group(1)))
        # `a.clone_from(&b)` is `*a = b.clone()` (the old value of `a` is dropped, hence wiped) unless the type writes its own clone_from
        cm = re.search(r"impl\s+Clone\s+for\s+" + ty + r"\s*\{(.*?)\n\}", src, re.S)
        own_clone_from = bool(cm and re.search(r"fn\s+clone_from\s*\(", cm.group(1)))
        return {"dropZeroizes": has_drop, "zeroizeCoversSecret": covers, "assignDropsOld": not own_clone_from}
    v["containers"] = {
        "PrivateKey": drop_info(lib, "PrivateKey", r"self\.key(\.as_mut_slice\(\))?\.zeroize\(\)"),
        "PayloadKey": drop_info(lib, "PayloadKey", r"self\.key\.zeroize\(\)"),
        "ZeroedString": drop_info(cmds, "ZeroedString", r"self\.0\.zeroize\(\)"),
    }
    v["panicSites"] = panic_sites()
    v["flows"] = flows()
    return v


# ---- panic-site inventory ---------------------------------------------------------------------

UNTRUSTED = {
    "src/crypto/src/decrypt.rs": None,  # every fn
    "src/crypto/src/lib.rs": ["noise_decrypt", "chapoly_decrypt_noise", "chapoly_decrypt_ietf", "x25519",
                              "x25519_derive_public", "try_from", "to_public", "diffie_hellman", "new", "hkdf_sha256",
                              "sha256", "hmac_sha256", "hkdf_noise"],
    "src/crypto/src/noise.rs": ["read_message", "decrypt_and_hash", "decrypt_with_ad", "mix_key", "mix_hash",
                                "init_x", "get_pubkey", "set_nonce", "split", "new", "initialize_key"],
    "src/cli/src/keyring.rs": None,
    "src/cli/src/main.rs": None,
}

PANIC_PAT = re.compile(
    r"\.unwrap\(\)|\.expect\(|\bassert!\(|\bassert_eq!\(|\bunimplemented!\(|\bpanic!\(|\bunreachable!\(|"
    r"\.copy_from_slice\(|\[[^\[\]\n]*\.\.[^\[\]\n]*\]|\b\w+\[[A-Za-z_][\w\s+*\-]*\]|\.len\(\)\s*-\s*\w+")


def split_fns(src):
    """yield (fn name, body text) for each fn with a body, by bracket matching (signatures may contain `;`, e.g. `[u8; 32]`)"""
    for m in re.finditer(r"\bfn\s+(\w+)\s*(<[^>{]*>)?\s*\(", src):
        # skip the parameter list
        depth, j = 1, m.end()
        while j < len(src) and depth:
            depth += src[j] in "([" 
            depth -= src[j] in ")]"
            j += 1
        # the body starts at the first `{` before any `;` at bracket depth 0
        depth, i = 0, j
        while i < len(src):
            c = src[i]
            if c in "([<" and not (c == "<" and src[i - 1] == "-"):
                depth += 1
            elif c in ")]>" and not (c == ">" and src[i - 1] in "-="):
                depth = max(0, depth - 1)
            elif c == ";" and depth == 0:
                i = -1
                break
            elif c == "{":
                break
            i += 1
        if i < 0 or i >= len(src):
            continue
        depth, j = 0, i
        while j < len(src):
            c = src[j]
            if c == "{":
                depth += 1
            elif c == "}":
                depth -= 1
                if depth == 0:
                    break
            j += 1
        yield m.group(1), src[i:j + 1]


def strip_comments(s):
    s = re.sub(r"//[^\n]*", "", s)
    return re.sub(r"/\*.*?\*/", "", s, flags=re.S)


def panic_sites():
    sites = []
    for rel, fns in UNTRUSTED.items():
        src = strip_comments(strip_tests(read(rel)))
        for name, body in split_fns(src):
            if fns is not None and name not in fns:
                continue
            for m in PANIC_PAT.finditer(body):
                # normalised text: the statement around the match, whitespace collapsed
                a = max(body.rfind(";", 0, m.start()), body.rfind("{", 0, m.start()), body.rfind("}", 0, m.start())) + 1
                b = body.find(";", m.end())
                b = len(body) if b < 0 else b
                text = re.sub(r"\s+", " ", body[a:b]).strip()[:160]
                sites.append({"file": rel, "fn": name, "kind": kind_of(m.group(0)), "text": text})
    # de-duplicate, stable order
    seen, out = set(), []
    for s in sites:
        k = (s["file"], s["fn"], s["kind"], s["text"])
        if k not in seen:
            seen.add(k)
            out.append(s)
    return out


def kind_of(tok):
    if tok.startswith(".unwrap"): return "unwrap"
    if tok.startswith(".expect"): return "expect"
    if tok.startswith("assert"): return "assert"
    if tok.startswith("unimplemented") or tok.startswith("panic") or tok.startswith("unreachable"): return "panic"
    if tok.startswith(".copy_from_slice"): return "copy_from_slice"
    if tok.startswith(".len()"): return "sub"
    return "index"


# ---- control-flow skeletons -------------------------------------------------------------------

FLOW_FNS = [
    ("src/crypto/src/encrypt.rs", "key_encrypt"), ("src/crypto/src/encrypt.rs", "pass_encrypt"), ("src/crypto/src/encrypt.rs", "encrypt_chunks"),
    ("src/crypto/src/decrypt.rs", "key_decrypt"), ("src/crypto/src/decrypt.rs", "pass_decrypt"), ("src/crypto/src/decrypt.rs", "decrypt_chunks"),
    ("src/crypto/src/lib.rs", "noise_decrypt"), ("src/crypto/src/lib.rs", "chapoly_decrypt_ietf"), ("src/crypto/src/lib.rs", "chapoly_encrypt_noise"), ("src/crypto/src/lib.rs", "chapoly_decrypt_noise"),
    ("src/crypto/src/noise.rs", "write_message"), ("src/crypto/src/noise.rs", "read_message"), ("src/crypto/src/noise.rs", "init_x"),
    ("src/cli/src/commands.rs", "ensure_created"), ("src/cli/src/commands.rs", "gen_key"), ("src/cli/src/commands.rs", "change_pass"),
    ("src/cli/src/commands.rs", "pass_encrypt"), ("src/cli/src/commands.rs", "pass_decrypt"), ("src/cli/src/commands.rs", "decrypt"), ("src/cli/src/commands.rs", "encrypt"),
    ("src/cli/src/keyring.rs", "lock_private_key"), ("src/cli/src/keyring.rs", "unlock_private_key"), ("src/cli/src/keyring.rs", "get_name_from_key"),
]

FLOW_TOKENS = [
    (r"\.read_exact\(", "read_exact"), (r"\.read\(", "read"), (r"\.write_all\(", "write_all"), (r"\.write\(", "write"), (r"\.flush\(\)", "flush"),
    (r"chapoly_encrypt_noise\(", "seal"), (r"chapoly_decrypt_noise\(", "open"), (r"chapoly_encrypt_ietf\(", "seal_ietf"), (r"chapoly_decrypt_ietf\(", "open_ietf"), (r"chapoly::open\(", "aead_open"), (r"chapoly::seal\(", "aead_seal"),
    (r"noise_encrypt\(", "noise_write"), (r"noise_decrypt\(", "noise_read"), (r"hkdf_sha256\(", "hkdf"), (r"kestrel_crypto::scrypt\(|\bscrypt\(", "scrypt"), (r"valid_file_format\(", "magic_check"),
    (r"return Err\((?:\w+::)?(\w+)", "err"), (r"chunk_number \+= 1", "ctr+=1"), (r"\bloop\s*\{", "loop"), (r"\bbreak;", "break"), (r"secure_random\(", "random"), (r"PrivateKey::generate\(", "random_key"),
    (r"\.mix_hash\(", "mix_hash"), (r"\.mix_key\(", "mix_key"), (r"\.encrypt_and_hash\(", "encrypt_and_hash"), (r"\.decrypt_and_hash\(", "decrypt_and_hash"), (r"\.diffie_hellman\(", "dh"),
    (r"File::create\(", "file_create"), (r"\.append\(true\)", "open_append"), (r"\.truncate\(true\)", "open_truncate"), (r"OpenOptions::new\(", "open_options"),
    (r"lock_private_key\(", "lock"), (r"unlock_private_key\(", "unlock"), (r"encrypt::key_encrypt\(", "lib_key_encrypt"), (r"decrypt::key_decrypt\(", "lib_key_decrypt"),
    (r"encrypt::pass_encrypt\(", "lib_pass_encrypt"), (r"decrypt::pass_decrypt\(", "lib_pass_decrypt"), (r"open_output\(", "open_output"), (r"open_input\(", "open_input"), (r"open_keyring\(", "open_keyring"),
    (r"ask_pass\(|confirm_password\(|confirm_new_pass\(", "ask_pass"), (r"println!\(", "println"), (r"\.zeroize\(\)", "zeroize"), (r"==\s*pk\.as_str\(\)|\.as_str\(\)\s*==", "str_eq"),
    (r"final_nonce_bytes\[4\.\.\]", "nonce[4..]"), (r"to_le_bytes\(\)", "le_bytes"), (r"to_be_bytes\(\)", "be_bytes"), (r"if\s+ciphertext_length\s*>\s*chunk_size", "len>cs"), (r"last_chunk_indicator\s*==\s*1", "last==1"),
    (r"ciphertext\.len\(\)\s*<\s*TAG_SIZE", "len<tag"), (r"message\.len\(\)\s*<\s*96", "len<96"),
]


def flows():
    out = []
    big = re.compile("|".join(f"(?P<t{i}>{pat})" for i, (pat, _) in enumerate(FLOW_TOKENS)))
    for rel, fn in FLOW_FNS:
        src = strip_comments(strip_tests(read(rel)))
        body = None
        for name, b in split_fns(src):
            if name == fn:
                body = b
                break
        seq = []
        if body is not None:
            for m in big.finditer(body):
                for i, (pat, label) in enumerate(FLOW_TOKENS):
                    if m.group(f"t{i}") is not None:
                        if label == "err":
                            sub = re.match(pat, m.group(0))
                            label = "err:" + (sub.group(1) if sub else "?")
                        seq.append(label)
                        break
        out.append((rel.split("/")[-1] + "::" + fn, seq))
    return out


# ---- Lean rendering ---------------------------------------------------------------------------

def lean_bytes(bs):
    return "[" + ", ".join(str(b) for b in bs) + "]"


def render(v):
    L = []
    A = L.append
    A("/-")
    A("  GENERATED by tools/gen_model_inputs.py from /repo's current sources. Do not edit.")
    A("  Constants, offsets and tables of the Rust code, as data for the model and its theorems.")
    A("-/")
    A("import KestrelModel.Bytes")
    A("namespace Kestrel.Generated")
    A("")
    for k in ("encPrologue", "encPassMagic", "decAsymMagic", "decPassMagic", "privateKeyVersion"):
        A(f"def {k} : Bytes := {lean_bytes(v[k])}")
    for k in ("chunkSize", "tagSize", "scryptN", "scryptR", "scryptP", "krScryptN", "krScryptR", "krScryptP",
              "handshakeLen", "saltLen", "maxNameSize", "privateKeyCtLen", "publicKeyLen", "encodedPkLen",
              "hashLen", "dhLen", "nonceOffset", "lastFlagValue"):
        A(f"def {k} : Nat := {v[k]}")
    A(f'def protocolName : String := "{v["protocolName"]}"')
    A(f'def protocolNameBytes : Bytes := {lean_bytes(list(v["protocolName"].encode()))}')
    A("inductive Token | E | S | EE | ES | SE | SS")
    A("deriving DecidableEq, Repr")
    A("def tokenPattern : List Token := [" + ", ".join("." + t for t in v["tokenPattern"]) + "]")
    for k in ("encHdrCtr", "encHdrLast", "encHdrLen", "decHdrLast", "decHdrLen", "skVersion", "skSalt", "skCt"):
        A(f"def {k} : Nat × Nat := ({v[k][0]}, {v[k][1]})")
    A("")
    A("structure Container where")
    A("  name : String")
    A("  dropZeroizes : Bool")
    A("  zeroizeCoversSecret : Bool")
    A("  assignDropsOld : Bool")
    A("deriving Repr, DecidableEq")
    A("def containers : List Container := [")
    items = []
    for n, d in v["containers"].items():
        items.append(f'  ⟨"{n}", {str(d["dropZeroizes"]).lower()}, {str(d["zeroizeCoversSecret"]).lower()}, {str(d["assignDropsOld"]).lower()}⟩')
    A(",\n".join(items) + "]")
    A("")
    A("structure PanicSite where")
    A("  file : String")
    A("  fn : String")
    A("  kind : String")
    A("  text : String")
    A("deriving Repr, DecidableEq")
    A("def panicSites : List PanicSite := [")
    items = []
    for s in v["panicSites"]:
        esc = lambda t: t.replace("\\", "\\\\").replace('"', '\\"')
        items.append(f'  ⟨"{esc(s["file"])}", "{esc(s["fn"])}", "{esc(s["kind"])}", "{esc(s["text"])}"⟩')
    A(",\n".join(items) + "]")
    A("")
    A("/-- control-flow skeletons: for each function the sequence of significant calls / guards / returns in source order -/")
    A("def flows : List (String × List String) := [")
    A(",\n".join("  (" + json.dumps(n) + ", [" + ", ".join(json.dumps(t) for t in seq) + "])" for n, seq in v["flows"]) + "]")
    for n, seq in v["flows"]:
        A("def flow_" + re.sub(r"[^A-Za-z0-9]+", "_", n) + " : List String := [" + ", ".join(json.dumps(t) for t in seq) + "]")
    A("")
    A("end Kestrel.Generated")
    return "\n".join(L) + "\n"


def main():
    v = extract()
    text = render(v)
    os.makedirs(CACHE, exist_ok=True)
    old = None
    try:
        old = open(OUT, encoding="utf-8").read()
    except OSError:
        pass
    changed = old != text
    if changed:
        tmp = OUT + ".tmp"
        with open(tmp, "w", encoding="utf-8") as f:
            f.write(text)
        os.replace(tmp, OUT)
    v["extraction_degraded"] = degraded
    v["changed"] = changed
    v["sha256"] = hashlib.sha256(text.encode()).hexdigest()
    with open(os.path.join(CACHE, "generated.json"), "w") as f:
        json.dump(v, f, indent=1)
    print(json.dumps({"changed": changed, "degraded": degraded, "panic_sites": len(v["panicSites"])}))


if __name__ == "__main__":
    main()
