#!/usr/bin/env python3
"""Translator: regenerate the *data* part of the Lean model from /repo's current sources.

Writes lean/KestrelModel/Generated.lean (only when its content changes) and
.cache/generated.json (values + which extractions degraded to the committed default).

What is extracted (anchored regular expressions over the Rust text, never line numbers):
constants and magic numbers on both the encrypt and the decrypt side, header slice offsets,
scrypt parameters (both copies), key-format lengths, the Noise protocol name and token pattern,
the Drop/Zeroize table of the secret containers, and the panic-site inventory of the
untrusted-input paths.
"""
import json, os, re, sys, hashlib

REPO = os.environ.get("KESTREL_REPO", "/repo")
VERIF = os.path.dirname(os.path.dirname(os.path.abspath(__file__)))
OUT = os.path.join(VERIF, "lean", "KestrelModel", "Generated.lean")
CACHE = os.path.join(VERIF, ".cache")

DEFAULTS = {
    "encPrologue": [0x65, 0x67, 0x6B, 0x10],
    "encPassMagic": [0x65, 0x67, 0x6B, 0x20],
    "decAsymMagic": [0x65, 0x67, 0x6B, 0x10],
    "decPassMagic": [0x65, 0x67, 0x6B, 0x20],
    "chunkSize": 65536,
    "tagSize": 16,
    "scryptN": 32768, "scryptR": 8, "scryptP": 1,
    "krScryptN": 32768, "krScryptR": 8, "krScryptP": 1,
    "handshakeLen": 128,
    "saltLen": 32,
    "privateKeyVersion": [0x65, 0x67, 0x6B, 0x30],
    "maxNameSize": 128,
    "privateKeyCtLen": 84,
    "publicKeyLen": 32,
    "encodedPkLen": 36,
    "hashLen": 32, "dhLen": 32,
    "protocolName": "Noise_X_25519_ChaChaPoly_SHA256",
    "tokenPattern": ["E", "ES", "S", "SS"],
    "encHdrCtr": [0, 8], "encHdrLast": [8, 12], "encHdrLen": [12, 16],
    "decHdrLast": [8, 12], "decHdrLen": [12, 16],
    "skVersion": [0, 4], "skSalt": [4, 36], "skCt": [36, 84],
    "nonceOffset": 4,
    "lastFlagValue": 1,
}

degraded = []


def read(rel):
    try:
        with open(os.path.join(REPO, rel), encoding="utf-8") as f:
            return f.read()
    except OSError:
        return ""


def strip_tests(src):
    i = src.find("#[cfg(test)]")
    return src if i < 0 else src[:i]


SRC_FILES = ["src/crypto/src/lib.rs", "src/crypto/src/encrypt.rs", "src/crypto/src/decrypt.rs", "src/crypto/src/noise.rs",
             "src/crypto/src/scrypt.rs", "src/cli/src/keyring.rs", "src/cli/src/commands.rs", "src/cli/src/main.rs", "src/ffi/src/lib.rs"]
CRATE_ROOT = {"src/crypto/src/": "src/crypto/src/lib.rs", "src/cli/src/": "src/cli/src/main.rs", "src/ffi/src/": "src/ffi/src/lib.rs"}
INT_TYPES = r"(?:usize|u8|u16|u32|u64|u128|isize|i8|i16|i32|i64)"


def _eval_int(expr, table):
    """value of a constant integer expression over literals and already known constants, or None"""
    import ast
    e = re.sub(r"\bas\s+" + INT_TYPES + r"\b", "", expr)
    e = re.sub(r"\b(\d[\d_]*|0x[0-9a-fA-F_]+)(?:" + INT_TYPES + r")\b", r"\1", e).replace("_", "") if re.search(r"\d_\d", e) or re.search(r"\d(?:usize|u\d+|i\d+)", e) else e
    e = re.sub(r"\b(?:crate|self|super)::", "", e)
    def sub(m):
        return str(table[m.group(0)]) if m.group(0) in table else m.group(0)
    e = re.sub(r"\b[A-Z][A-Z0-9_]*\b", sub, e)
    try:
        tree = ast.parse(e.strip(), mode="eval")
    except SyntaxError:
        return None
    def ev(n):
        if isinstance(n, ast.Expression): return ev(n.body)
        if isinstance(n, ast.Constant) and isinstance(n.value, int): return n.value
        if isinstance(n, ast.BinOp):
            a, b = ev(n.left), ev(n.right)
            if a is None or b is None: return None
            if isinstance(n.op, ast.Add): return a + b
            if isinstance(n.op, ast.Sub): return a - b
            if isinstance(n.op, ast.Mult): return a * b
            if isinstance(n.op, ast.Div) or isinstance(n.op, ast.FloorDiv): return a // b if b else None
            if isinstance(n.op, ast.LShift): return a << b
            if isinstance(n.op, ast.RShift): return a >> b
        return None
    return ev(tree)


def const_table(rel):
    """integer constants visible in file `rel`: its own `const NAME: T = EXPR;` items (any nesting), then those of the crate root"""
    table = {}
    files = [rel]
    for pre, root in CRATE_ROOT.items():
        if rel.startswith(pre) and root != rel:
            files.append(root)
    for f in reversed(files):          # crate root first, the file's own definitions override
        src = strip_comments(strip_tests(read(f)))
        items = re.findall(r"\bconst\s+([A-Z][A-Z0-9_]*)\s*:\s*" + INT_TYPES + r"\s*=\s*([^;]+);", src)
        arrays = dict(re.findall(r"\bconst\s+([A-Z][A-Z0-9_]*)\s*:\s*\[\s*\w+\s*;\s*(\d+)\s*\]", src))
        items = [(n, re.sub(r"\b([A-Z][A-Z0-9_]*)\.len\(\)", lambda m: arrays.get(m.group(1), m.group(0)), e)) for n, e in items]
        for _ in range(3):             # constants defined in terms of later ones
            for name, expr in items:
                v = _eval_int(expr, table)
                if v is not None:
                    table[name] = v
    return table


def resolve_consts(src, rel):
    """replace every use of a named integer constant by its value (definitions themselves are left alone)"""
    table = const_table(rel)
    if not table:
        return src
    pat = re.compile(r"(?<![\w:])(?:(?:crate|self|super)::)?(" + "|".join(sorted(map(re.escape, table), key=len, reverse=True)) + r")\b(?!\s*[:(!])")

    def put(text):
        def rep(k):
            i = k.start()
            if i > 0 and text[i - 1] == "." and not (i > 1 and text[i - 2] == "."):
                return k.group(0)          # a field or method of that name, not the constant
            return str(table[k.group(1)])
        return pat.sub(rep, text)
    out, pos = [], 0
    for m in re.finditer(r"\bconst\s+[A-Z][A-Z0-9_]*\s*:[^;]*;", src):
        out.append(put(src[pos:m.start()]))
        out.append(m.group(0))
        pos = m.end()
    out.append(put(src[pos:]))
    return "".join(out)


def code(rel):
    """the non-test code of a file without comments and with named integer constants resolved"""
    return resolve_consts(strip_comments(strip_tests(read(rel))), rel)


def grab(name, src, pattern, conv):
    m = re.search(pattern, src, re.S)
    if not m:
        degraded.append(name)
        return DEFAULTS[name]
    try:
        return conv(m)
    except Exception:
        degraded.append(name)
        return DEFAULTS[name]


def bytes_list(m):
    return [int(x, 0) for x in re.findall(r"0x[0-9a-fA-F]+|\d+", m.group(1))]


def intval(m):
    s = m.group(1).replace("_", "")
    mm = re.fullmatch(r"(\d+)\s*<<\s*(\d+)", s)
    if mm:
        return int(mm.group(1)) << int(mm.group(2))
    return int(s, 0)


def rng(m):
    a = m.group(1) or "0"
    b = m.group(2)
    return [int(a), int(b) if b else 16]


def extract():
    # constant DEFINITIONS are read from the plain text; everything inside function bodies from the text with named
    # integer constants resolved, so that `[0u8; HANDSHAKE_LEN]` and `[0u8; 128]` are the same thing to the translator
    enc = code("src/crypto/src/encrypt.rs")
    dec = code("src/crypto/src/decrypt.rs")
    lib = code("src/crypto/src/lib.rs")
    noise = code("src/crypto/src/noise.rs")
    kr = code("src/cli/src/keyring.rs")
    cmds = code("src/cli/src/commands.rs")
    v = {}
    v["encPrologue"] = grab("encPrologue", enc, r"const\s+PROLOGUE\s*:\s*\[u8;\s*4\]\s*=\s*\[([^\]]*)\]", bytes_list)
    v["encPassMagic"] = grab("encPassMagic", enc, r"const\s+PASS_FILE_MAGIC\s*:\s*\[u8;\s*4\]\s*=\s*\[([^\]]*)\]", bytes_list)
    vff = dict(split_fns(dec)).get("valid_file_format", "")
    lits = re.findall(r"\[\s*((?:0x[0-9a-fA-F]+|\d+)\s*(?:,\s*(?:0x[0-9a-fA-F]+|\d+)\s*){3}),?\s*\]", vff)
    class _M:
        def __init__(self, t): self.t = t
        def group(self, i): return self.t
    v["decAsymMagic"] = bytes_list(_M(lits[0])) if len(lits) >= 2 else (degraded.append("decAsymMagic") or DEFAULTS["decAsymMagic"])
    v["decPassMagic"] = bytes_list(_M(lits[1])) if len(lits) >= 2 else (degraded.append("decPassMagic") or DEFAULTS["decPassMagic"])
    v["chunkSize"] = grab("chunkSize", lib, r"const\s+CHUNK_SIZE\s*:\s*u32\s*=\s*([0-9_x<\s]+);", intval)
    v["tagSize"] = grab("tagSize", lib, r"const\s+TAG_SIZE\s*:\s*usize\s*=\s*([0-9_x]+);", intval)
    for nm, key, src in (("SCRYPT_N", "scryptN", lib), ("SCRYPT_R", "scryptR", lib), ("SCRYPT_P", "scryptP", lib),
                         ("SCRYPT_N", "krScryptN", kr), ("SCRYPT_R", "krScryptR", kr), ("SCRYPT_P", "krScryptP", kr)):
        v[key] = grab(key, src, r"const\s+" + nm + r"\s*:\s*u32\s*=\s*([0-9_x<\s]+);", intval)
    v["handshakeLen"] = grab("handshakeLen", dec, r"let\s+mut\s+handshake_message\s*=\s*\[0u8;\s*(\d+)\]", intval)
    v["saltLen"] = grab("saltLen", dec, r"let\s+mut\s+salt\s*=\s*\[0u8;\s*(\d+)\]", intval)
    v["privateKeyVersion"] = grab("privateKeyVersion", kr, r"const\s+PRIVATE_KEY_VERSION\s*:\s*\[u8;\s*4\]\s*=\s*\[([^\]]*)\]", bytes_list)
    v["maxNameSize"] = grab("maxNameSize", kr, r"const\s+MAX_NAME_SIZE\s*:\s*usize\s*=\s*(\d+);", intval)
    v["privateKeyCtLen"] = grab("privateKeyCtLen", kr, r"const\s+PRIVATE_KEY_CT_LEN\s*:\s*usize\s*=\s*(\d+);", intval)
    v["publicKeyLen"] = grab("publicKeyLen", kr, r"const\s+PUBLIC_KEY_LEN\s*:\s*usize\s*=\s*(\d+);", intval)
    v["encodedPkLen"] = grab("encodedPkLen", kr, r"impl\s+TryFrom<&str>\s+for\s+EncodedPk(?:(?!\bimpl\b).)*?\b\w+\.len\(\)\s*!=\s*(\d+)", intval)
    v["hashLen"] = grab("hashLen", noise, r"const\s+HASH_LEN\s*:\s*usize\s*=\s*(\d+);", intval)
    v["dhLen"] = grab("dhLen", noise, r"const\s+DH_LEN\s*:\s*usize\s*=\s*(\d+);", intval)
    v["protocolName"] = grab("protocolName", noise, r'(?:SymmetricState::new\(\s*|const\s+\w+\s*:\s*&(?:\'static\s+)?(?:str|\[u8\])\s*=\s*b?)"(Noise_[^"]+)"', lambda m: m.group(1))
    v["tokenPattern"] = grab("tokenPattern", noise, r"let\s+pattern\s*=\s*vec!\[([^\]]*)\]",
                             lambda m: re.findall(r"Token::(\w+)", m.group(1)))
    v["encHdrCtr"] = grab("encHdrCtr", enc, r"chunk_header\[(\d*)\.\.(\d*)\]\s*\.copy_from_slice\(&chunk_number", rng)
    v["encHdrLast"] = grab("encHdrLast", enc, r"chunk_header\[(\d*)\.\.(\d*)\]\s*\.copy_from_slice\(&last_chunk_indicator_bytes", rng)
    v["encHdrLen"] = grab("encHdrLen", enc, r"chunk_header\[(\d*)\.\.(\d*)\]\s*\.copy_from_slice\(&ciphertext_length_bytes", rng)
    v["decHdrLast"] = grab("decHdrLast", dec, r"last_chunk_indicator_bytes\s*:\s*\[u8;\s*4\]\s*=\s*chunk_header\[(\d*)\.\.(\d*)\]", rng)
    v["decHdrLen"] = grab("decHdrLen", dec, r"ciphertext_length_bytes\s*:\s*\[u8;\s*4\]\s*=\s*chunk_header\[(\d*)\.\.(\d*)\]", rng)
    v["skVersion"] = grab("skVersion", kr, r"let\s+version_aad\s*=\s*&key_bytes\[(\d*)\.\.(\d*)\]", rng)
    v["skSalt"] = grab("skSalt", kr, r"let\s+salt\s*=\s*&key_bytes\[(\d*)\.\.(\d*)\]", rng)
    v["skCt"] = grab("skCt", kr, r"let\s+ciphertext\s*=\s*&key_bytes\[(\d*)\.\.(\d*)\]", rng)
    v["nonceOffset"] = grab("nonceOffset", lib, r"fn\s+chapoly_encrypt_noise.*?final_nonce_bytes\[(\d+)\.\.\]\s*\.copy_from_slice", intval)
    v["lastFlagValue"] = grab("lastFlagValue", dec, r"\blast_chunk_indicator\s*==\s*(\d+)\b", intval)

    # Drop / Zeroize table for the secret containers
    def drop_info(src, ty, field_pat):
        has_drop = re.search(r"impl\s+Drop\s+for\s+" + ty + r"\s*\{[^}]*fn\s+drop\s*\(&mut\s+self\)\s*\{[^}]*self\.zeroize\(\)", src, re.S) is not None
        zm = re.search(r"impl\s+Zeroize\s+for\s+" + ty + r"\s*\{[^}]*fn\s+zeroize\s*\(&mut\s+self\)\s*\{([^}]*)\}", src, re.S)
        covers = bool(zm and re.search(field_pat, zm.group(1)))
        # `a.clone_from(&b)` is `*a = b.clone()` (the old value of `a` is dropped, hence wiped) unless the type writes its own clone_from
        cm = re.search(r"impl\s+Clone\s+for\s+" + ty + r"\s*\{(.*?)\n\}", src, re.S)
        own_clone_from = bool(cm and re.search(r"fn\s+clone_from\s*\(", cm.group(1)))
        return {"dropZeroizes": has_drop, "zeroizeCoversSecret": covers, "assignDropsOld": not own_clone_from}
    v["containers"] = {
        "PrivateKey": drop_info(lib, "PrivateKey", r"self\.key(\.as_mut_slice\(\))?\.zeroize\(\)"),
        "PayloadKey": drop_info(lib, "PayloadKey", r"self\.key\.zeroize\(\)"),
        "ZeroedString": drop_info(cmds, "ZeroedString", r"self\.0\.zeroize\(\)"),
    }
    v["staticState"] = static_state()
    v["panicSites"] = panic_sites()
    v["flows"] = flows()
    return v


# ---- hidden state ------------------------------------------------------------------------------------------------

def static_state():
    """The Lean model treats every library and CLI function as a function of its arguments (plus the I/O scripts and the
    random source).  That is only right if the code keeps no state between calls: this lists every `static` item,
    `thread_local!` and `lazy_static!` of the non-test code, per crate.  The pinned value is the empty list."""
    out = {"crypto": [], "cli": [], "ffi": []}
    for rel in SRC_FILES:
        crate = rel.split("/")[1]
        src = strip_comments(strip_tests(read(rel)))
        src = re.sub(r'"(?:[^"\\]|\\.)*"', '""', src)
        for m in re.finditer(r"(?<!')\bstatic\s+(?:mut\s+)?([A-Za-z_]\w*)\s*:", src):
            out[crate].append(f"{rel.split('/')[-1]}: static {m.group(1)}")
        for m in re.finditer(r"\b(thread_local|lazy_static)!\s*[({]", src):
            out[crate].append(f"{rel.split('/')[-1]}: {m.group(1)}!")
    return out


# ---- panic-site inventory ---------------------------------------------------------------------

UNTRUSTED = {
    "src/crypto/src/decrypt.rs": None,  # every fn
    "src/crypto/src/lib.rs": ["noise_decrypt", "chapoly_decrypt_noise", "chapoly_decrypt_ietf", "x25519",
                              "x25519_derive_public", "try_from", "to_public", "diffie_hellman", "new", "hkdf_sha256",
                              "sha256", "hmac_sha256", "hkdf_noise"],
    "src/crypto/src/noise.rs": None,        # every fn: helpers extracted from the reader (a shared DH step, say) are on the untrusted path too
    "src/cli/src/keyring.rs": None,
    "src/cli/src/main.rs": None,
}

PANIC_PAT = re.compile(
    r"\.unwrap\(\)|\.expect\(|\bassert!\(|\bassert_eq!\(|\bunimplemented!\(|\bpanic!\(|\bunreachable!\(|"
    r"\.copy_from_slice\(|\[[^\[\]\n]*\.\.[^\[\]\n]*\]|\b\w+\[[A-Za-z_][\w\s+*\-]*\]|\.len\(\)\s*-\s*\w+")


def split_fns(src, with_sig=False):
    """yield (fn name, body text[, signature text]) for each fn with a body, by bracket matching (signatures may contain `;`, e.g. `[u8; 32]`)"""
    for m in re.finditer(r"\bfn\s+(\w+)\s*(<[^>{]*>)?\s*\(", src):
        # skip the parameter list
        depth, j = 1, m.end()
        while j < len(src) and depth:
            depth += src[j] in "([" 
            depth -= src[j] in ")]"
            j += 1
        # the body starts at the first `{` before any `;` at bracket depth 0
        depth, i = 0, j
        while i < len(src):
            c = src[i]
            if c in "([<" and not (c == "<" and src[i - 1] == "-"):
                depth += 1
            elif c in ")]>" and not (c == ">" and src[i - 1] in "-="):
                depth = max(0, depth - 1)
            elif c == ";" and depth == 0:
                i = -1
                break
            elif c == "{":
                break
            i += 1
        if i < 0 or i >= len(src):
            continue
        depth, j = 0, i
        while j < len(src):
            c = src[j]
            if c == "{":
                depth += 1
            elif c == "}":
                depth -= 1
                if depth == 0:
                    break
            j += 1
        if with_sig:
            yield m.group(1), src[i:j + 1], src[m.start():i]
        else:
            yield m.group(1), src[i:j + 1]


def strip_comments(s):
    s = re.sub(r"//[^\n]*", "", s)
    return re.sub(r"/\*.*?\*/", "", s, flags=re.S)


def local_names(sig_and_body):
    """names a function binds: parameters, let-bindings (incl. tuple patterns), closure parameters, loop variables, match/if-let binders"""
    names = set()
    m = re.match(r"[^{]*", sig_and_body)
    for n in re.findall(r"\b(?:mut\s+)?([a-z_]\w*)\s*:", sig_and_body[: sig_and_body.find("{") if "{" in sig_and_body else 0]):
        names.add(n)
    for pat in re.findall(r"\blet\s+(?:mut\s+)?(\([^)]*\)|[a-z_]\w*)", sig_and_body):
        names.update(re.findall(r"[a-z_]\w*", pat.replace("mut ", " ")))
    for pat in re.findall(r"\bfor\s+(\([^)]*\)|[a-z_]\w*)\s+in\b", sig_and_body):
        names.update(re.findall(r"[a-z_]\w*", pat))
    for pat in re.findall(r"\|([^|()]{1,60})\|", sig_and_body):
        names.update(re.findall(r"\b([a-z_]\w*)\b(?!\s*::)", re.sub(r":[^,|]*", "", pat)))
    for pat in re.findall(r"\b(?:Some|Ok|Err)\(\s*(?:ref\s+|mut\s+)?([a-z_]\w*)\s*\)\s*(?:=>|=)", sig_and_body):
        names.add(pat)
    names -= {"self", "mut", "ref", "_"}
    return names


def _balanced_back(text, i):
    """start index of the postfix expression that ends at text[:i] (identifiers, paths, field/method chains, calls, indexing, `?`)"""
    j = i
    while j > 0:
        c = text[j - 1]
        if c.isspace():
            k = j - 1
            while k > 0 and text[k - 1].isspace():
                k -= 1
            # whitespace inside a method chain (`foo\n   .bar()`): continue only if what follows the blank is a `.`
            if k > 0 and text[j:j + 1] == "." or (j < len(text) and text[j] == "."):
                j = k
                continue
            break
        if c in ")]":
            depth, k = 0, j - 1
            while k >= 0:
                if text[k] in ")]":
                    depth += 1
                elif text[k] in "([":
                    depth -= 1
                    if depth == 0:
                        break
                k -= 1
            j = max(k, 0)
            continue
        if c.isalnum() or c in "_.?:&!":
            if c == "&" and not (j - 2 >= 0 and text[j - 2] in "(,= \n[&"):
                break
            j -= 1
            continue
        break
    return j


def _balanced_fwd(text, i):
    """index just after the bracket that closes the one at text[i]"""
    depth = 0
    for k in range(i, len(text)):
        if text[k] in "([{":
            depth += 1
        elif text[k] in ")]}":
            depth -= 1
            if depth == 0:
                return k + 1
    return len(text)


def site_expr(body, m, kind):
    """the panic-capable EXPRESSION (not the statement around it)"""
    if kind in ("unwrap", "expect"):
        a = _balanced_back(body, m.start())
        return body[a:m.start()] + (".unwrap()" if kind == "unwrap" else ".expect(_)")
    if kind in ("assert", "panic"):
        o = body.find("(", m.start())
        e = _balanced_fwd(body, o)
        txt = body[m.start():e]
        return re.sub(r'"[^"]*"', '"_"', txt)
    if kind == "copy_from_slice":
        a = _balanced_back(body, m.start())
        o = body.find("(", m.start())
        return body[a:_balanced_fwd(body, o)]
    if kind == "sub":
        a = _balanced_back(body, m.start())
        return body[a:m.end()]
    # index / slice: `name[ … ]`
    txt = m.group(0)
    if not re.match(r"\w", txt):           # the range form matched from `[`: prepend the indexed expression
        a = _balanced_back(body, m.start())
        txt = body[a:m.end()]
    return txt


def normalise(expr, locals_):
    t = re.sub(r"\s+", " ", expr).strip()
    t = re.sub(r"\b([a-z_]\w*)\b(?!\s*(?:\(|::|!))", lambda k: "_" if (k.group(1) in locals_ and not _is_field(t, k.start())) else k.group(1), t)
    t = re.sub(r"\s*([\[\]().,&])\s*", r"\1", t)
    t = re.sub(r"\s*([-+*<>=])\s*", r" \1 ", t).replace(". .", "..").replace(" .. ", "..")
    t = re.sub(r"^(&mut |&)+", "", t)
    return t[:160]


def _is_field(t, i):
    return i > 0 and t[i - 1] == "." and not (i > 1 and t[i - 2] == ".")


def panic_sites():
    """every panic-capable expression of the untrusted-input paths, keyed by (file, fn, kind, normalised expression) — local
    variable names are anonymised and named constants resolved, so that renaming a local or naming a literal changes nothing;
    duplicates are KEPT (the obligation is a multiset inclusion: a second `_.unwrap()` in a function is a new site)."""
    sites = []
    for rel, fns in UNTRUSTED.items():
        src = code(rel)
        for name, body, sig in split_fns(src, with_sig=True):
            if fns is not None and name not in fns:
                continue
            locs = local_names(sig + body)
            for m in PANIC_PAT.finditer(body):
                kind = kind_of(m.group(0))
                if kind == "index" and re.match(r"\[\s*(?:0x[0-9a-f]+|\d+)\w*\s*;", m.group(0)):
                    continue
                text = normalise(site_expr(body, m, kind), locs)
                if kind == "index" and re.match(r"^(vec!|\w+!)?\[", text):
                    continue            # an array literal / macro, not an indexing
                sites.append({"file": rel, "fn": name, "kind": kind, "text": text})
    return sites


def kind_of(tok):
    if tok.startswith(".unwrap"): return "unwrap"
    if tok.startswith(".expect"): return "expect"
    if tok.startswith("assert"): return "assert"
    if tok.startswith("unimplemented") or tok.startswith("panic") or tok.startswith("unreachable"): return "panic"
    if tok.startswith(".copy_from_slice"): return "copy_from_slice"
    if tok.startswith(".len()"): return "sub"
    return "index"


# ---- control-flow skeletons -------------------------------------------------------------------

FLOW_FNS = [
    ("src/crypto/src/encrypt.rs", "key_encrypt"), ("src/crypto/src/encrypt.rs", "pass_encrypt"), ("src/crypto/src/encrypt.rs", "encrypt_chunks"),
    ("src/crypto/src/decrypt.rs", "key_decrypt"), ("src/crypto/src/decrypt.rs", "pass_decrypt"), ("src/crypto/src/decrypt.rs", "decrypt_chunks"),
    ("src/crypto/src/lib.rs", "noise_decrypt"), ("src/crypto/src/lib.rs", "chapoly_decrypt_ietf"), ("src/crypto/src/lib.rs", "chapoly_encrypt_noise"), ("src/crypto/src/lib.rs", "chapoly_decrypt_noise"),
    ("src/crypto/src/noise.rs", "write_message"), ("src/crypto/src/noise.rs", "read_message"), ("src/crypto/src/noise.rs", "init_x"),
    ("src/cli/src/commands.rs", "ensure_created"), ("src/cli/src/commands.rs", "gen_key"), ("src/cli/src/commands.rs", "change_pass"),
    ("src/cli/src/commands.rs", "pass_encrypt"), ("src/cli/src/commands.rs", "pass_decrypt"), ("src/cli/src/commands.rs", "decrypt"), ("src/cli/src/commands.rs", "encrypt"),
    ("src/cli/src/keyring.rs", "lock_private_key"), ("src/cli/src/keyring.rs", "unlock_private_key"), ("src/cli/src/keyring.rs", "get_name_from_key"),
]

FLOW_TOKENS = [
    (r"\.read_exact\(", "read_exact"), (r"\.read\(", "read"), (r"\.write_all\(", "write_all"), (r"\.write\(", "write"), (r"\.flush\(\)", "flush"),
    (r"chapoly_encrypt_noise\(", "seal"), (r"chapoly_decrypt_noise\(", "open"), (r"chapoly_encrypt_ietf\(", "seal_ietf"), (r"chapoly_decrypt_ietf\(", "open_ietf"), (r"chapoly::open\(", "aead_open"), (r"chapoly::seal\(", "aead_seal"),
    (r"noise_encrypt\(", "noise_write"), (r"noise_decrypt\(", "noise_read"), (r"hkdf_sha256\(", "hkdf"), (r"kestrel_crypto::scrypt\(|\bscrypt\(", "scrypt"), (r"valid_file_format\(", "magic_check"),
    (r"return Err\((?:\w+::)?(\w+)", "err"), (r"\.ok_or(?:_else)?\(\s*(?:\|\|\s*)?(?:\w+::)?(\w+)", "err"),
    (r"\b\w+ \+= 1\b", "ctr+=1"), (r"\bloop\s*\{", "loop"), (r"\bbreak;", "break"), (r"secure_random\(", "random"), (r"PrivateKey::generate\(", "random_key"),
    (r"\.mix_hash\(", "mix_hash"), (r"\.mix_key\(", "mix_key"), (r"\.encrypt_and_hash\(", "encrypt_and_hash"), (r"\.decrypt_and_hash\(", "decrypt_and_hash"), (r"\.diffie_hellman\(", "dh"),
    (r"File::create\(", "file_create"), (r"\.append\(true\)", "open_append"), (r"\.truncate\(true\)", "open_truncate"), (r"OpenOptions::new\(", "open_options"),
    (r"lock_private_key\(", "lock"), (r"unlock_private_key\(", "unlock"), (r"encrypt::key_encrypt\(", "lib_key_encrypt"), (r"decrypt::key_decrypt\(", "lib_key_decrypt"),
    (r"encrypt::pass_encrypt\(", "lib_pass_encrypt"), (r"decrypt::pass_decrypt\(", "lib_pass_decrypt"), (r"open_output\(", "open_output"), (r"open_input\(", "open_input"), (r"open_keyring\(", "open_keyring"),
    (r"ask_user_stderr\(", "ask_user"), (r"ask_pass\(|confirm_password\(|confirm_new_pass\(", "ask_pass"), (r"println!\(", "println"), (r"\.zeroize\(\)", "zeroize"), (r"==\s*\w+\.as_str\(\)|\.as_str\(\)\s*==", "str_eq"),
    (r"\b\w+\[4\.\.\]", "nonce[4..]"), (r"to_le_bytes\(\)", "le_bytes"), (r"to_be_bytes\(\)", "be_bytes"), (r"if\s+\w+\s*>\s*\w+\s*\{", "len>cs"), (r"\b\w+\s*==\s*1\b", "last==1"),
    (r"\w+\.len\(\)\s*<\s*16\b|\.checked_sub\(16\)", "len<tag"), (r"\w+\.len\(\)\s*<\s*96\b", "len<96"),
]
# thin wrappers whose skeleton is a SET of facts (which AEAD, nonce offset, byte order), not an order of effects
UNORDERED = {"chapoly_encrypt_noise", "chapoly_decrypt_noise"}
# names that are too generic to be recognised as "a call of the private helper of that name in this file"
NOT_HELPERS = {"new", "from", "try_from", "fmt", "drop", "deref", "write", "flush", "read", "as_bytes", "as_str", "zeroize", "source", "main",
               "generate", "clone", "default", "len", "get", "map", "ok", "err", "into", "iter", "next"}


def flows():
    """for each mirrored function: the sequence of significant calls / guards / early returns in source order, with
    (a) named integer constants resolved, (b) calls of private helper functions of the same file expanded in place
    (so extracting or inlining a helper does not change the skeleton), (c) calls of other mirrored functions kept as
    `call:<fn>` tokens."""
    out = []
    mirrored = {}
    for rel, fn in FLOW_FNS:
        mirrored.setdefault(rel, set()).add(fn)
    cache = {}

    def bodies(rel):
        if rel not in cache:
            d, seen = {}, {}
            for name, b in split_fns(code(rel)):
                seen[name] = seen.get(name, 0) + 1
                d.setdefault(name, b)
            cache[rel] = {n: b for n, b in d.items() if seen[n] == 1}
        return cache[rel]

    def scan(rel, fn, body, depth, stack):
        fns = bodies(rel)
        helpers = [h for h in fns if h != fn and h not in NOT_HELPERS and h not in stack]
        fixed = "|".join(f"(?P<t{i}>{pat})" for i, (pat, _) in enumerate(FLOW_TOKENS))
        pat = fixed + ("|(?P<helper>(?<!\\w)(?:\\w+::)?(?P<hname>" + "|".join(map(re.escape, helpers)) + r")\()" if helpers else "")
        seq = []
        for m in re.finditer(pat, body):
            if helpers and m.group("helper") is not None:
                h = m.group("hname")
                if h in mirrored.get(rel, ()):
                    seq.append("call:" + h)
                elif depth < 3:
                    seq.extend(scan(rel, h, fns[h], depth + 1, stack | {fn}))
                continue
            for i, (tp, label) in enumerate(FLOW_TOKENS):
                if m.group(f"t{i}") is not None:
                    if label == "err":
                        sub = re.match(tp, m.group(0))
                        label = "err:" + (sub.group(1) if sub else "?")
                    seq.append(label)
                    break
        return seq

    for rel, fn in FLOW_FNS:
        body = None
        for name, b in split_fns(code(rel)):
            if name == fn:
                body = b
                break
        seq = scan(rel, fn, body, 0, frozenset()) if body is not None else []
        if fn in UNORDERED:
            seq = sorted(seq)
        out.append((rel.split("/")[-1] + "::" + fn, seq))
    return out


# ---- Lean rendering ---------------------------------------------------------------------------

def lean_bytes(bs):
    return "[" + ", ".join(str(b) for b in bs) + "]"


def render(v):
    L = []
    A = L.append
    A("/-")
    A("  GENERATED by tools/gen_model_inputs.py from /repo's current sources. Do not edit.")
    A("  Constants, offsets and tables of the Rust code, as data for the model and its theorems.")
    A("-/")
    A("import KestrelModel.Bytes")
    A("namespace Kestrel.Generated")
    A("")
    for k in ("encPrologue", "encPassMagic", "decAsymMagic", "decPassMagic", "privateKeyVersion"):
        A(f"def {k} : Bytes := {lean_bytes(v[k])}")
    for k in ("chunkSize", "tagSize", "scryptN", "scryptR", "scryptP", "krScryptN", "krScryptR", "krScryptP",
              "handshakeLen", "saltLen", "maxNameSize", "privateKeyCtLen", "publicKeyLen", "encodedPkLen",
              "hashLen", "dhLen", "nonceOffset", "lastFlagValue"):
        A(f"def {k} : Nat := {v[k]}")
    A(f'def protocolName : String := "{v["protocolName"]}"')
    A(f'def protocolNameBytes : Bytes := {lean_bytes(list(v["protocolName"].encode()))}')
    A("inductive Token | E | S | EE | ES | SE | SS")
    A("deriving DecidableEq, Repr")
    A("def tokenPattern : List Token := [" + ", ".join("." + t for t in v["tokenPattern"]) + "]")
    for k in ("encHdrCtr", "encHdrLast", "encHdrLen", "decHdrLast", "decHdrLen", "skVersion", "skSalt", "skCt"):
        A(f"def {k} : Nat × Nat := ({v[k][0]}, {v[k][1]})")
    A("")
    A("structure Container where")
    A("  name : String")
    A("  dropZeroizes : Bool")
    A("  zeroizeCoversSecret : Bool")
    A("  assignDropsOld : Bool")
    A("deriving Repr, DecidableEq")
    A("def containers : List Container := [")
    items = []
    for n, d in v["containers"].items():
        items.append(f'  ⟨"{n}", {str(d["dropZeroizes"]).lower()}, {str(d["zeroizeCoversSecret"]).lower()}, {str(d["assignDropsOld"]).lower()}⟩')
    A(",\n".join(items) + "]")
    A("")
    A("structure PanicSite where")
    A("  file : String")
    A("  fn : String")
    A("  kind : String")
    A("  text : String")
    A("deriving Repr, DecidableEq")
    A("def panicSites : List PanicSite := [")
    items = []
    for s in v["panicSites"]:
        esc = lambda t: t.replace("\\", "\\\\").replace('"', '\\"')
        items.append(f'  ⟨"{esc(s["file"])}", "{esc(s["fn"])}", "{esc(s["kind"])}", "{esc(s["text"])}"⟩')
    A(",\n".join(items) + "]")
    A("")
    A("/-- items that keep state between calls (`static`, `thread_local!`, `lazy_static!`) in the non-test code, per crate -/")
    for crate in ("crypto", "cli", "ffi"):
        A(f"def flow_pure_{crate} : List String := [" + ", ".join(json.dumps(t) for t in v["staticState"][crate]) + "]")
    A("")
    A("/-- control-flow skeletons: for each function the sequence of significant calls / guards / returns in source order -/")
    A("def flows : List (String × List String) := [")
    A(",\n".join("  (" + json.dumps(n) + ", [" + ", ".join(json.dumps(t) for t in seq) + "])" for n, seq in v["flows"]) + "]")
    for n, seq in v["flows"]:
        A("def flow_" + re.sub(r"[^A-Za-z0-9]+", "_", n) + " : List String := [" + ", ".join(json.dumps(t) for t in seq) + "]")
    A("")
    A("end Kestrel.Generated")
    return "\n".join(L) + "\n"


def main():
    v = extract()
    text = render(v)
    os.makedirs(CACHE, exist_ok=True)
    old = None
    try:
        old = open(OUT, encoding="utf-8").read()
    except OSError:
        pass
    changed = old != text
    if changed:
        tmp = OUT + ".tmp"
        with open(tmp, "w", encoding="utf-8") as f:
            f.write(text)
        os.replace(tmp, OUT)
    v["extraction_degraded"] = degraded
    v["changed"] = changed
    v["sha256"] = hashlib.sha256(text.encode()).hexdigest()
    with open(os.path.join(CACHE, "generated.json"), "w") as f:
        json.dump(v, f, indent=1)
    print(json.dumps({"changed": changed, "degraded": degraded, "panic_sites": len(v["panicSites"])}))


if __name__ == "__main__":
    main()
