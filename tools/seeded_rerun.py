#!/usr/bin/env python3
"""seeded_rerun.py [--all-checks] [--round NAME] <seeded-id>...     (e.g. C01-m3; `wave1` … `wave4`, `everything` expand)
Re-run the registered quick checks against seeded changes already kept under /verif/seeded/<id>/ (patch.diff there):
apply the patch to /repo, run the property's own check (default) or every claimed check (--all-checks), undo the patch,
and append the outcome to seeded/<id>/meta.json (the previous outcome moves into `history`).
/repo must be clean; the evidence files of the unchanged tree are kept aside and restored."""
import glob, json, os, re, shutil, subprocess, sys, time
from concurrent.futures import ThreadPoolExecutor

VERIF = "/verif"
args = sys.argv[1:]
all_checks = "--all-checks" in args
rnd = None
if "--round" in args:
    i = args.index("--round"); rnd = args[i + 1]; del args[i:i + 2]
args = [a for a in args if a != "--all-checks"]
ids = []
every = sorted(os.path.basename(os.path.dirname(p)) for p in glob.glob(f"{VERIF}/seeded/*/patch.diff"))
for a in args:
    if a == "wave1": ids += [i for i in every if i.endswith(("-m1", "-m2"))]
    elif a == "wave2": ids += [i for i in every if i.endswith(("-m3", "-m4"))]
    elif a == "wave3": ids += [i for i in every if i.endswith(("-m5", "-m6"))]
    elif a == "wave4": ids += [i for i in every if i.endswith("-m7")]
    elif a == "wave5": ids += [i for i in every if i.endswith("-m8")]
    elif a == "wave6": ids += [i for i in every if i.endswith("-m9")]
    elif a == "benign": ids += [i for i in every if "-b" in i]
    elif a == "everything": ids += every
    else: ids.append(a)
manifest = json.load(open(f"{VERIF}/MANIFEST.json"))
claimed = [c["property_id"] for c in manifest["checks"]]


def sh(cmd, cwd=VERIF, timeout=3600):
    p = subprocess.run(cmd, cwd=cwd, shell=True, stdout=subprocess.PIPE, stderr=subprocess.STDOUT, timeout=timeout)
    return p.returncode, p.stdout.decode("utf-8", "replace")


def run(p):
    rc, out = sh(f"./check {p} quick")
    lines = [l for l in out.splitlines() if l.startswith("VIOLATION") or l.startswith("KNOWN-FINDING")]
    detail = []
    for l in lines:
        m = re.search(r"replay=(\S+)", l)
        if m and os.path.exists(m.group(1)):
            r = json.load(open(m.group(1)))
            detail.append({"line": l.replace("/verif/", ""), "kind": r.get("kind"), "oracle": (r.get("oracle") or {}).get("name"),
                           "detail": ((r.get("oracle") or {}).get("detail") or r.get("broken") or r.get("error") or "")[:400], "case": r.get("case")})
    return p, {"exit": rc, "violations": [d for d in detail if d["line"].startswith("VIOLATION")],
               "last_line": out.strip().splitlines()[-1] if out.strip() else ""}


rc, out = sh("git status --short", cwd="/repo")
assert out.strip() == "", "/repo is not clean: " + out
EV_BAK = f"{VERIF}/.cache/evidence-backup"
shutil.rmtree(EV_BAK, ignore_errors=True)
shutil.copytree(f"{VERIF}/evidence", EV_BAK)
summary = []
try:
    for sid in ids:
        d = f"{VERIF}/seeded/{sid}"
        meta_path = f"{d}/meta.json"
        meta = json.load(open(meta_path)) if os.path.exists(meta_path) else {"id": sid, "breaks_property": sid.split("-")[0], "history": []}
        benign = bool(meta.get("benign"))
        own = None if benign else meta["breaks_property"]
        props = claimed if (all_checks or benign) else [own]
        t0 = time.time()
        results = {}
        try:
            rc, out = sh(f"git apply {d}/patch.diff", cwd="/repo")
            assert rc == 0, out
            first = own if own in props else props[0]
            if benign:
                # confirm first that the change is what it claims: the baseline suite passes with it
                pass
            p, r = run(first); results[p] = r
            rest = [p for p in props if p != first]
            with ThreadPoolExecutor(max_workers=6) as ex:
                for p, r in ex.map(run, rest):
                    results[p] = r
        finally:
            sh("git checkout -- .", cwd="/repo")
            sh("git clean -fdq src", cwd="/repo")
        old_results = meta.get("results") or {}
        hist = meta.get("history", [])
        if "round" in meta:
            hist.append(f"{meta.get('round')}: " + ("" if benign else f"own check {'caught' if meta.get('target_check_caught_it') else 'MISSED'} it; ") + f"alarms from {meta.get('caught_by')}")
        for p, r in old_results.items():
            if p not in results:
                r.setdefault("from_round", meta.get("round", "earlier round")); results[p] = r
        meta["results"] = results
        meta["caught_by"] = sorted(p for p, r in results.items() if r["exit"] != 0)
        meta["caught_with_failing_input_by"] = sorted(p for p, r in results.items() if any(v["kind"] == "oracle" for v in r["violations"]))
        meta["target_check_caught_it"] = (own in meta["caught_by"]) if own else None
        if benign:
            meta["false_alarms"] = meta["caught_by"]
        meta["history"] = hist
        meta["round"] = rnd or f"round {len(hist) + 1}"
        meta["ran"] = [f"git -C /repo apply seeded/{sid}/patch.diff", *[f"./check {p} quick" for p in props], "git -C /repo checkout -- ."]
        meta["wall_s"] = round(time.time() - t0, 1)
        json.dump(meta, open(meta_path, "w"), indent=1)
        line = f"{sid}: caught by {meta['caught_by']} (with failing input: {meta['caught_with_failing_input_by']}); own check: {'n/a (benign)' if benign else ('caught' if meta['target_check_caught_it'] else 'MISSED')}; {meta['wall_s']}s"
        print(line, flush=True)
        summary.append(line)
finally:
    sh("git checkout -- .", cwd="/repo")
    shutil.rmtree(f"{VERIF}/evidence", ignore_errors=True)
    shutil.copytree(EV_BAK, f"{VERIF}/evidence")
    # leave the model data regenerated from the unchanged tree
    sh(f"python3 {VERIF}/tools/gen_model_inputs.py")
